import DFV.Lemmas.C02Patch
import DFV.Lemmas.C02Nearest
/-!
# C02 — a field holds exactly the value its specification assigns to every cell

Property theorems only (helper lemmas live in `DFV/Lemmas/C02*.lean`).  All statements are
about the executable model `DFV/Model/C02.lean` of `Field._as_array`, the `array` setter,
`Field.__call__`, `__getattr__`, `__iter__`, `Mesh.region2slices`, `Mesh.line` and
`Field.line`, for every number of dimensions, every mesh, every component count, every value
type `V` (the model only moves values, so int, float, complex and bool fields are all
instances) and every specification.  An array entry is addressed by `i ++ [c]`: cell `i`,
component `c`; the array of a field on mesh `m` has shape `m.n ++ [nvdim]`, i.e. `(*n, nvdim)`.
-/
namespace DFV.C02
open DFV DFV.Mesh

variable {V : Type} [Inhabited V]

/-! ## constants, arrays, callables, source fields -/

/-- A scalar constant (for `nvdim = 1`, or the scalar zero for any `nvdim`) fills every entry
of an array of shape `(*n, nvdim)`. -/
theorem asArray_const (isZero : V → Bool) (junk : Option V) (v : V) (m : Mesh) (nv : Nat)
    (h : nv ≤ 1 ∨ isZero v = true) :
    ∃ a, asArray isZero junk (.leaf (.scalar v)) m nv = .ok a ∧ a.shape = m.n ++ [nv] ∧ ∀ j, a.get j = v := by
  refine ⟨NDA.const (m.n ++ [nv]) v, ?_, rfl, fun _ => rfl⟩
  simp only [asArray, asLeaf]
  have : ¬ (1 < nv ∧ isZero v = false) := by
    rintro ⟨h1, h2⟩
    rcases h with h | h
    · omega
    · simp [h] at h2
  simp [this]

/-- A non-zero scalar for a field with more than one component is rejected (wrong component
count). -/
theorem asArray_scalar_rejected (isZero : V → Bool) (junk : Option V) (v : V) (m : Mesh) (nv : Nat)
    (h1 : 1 < nv) (h2 : isZero v = false) :
    asArray isZero junk (.leaf (.scalar v)) m nv = .error .value := by
  simp [asArray, asLeaf, h1, h2]

/-- A vector of `nvdim` numbers is stored in every cell, in an array of shape `(*n, nvdim)`. -/
theorem asArray_vector (isZero : V → Bool) (junk : Option V) (a : NDA V) (m : Mesh) (nv : Nat)
    (hs : a.shape = [nv]) (hamb : ¬ (nv = 1 ∧ m.n = [1])) :
    ∃ b, asArray isZero junk (.leaf (.arr a)) m nv = .ok b ∧ b.shape = m.n ++ [nv] ∧
      ∀ i c, i.length = m.n.length → c < nv → b.get (i ++ [c]) = a.get [c] := by
  obtain ⟨b, hb, hshape, hget⟩ := bcast_vec m.n nv a hs
  refine ⟨b, ?_, hshape, hget⟩
  simp only [asArray, asLeaf]
  have h1 : ¬ (nv = 1 ∧ a.shape = m.n) := by
    rintro ⟨h1, h2⟩
    exact hamb ⟨h1, by rw [← h2, hs, h1]⟩
  rw [if_neg h1, hs]
  simp [hb]

/-- A per-cell array of shape `(*n, nvdim)` is stored entry by entry. -/
theorem asArray_array (isZero : V → Bool) (junk : Option V) (a : NDA V) (m : Mesh) (nv : Nat)
    (hs : a.shape = m.n ++ [nv]) :
    ∃ b, asArray isZero junk (.leaf (.arr a)) m nv = .ok b ∧ b.shape = m.n ++ [nv] ∧
      ∀ j, inRange (m.n ++ [nv]) j = true → b.get j = a.get j := by
  obtain ⟨b, hb, hshape, hget⟩ := bcast_same (m.n ++ [nv]) a hs
  refine ⟨b, ?_, hshape, hget⟩
  simp only [asArray, asLeaf]
  have h1 : ¬ (nv = 1 ∧ a.shape = m.n) := by
    rintro ⟨_, h2⟩
    have := congrArg List.length (hs.symm.trans h2)
    simp at this
  simp [h1, hs, hb]

/-- For a scalar field an array of shape `n` (no component axis) gives cell `i` the entry `a[i]`. -/
theorem asArray_array_scalar (isZero : V → Bool) (junk : Option V) (a : NDA V) (m : Mesh) (hs : a.shape = m.n) :
    ∃ b, asArray isZero junk (.leaf (.arr a)) m 1 = .ok b ∧ b.shape = m.n ++ [1] ∧
      ∀ i, b.get (i ++ [0]) = a.get i := by
  refine ⟨⟨m.n ++ [1], fun j => a.get j.dropLast⟩, ?_, rfl, fun i => by simp⟩
  simp [asArray, asLeaf, hs]

/-- An array whose last axis is not `nvdim` (and which is not the cell-shaped array of a scalar
field) is rejected. -/
theorem asArray_wrong_count_rejected (isZero : V → Bool) (junk : Option V) (a : NDA V) (m : Mesh) (nv : Nat)
    (h1 : ¬ (nv = 1 ∧ a.shape = m.n)) (h2 : a.shape.getLast? ≠ some nv) :
    asArray isZero junk (.leaf (.arr a)) m nv = .error .value := by
  simp [asArray, asLeaf, h1, h2]

/-- An array that NumPy cannot broadcast to `(*n, nvdim)` is rejected (wrong shape). -/
theorem asArray_wrong_shape_rejected (isZero : V → Bool) (junk : Option V) (a : NDA V) (m : Mesh) (nv : Nat)
    (h1 : ¬ (nv = 1 ∧ a.shape = m.n)) (h2 : bcastOk (m.n ++ [nv]) a.shape = false) :
    asArray isZero junk (.leaf (.arr a)) m nv = .error .value := by
  simp only [asArray, asLeaf, h1, if_false]
  split
  · rfl
  · simp [bcast, h2]

/-- A string, `None`, … is rejected (wrong type). -/
theorem asArray_wrong_type_rejected (isZero : V → Bool) (junk : Option V) (m : Mesh) (nv : Nat) :
    asArray isZero junk (.leaf (.bad : Leaf V)) m nv = .error .type := rfl

/-- Refinement of the callable loop: after `for index, point in zip(mesh.indices, mesh)` every
cell `i` holds the function's value at the centre of cell `i`, in an array of shape `(*n, nvdim)`. -/
theorem asArray_func (isZero : V → Bool) (junk : Option V) (f : List Rat → List V) (m : Mesh) (nv : Nat)
    (hlen : ∀ i, inRange m.n i = true → (f (m.centre i)).length = nv) :
    ∃ b, asArray isZero junk (.leaf (.func f)) m nv = .ok b ∧ b.shape = m.n ++ [nv] ∧
      ∀ i c, inRange m.n i = true → b.get (i ++ [c]) = (f (m.centre i)).getD c default := by
  have hz : (indicesCode m.n).zip m.iter = (indicesCode m.n).map fun i => (i, m.centre i) := by
    unfold Mesh.iter; exact zip_map_self _ _
  have hpair : ∀ p ∈ (indicesCode m.n).zip m.iter, p.2 = m.centre p.1 := by
    intro p hp
    rw [hz, List.mem_map] at hp
    obtain ⟨i, _, rfl⟩ := hp; rfl
  obtain ⟨b, hb⟩ := funcLoop_ok f nv ((indicesCode m.n).zip m.iter) (NDA.const (m.n ++ [nv]) default) (by
    intro p hp
    rw [hpair p hp]
    apply hlen
    rw [hz, List.mem_map] at hp
    obtain ⟨i, hi, rfl⟩ := hp
    exact (mem_indicesCode _ _).mp hi)
  refine ⟨b, by simpa [asArray, asLeaf] using hb, funcLoop_shape _ _ _ _ _ hb, fun i c hi => ?_⟩
  rw [funcLoop_get f nv m.centre _ hpair _ _ hb i c]
  have : i ∈ ((indicesCode m.n).zip m.iter).map (·.1) := by
    rw [hz, List.map_map]
    simpa using (mem_indicesCode _ _).mpr hi
  simp [this]

/-- A callable that returns the wrong number of components at some cell centre is rejected. -/
theorem asArray_func_rejected (isZero : V → Bool) (junk : Option V) (f : List Rat → List V) (m : Mesh) (nv : Nat)
    (i : List Nat) (hi : inRange m.n i = true) (hlen : (f (m.centre i)).length ≠ nv) :
    asArray isZero junk (.leaf (.func f)) m nv = .error .value := by
  simp only [asArray, asLeaf]
  apply funcLoop_err f nv _ _ (i, m.centre i) _ hlen
  unfold Mesh.iter
  rw [zip_map_self, List.mem_map]
  exact ⟨i, (mem_indicesCode _ _).mpr hi, rfl⟩

/-- A source field on another mesh: target cell `i` receives the value of the source cell whose
centre is nearest (per axis, ties to the larger index), that source cell exists and CONTAINS the
centre of cell `i`; the result has shape `(*n, nvdim)`. -/
theorem asArray_field (isZero : V → Bool) (junk : Option V) (src : VF V) (m : Mesh) (nv : Nat)
    (hm : m.Inv) (hs : src.mesh.Inv) (hnd : src.mesh.ndim = m.ndim)
    (hdims : m.region.dims = src.mesh.region.dims) (hnv : src.nvdim = nv)
    (hin : ∀ a, a < m.ndim → src.mesh.region.lo a ≤ m.region.lo a ∧ m.region.hi a ≤ src.mesh.region.hi a) :
    ∃ b, asArray isZero junk (.leaf (.field src)) m nv = .ok b ∧ b.shape = m.n ++ [nv] ∧
      ∀ i c, inRange m.n i = true →
        b.get (i ++ [c]) = src.data.get (nearestIdx src.mesh m i ++ [c]) ∧
        ∀ a, a < m.ndim →
          (nearestIdx src.mesh m i).getD a 0 < src.mesh.nAt a ∧
          src.mesh.region.lo a + ((nearestIdx src.mesh m i).getD a 0 : Rat) * src.mesh.cellAt a
            ≤ m.centreAx a (i.getD a 0 : Nat) ∧
          m.centreAx a (i.getD a 0 : Nat)
            ≤ src.mesh.region.lo a + (((nearestIdx src.mesh m i).getD a 0 : Rat) + 1) * src.mesh.cellAt a := by
  have hlen : m.n.length = m.ndim := hm.2.1
  have hlt : ∀ a, a < m.ndim → m.region.lo a < m.region.hi a := fun a ha => inv_lo_lt_hi m hm a ha
  have hpmax : m.region.pmax.length = m.region.pmin.length := hm.1.2.1
  have hc : src.mesh.region.containsReg m.region = true := by
    unfold Region.containsReg
    have h1 : src.mesh.region.containsPt m.region.pmin = true := by
      apply containsPt_exact
      · exact hnd.symm
      · intro a ha
        have ha' : a < m.ndim := by rw [← hnd]; exact ha
        exact ⟨(hin a ha').1, le_trans (hlt a ha').le (hin a ha').2⟩
    have h2 : src.mesh.region.containsPt m.region.pmax = true := by
      apply containsPt_exact
      · rw [hpmax]; exact hnd.symm
      · intro a ha
        have ha' : a < m.ndim := by rw [← hnd]; exact ha
        exact ⟨le_trans (hin a ha').1 (hlt a ha').le, (hin a ha').2⟩
    simp [h1, h2]
  have hbr : ¬ (src.nvdim = 1 ∧ nv ≠ 1) := by rw [hnv]; tauto
  refine ⟨⟨m.n ++ [src.nvdim], fun j => src.data.get (nearestIdx src.mesh m j.dropLast ++ [j.getLastD 0])⟩,
    ?_, by rw [hnv], fun i c hi => ⟨?_, fun a ha => ?_⟩⟩
  · simp [asArray, asLeaf, hc, hdims, hbr]
  · simp [List.getLastD_eq_getLast?]
  · obtain ⟨hil, hib⟩ := (inRange_iff m.n i).mp hi
    have hia : i.getD a 0 < m.nAt a := hib a (by omega)
    have hcen := centreAx_in m a _ hia (hlt a ha)
    have hx : (m.cells.getD a []).getD (i.getD a 0) 0 = m.centreAx a (i.getD a 0 : Nat) :=
      cells_getD m hm a ha _ hia
    have := nearest_contains src.mesh hs a (by rw [hnd]; exact ha) (m.centreAx a (i.getD a 0 : Nat))
      (le_trans (hin a ha).1 hcen.1) (le_trans hcen.2 (hin a ha).2)
    unfold nearestIdx
    rw [getD_tab _ _ _ _ ha, hx]
    exact this

/-- A source field whose region does not contain the target region is rejected. -/
theorem asArray_field_outside (isZero : V → Bool) (junk : Option V) (src : VF V) (m : Mesh) (nv : Nat)
    (h : src.mesh.region.containsReg m.region = false) :
    asArray isZero junk (.leaf (.field src)) m nv = .error .value := by
  simp [asArray, asLeaf, h]

/-- The `array` setter converts again what `update_field_values` produced ("re-validates every
assignment"): on an array of the right shape the second conversion is the identity, so the
two-pass constructor path stores exactly what the specification gives. -/
theorem updateValues_eq (isZero : V → Bool) (junk : Option V) (s : Spec V) (m : Mesh) (nv : Nat) (a : NDA V)
    (h : asArray isZero junk s m nv = .ok a) (hs : a.shape = m.n ++ [nv]) :
    ∃ b, updateValues isZero junk s m nv = .ok b ∧ b.shape = m.n ++ [nv] ∧
      ∀ j, inRange (m.n ++ [nv]) j = true → b.get j = a.get j := by
  obtain ⟨b, hb, hshape, hget⟩ := asArray_array isZero junk a m nv hs
  refine ⟨b, ?_, hshape, hget⟩
  unfold updateValues
  rw [h]
  simpa [asArray] using hb

/-- …and a value the first conversion let through with the wrong component count (a source field
with another `nvdim`) is caught by the second one. -/
theorem updateValues_field_wrong_nvdim_rejected (isZero : V → Bool) (junk : Option V) (src : VF V) (m : Mesh)
    (nv : Nat) (h1 : src.nvdim ≠ nv) (h2 : src.nvdim ≠ 1) :
    ∃ e, updateValues isZero junk (.leaf (.field src)) m nv = .error e := by
  have hbr : ¬ (src.nvdim = 1 ∧ nv ≠ 1) := fun h => h2 h.1
  have hl : (m.n ++ [src.nvdim]).getLast? ≠ some nv := by simp [h1]
  have hne : ¬ (nv = 1 ∧ m.n ++ [src.nvdim] = m.n) := by
    rintro ⟨_, h⟩
    have := congrArg List.length h
    simp at this
  unfold updateValues
  simp only [asArray, asLeaf]
  by_cases hc : src.mesh.region.containsReg m.region = true
  · by_cases hd : m.region.dims = src.mesh.region.dims
    · refine ⟨.value, ?_⟩
      simp [hc, hd, hbr, hne]
      intro h; exact absurd h h1
    · exact ⟨.key, by simp [hc, hd]⟩
  · exact ⟨.value, by simp [hc]⟩

end DFV.C02
