import DFV.Lemmas.C02Patch
import DFV.Lemmas.C02Nearest
import DFV.Lemmas.C02Line
/-!
# C02 — a field holds exactly the value its specification assigns to every cell

Property theorems only (helper lemmas live in `DFV/Lemmas/C02*.lean`).  All statements are
about the executable model `DFV/Model/C02.lean` of `Field._as_array`, the `array` setter,
`Field.__call__`, `__getattr__`, `__iter__`, `Mesh.region2slices`, `Mesh.line` and
`Field.line`, for every number of dimensions, every mesh, every component count, every value
type `V` (the model only moves values, so int, float, complex and bool fields are all
instances) and every specification.  An array entry is addressed by `i ++ [c]`: cell `i`,
component `c`; the array of a field on mesh `m` has shape `m.n ++ [nvdim]`, i.e. `(*n, nvdim)`.
-/
namespace DFV.C02
open DFV DFV.Mesh

variable {V : Type} [Inhabited V]

/-! ## constants, arrays, callables, source fields -/

/-- A scalar constant (for `nvdim = 1`, or the scalar zero for any `nvdim`) fills every entry
of an array of shape `(*n, nvdim)`. -/
theorem asArray_const (isZero : V → Bool) (junk : Option V) (v : V) (m : Mesh) (nv : Nat)
    (h : nv ≤ 1 ∨ isZero v = true) :
    ∃ a, asArray isZero junk (.leaf (.scalar v)) m nv = .ok a ∧ a.shape = m.n ++ [nv] ∧ ∀ j, a.get j = v := by
  refine ⟨NDA.const (m.n ++ [nv]) v, ?_, rfl, fun _ => rfl⟩
  simp only [asArray, asLeaf]
  have : ¬ (1 < nv ∧ isZero v = false) := by
    rintro ⟨h1, h2⟩
    rcases h with h | h
    · omega
    · simp [h] at h2
  simp [this]

/-- A non-zero scalar for a field with more than one component is rejected (wrong component
count). -/
theorem asArray_scalar_rejected (isZero : V → Bool) (junk : Option V) (v : V) (m : Mesh) (nv : Nat)
    (h1 : 1 < nv) (h2 : isZero v = false) :
    asArray isZero junk (.leaf (.scalar v)) m nv = .error .value := by
  simp [asArray, asLeaf, h1, h2]

/-- A vector of `nvdim` numbers is stored in every cell, in an array of shape `(*n, nvdim)`. -/
theorem asArray_vector (isZero : V → Bool) (junk : Option V) (a : NDA V) (m : Mesh) (nv : Nat)
    (hs : a.shape = [nv]) (hamb : ¬ (nv = 1 ∧ m.n = [1])) :
    ∃ b, asArray isZero junk (.leaf (.arr a)) m nv = .ok b ∧ b.shape = m.n ++ [nv] ∧
      ∀ i c, i.length = m.n.length → c < nv → b.get (i ++ [c]) = a.get [c] := by
  obtain ⟨b, hb, hshape, hget⟩ := bcast_vec m.n nv a hs
  refine ⟨b, ?_, hshape, hget⟩
  simp only [asArray, asLeaf]
  have h1 : ¬ (nv = 1 ∧ a.shape = m.n) := by
    rintro ⟨h1, h2⟩
    exact hamb ⟨h1, by rw [← h2, hs, h1]⟩
  rw [if_neg h1, hs]
  simp [hb]

/-- A per-cell array of shape `(*n, nvdim)` is stored entry by entry. -/
theorem asArray_array (isZero : V → Bool) (junk : Option V) (a : NDA V) (m : Mesh) (nv : Nat)
    (hs : a.shape = m.n ++ [nv]) :
    ∃ b, asArray isZero junk (.leaf (.arr a)) m nv = .ok b ∧ b.shape = m.n ++ [nv] ∧
      ∀ j, inRange (m.n ++ [nv]) j = true → b.get j = a.get j := by
  obtain ⟨b, hb, hshape, hget⟩ := bcast_same (m.n ++ [nv]) a hs
  refine ⟨b, ?_, hshape, hget⟩
  simp only [asArray, asLeaf]
  have h1 : ¬ (nv = 1 ∧ a.shape = m.n) := by
    rintro ⟨_, h2⟩
    have := congrArg List.length (hs.symm.trans h2)
    simp at this
  simp [h1, hs, hb]

/-- For a scalar field an array of shape `n` (no component axis) gives cell `i` the entry `a[i]`. -/
theorem asArray_array_scalar (isZero : V → Bool) (junk : Option V) (a : NDA V) (m : Mesh) (hs : a.shape = m.n) :
    ∃ b, asArray isZero junk (.leaf (.arr a)) m 1 = .ok b ∧ b.shape = m.n ++ [1] ∧
      ∀ i, b.get (i ++ [0]) = a.get i := by
  refine ⟨⟨m.n ++ [1], fun j => a.get j.dropLast⟩, ?_, rfl, fun i => by simp⟩
  simp [asArray, asLeaf, hs]

/-- An array whose last axis is not `nvdim` (and which is not the cell-shaped array of a scalar
field) is rejected. -/
theorem asArray_wrong_count_rejected (isZero : V → Bool) (junk : Option V) (a : NDA V) (m : Mesh) (nv : Nat)
    (h1 : ¬ (nv = 1 ∧ a.shape = m.n)) (h2 : a.shape.getLast? ≠ some nv) :
    asArray isZero junk (.leaf (.arr a)) m nv = .error .value := by
  simp [asArray, asLeaf, h1, h2]

/-- An array that NumPy cannot broadcast to `(*n, nvdim)` is rejected (wrong shape). -/
theorem asArray_wrong_shape_rejected (isZero : V → Bool) (junk : Option V) (a : NDA V) (m : Mesh) (nv : Nat)
    (h1 : ¬ (nv = 1 ∧ a.shape = m.n)) (h2 : bcastOk (m.n ++ [nv]) a.shape = false) :
    asArray isZero junk (.leaf (.arr a)) m nv = .error .value := by
  simp only [asArray, asLeaf, h1, if_false]
  split
  · rfl
  · simp [bcast, h2]

/-- A string, `None`, … is rejected (wrong type). -/
theorem asArray_wrong_type_rejected (isZero : V → Bool) (junk : Option V) (m : Mesh) (nv : Nat) :
    asArray isZero junk (.leaf (.bad : Leaf V)) m nv = .error .type := rfl

/-- Refinement of the callable loop: after `for index, point in zip(mesh.indices, mesh)` every
cell `i` holds the function's value at the centre of cell `i`, in an array of shape `(*n, nvdim)`. -/
theorem asArray_func (isZero : V → Bool) (junk : Option V) (f : List Rat → List V) (m : Mesh) (nv : Nat)
    (hlen : ∀ i, inRange m.n i = true → (f (m.centre i)).length = nv) :
    ∃ b, asArray isZero junk (.leaf (.func f)) m nv = .ok b ∧ b.shape = m.n ++ [nv] ∧
      ∀ i c, inRange m.n i = true → b.get (i ++ [c]) = (f (m.centre i)).getD c default := by
  have hz : (indicesCode m.n).zip m.iter = (indicesCode m.n).map fun i => (i, m.centre i) := by
    unfold Mesh.iter; exact zip_map_self _ _
  have hpair : ∀ p ∈ (indicesCode m.n).zip m.iter, p.2 = m.centre p.1 := by
    intro p hp
    rw [hz, List.mem_map] at hp
    obtain ⟨i, _, rfl⟩ := hp; rfl
  obtain ⟨b, hb⟩ := funcLoop_ok f nv ((indicesCode m.n).zip m.iter) (NDA.const (m.n ++ [nv]) default) (by
    intro p hp
    rw [hpair p hp]
    apply hlen
    rw [hz, List.mem_map] at hp
    obtain ⟨i, hi, rfl⟩ := hp
    exact (mem_indicesCode _ _).mp hi)
  refine ⟨b, by simpa [asArray, asLeaf] using hb, funcLoop_shape _ _ _ _ _ hb, fun i c hi => ?_⟩
  rw [funcLoop_get f nv m.centre _ hpair _ _ hb i c]
  have : i ∈ ((indicesCode m.n).zip m.iter).map (·.1) := by
    rw [hz, List.map_map]
    simpa using (mem_indicesCode _ _).mpr hi
  simp [this]

/-- A callable that returns the wrong number of components at some cell centre is rejected. -/
theorem asArray_func_rejected (isZero : V → Bool) (junk : Option V) (f : List Rat → List V) (m : Mesh) (nv : Nat)
    (i : List Nat) (hi : inRange m.n i = true) (hlen : (f (m.centre i)).length ≠ nv) :
    asArray isZero junk (.leaf (.func f)) m nv = .error .value := by
  simp only [asArray, asLeaf]
  apply funcLoop_err f nv _ _ (i, m.centre i) _ hlen
  unfold Mesh.iter
  rw [zip_map_self, List.mem_map]
  exact ⟨i, (mem_indicesCode _ _).mpr hi, rfl⟩

/-- A source field on another mesh: target cell `i` receives the value of the source cell whose
centre is nearest (per axis, ties to the larger index), that source cell exists and CONTAINS the
centre of cell `i`; the result has shape `(*n, nvdim)`. -/
theorem asArray_field (isZero : V → Bool) (junk : Option V) (src : VF V) (m : Mesh) (nv : Nat)
    (hm : m.Inv) (hs : src.mesh.Inv) (hnd : src.mesh.ndim = m.ndim)
    (hdims : m.region.dims = src.mesh.region.dims) (hnv : src.nvdim = nv)
    (hin : ∀ a, a < m.ndim → src.mesh.region.lo a ≤ m.region.lo a ∧ m.region.hi a ≤ src.mesh.region.hi a) :
    ∃ b, asArray isZero junk (.leaf (.field src)) m nv = .ok b ∧ b.shape = m.n ++ [nv] ∧
      ∀ i c, inRange m.n i = true →
        b.get (i ++ [c]) = src.data.get (nearestIdx src.mesh m i ++ [c]) ∧
        ∀ a, a < m.ndim →
          (nearestIdx src.mesh m i).getD a 0 < src.mesh.nAt a ∧
          src.mesh.region.lo a + ((nearestIdx src.mesh m i).getD a 0 : Rat) * src.mesh.cellAt a
            ≤ m.centreAx a (i.getD a 0 : Nat) ∧
          m.centreAx a (i.getD a 0 : Nat)
            ≤ src.mesh.region.lo a + (((nearestIdx src.mesh m i).getD a 0 : Rat) + 1) * src.mesh.cellAt a := by
  have hlen : m.n.length = m.ndim := hm.2.1
  have hlt : ∀ a, a < m.ndim → m.region.lo a < m.region.hi a := fun a ha => inv_lo_lt_hi m hm a ha
  have hpmax : m.region.pmax.length = m.region.pmin.length := hm.1.2.1
  have hc : src.mesh.region.containsReg m.region = true := by
    unfold Region.containsReg
    have h1 : src.mesh.region.containsPt m.region.pmin = true := by
      apply containsPt_exact
      · exact hnd.symm
      · intro a ha
        have ha' : a < m.ndim := by rw [← hnd]; exact ha
        exact ⟨(hin a ha').1, le_trans (hlt a ha').le (hin a ha').2⟩
    have h2 : src.mesh.region.containsPt m.region.pmax = true := by
      apply containsPt_exact
      · rw [hpmax]; exact hnd.symm
      · intro a ha
        have ha' : a < m.ndim := by rw [← hnd]; exact ha
        exact ⟨le_trans (hin a ha').1 (hlt a ha').le, (hin a ha').2⟩
    simp [h1, h2]
  have hbr : ¬ (src.nvdim = 1 ∧ nv ≠ 1) := by rw [hnv]; tauto
  refine ⟨⟨m.n ++ [src.nvdim], fun j => src.data.get (nearestIdx src.mesh m j.dropLast ++ [j.getLastD 0])⟩,
    ?_, by rw [hnv], fun i c hi => ⟨?_, fun a ha => ?_⟩⟩
  · simp [asArray, asLeaf, hc, hdims, hbr]
  · simp [List.getLastD_eq_getLast?]
  · obtain ⟨hil, hib⟩ := (inRange_iff m.n i).mp hi
    have hia : i.getD a 0 < m.nAt a := hib a (by omega)
    have hcen := centreAx_in m a _ hia (hlt a ha)
    have hx : (m.cells.getD a []).getD (i.getD a 0) 0 = m.centreAx a (i.getD a 0 : Nat) :=
      cells_getD m hm a ha _ hia
    have := nearest_contains src.mesh hs a (by rw [hnd]; exact ha) (m.centreAx a (i.getD a 0 : Nat))
      (le_trans (hin a ha).1 hcen.1) (le_trans hcen.2 (hin a ha).2)
    unfold nearestIdx
    rw [getD_tab _ _ _ _ ha, hx]
    exact this

/-- A source field whose region does not contain the target region is rejected. -/
theorem asArray_field_outside (isZero : V → Bool) (junk : Option V) (src : VF V) (m : Mesh) (nv : Nat)
    (h : src.mesh.region.containsReg m.region = false) :
    asArray isZero junk (.leaf (.field src)) m nv = .error .value := by
  simp [asArray, asLeaf, h]

/-- The `array` setter converts again what `update_field_values` produced ("re-validates every
assignment"): on an array of the right shape the second conversion is the identity, so the
two-pass constructor path stores exactly what the specification gives. -/
theorem updateValues_eq (isZero : V → Bool) (junk : Option V) (s : Spec V) (m : Mesh) (nv : Nat) (a : NDA V)
    (h : asArray isZero junk s m nv = .ok a) (hs : a.shape = m.n ++ [nv]) :
    ∃ b, updateValues isZero junk s m nv = .ok b ∧ b.shape = m.n ++ [nv] ∧
      ∀ j, inRange (m.n ++ [nv]) j = true → b.get j = a.get j := by
  obtain ⟨b, hb, hshape, hget⟩ := asArray_array isZero junk a m nv hs
  refine ⟨b, ?_, hshape, hget⟩
  unfold updateValues
  rw [h]
  simpa [asArray] using hb

/-- …and a value the first conversion let through with the wrong component count (a source field
with another `nvdim`) is caught by the second one. -/
theorem updateValues_field_wrong_nvdim_rejected (isZero : V → Bool) (junk : Option V) (src : VF V) (m : Mesh)
    (nv : Nat) (h1 : src.nvdim ≠ nv) (h2 : src.nvdim ≠ 1) :
    ∃ e, updateValues isZero junk (.leaf (.field src)) m nv = .error e := by
  have hbr : ¬ (src.nvdim = 1 ∧ nv ≠ 1) := fun h => h2 h.1
  have hl : (m.n ++ [src.nvdim]).getLast? ≠ some nv := by simp [h1]
  have hne : ¬ (nv = 1 ∧ m.n ++ [src.nvdim] = m.n) := by
    rintro ⟨_, h⟩
    have := congrArg List.length h
    simp at this
  unfold updateValues
  simp only [asArray, asLeaf]
  by_cases hc : src.mesh.region.containsReg m.region = true
  · by_cases hd : m.region.dims = src.mesh.region.dims
    · refine ⟨.value, ?_⟩
      simp [hc, hd, hbr, hne]
      intro h; exact absurd h h1
    · exact ⟨.key, by simp [hc, hd]⟩
  · exact ⟨.value, by simp [hc]⟩

/-! ## sampling, components, iteration -/

/-- Sampling is `array[point2index(p)]`: the `nvdim` stored values of the cell whose index
`point2index` returns; a point `point2index` rejects is rejected. -/
theorem call_eq (f : VF V) (p : List Rat) :
    (∀ i, f.mesh.point2index p = .ok i →
      f.call p = .ok (row f.data f.nvdim i) ∧ (row f.data f.nvdim i).length = f.nvdim ∧
      ∀ c d, c < f.nvdim → (row f.data f.nvdim i).getD c d = f.data.get (i ++ [c])) ∧
    (∀ e, f.mesh.point2index p = .error e → f.call p = .error e) := by
  constructor
  · intro i hi
    refine ⟨by simp [VF.call, hi], by simp [row], fun c d hc => ?_⟩
    unfold row; rw [getD_tab _ _ _ _ hc]
  · intro e he; simp [VF.call, he]

/-- Sampling at any point of the region returns the stored value of a cell that contains the
point: lower faces inclusive, upper faces exclusive except for the last cell of an axis. -/
theorem call_cell_contains (f : VF V) (hm : f.mesh.Inv) (p : List Rat) (hp : f.mesh.region.containsExact p) :
    ∃ i, f.call p = .ok (row f.data f.nvdim i) ∧ inRange f.mesh.n i = true ∧
      ∀ a, a < f.mesh.ndim →
        f.mesh.region.lo a + (i.getD a 0 : Rat) * f.mesh.cellAt a ≤ p.getD a 0 ∧
        (p.getD a 0 < f.mesh.region.lo a + ((i.getD a 0 : Rat) + 1) * f.mesh.cellAt a ∨
          (i.getD a 0 = f.mesh.nAt a - 1 ∧ p.getD a 0 = f.mesh.region.hi a)) := by
  obtain ⟨hl, hb⟩ := hp
  have h2i := point2index_exact f.mesh p hl hb
  have hc : ∀ a, a < f.mesh.ndim → _ := fun a ha =>
    indexAx_contains f.mesh a (p.getD a 0) (inv_n_pos _ hm a ha) (inv_lo_lt_hi _ hm a ha) (hb a ha).1 (hb a ha).2
  refine ⟨_, ((call_eq f p).1 _ h2i).1, ?_, fun a ha => ?_⟩
  · rw [inRange_iff]
    refine ⟨by simp [hm.2.1], fun a ha => ?_⟩
    have ha' : a < f.mesh.ndim := by rw [← hm.2.1]; exact ha
    rw [getD_tab _ _ _ _ ha']
    exact (hc a ha').1
  · rw [getD_tab _ _ _ _ ha]
    exact (hc a ha).2

/-- Sampling at the centre of cell `i` returns the values stored for cell `i`. -/
theorem call_centre (f : VF V) (hm : f.mesh.Inv) (i : List Nat) (hi : inRange f.mesh.n i = true) :
    f.call (f.mesh.centre i) = .ok (row f.data f.nvdim i) :=
  ((call_eq f _).1 i (point2index_centre f.mesh hm i hi)).1

/-- A point outside the region (beyond its comparison tolerance) cannot be sampled. -/
theorem call_outside (f : VF V) (p : List Rat) (h : f.mesh.region.containsPt p = false) :
    f.call p = .error .value := by
  apply (call_eq f p).2
  unfold Mesh.point2index
  split
  · rfl
  · simp [h]

/-- Component access returns the matching column: a scalar field on the same mesh whose cell `i`
holds component `k` of cell `i`, `k` being the position of the label in `vdims`. -/
theorem comp_eq (isZero : V → Bool) (f : VF V) (label : String) (g : VF V) (h : f.comp isZero label = .ok g) :
    g.mesh = f.mesh ∧ g.nvdim = 1 ∧ g.data.shape = f.mesh.n ++ [1] ∧
    ∃ vs k, f.vdims = some vs ∧ k < vs.length ∧ vs.getD k "" = label ∧
      ∀ i, inRange f.mesh.n i = true → g.data.get (i ++ [0]) = f.data.get (i ++ [k]) := by
  unfold VF.comp at h
  split at h
  · cases h
  · rename_i vs hvs
    split at h
    · cases h
    · rename_i k hk
      obtain ⟨hk1, hk2⟩ := indexOf?_spec vs label k hk
      obtain ⟨a, ha, has, hag⟩ := asArray_array isZero none
        ⟨f.mesh.n ++ [1], fun j => f.data.get (j.dropLast ++ [k])⟩ f.mesh 1 rfl
      obtain ⟨b, hb, hbs, hbg⟩ := updateValues_eq isZero none _ f.mesh 1 a ha has
      unfold VF.mk? at h
      rw [hb] at h
      injection h with h; subst h
      refine ⟨rfl, rfl, hbs, vs, k, hvs, hk1, hk2, fun i hi => ?_⟩
      have hj : inRange (f.mesh.n ++ [1]) (i ++ [0]) = true := by rw [inRange_snoc, hi]; simp
      simp only
      rw [hbg _ hj, hag _ hj]
      simp

/-- A label that is not among the component labels (or any label on a field without labels)
is rejected. -/
theorem comp_unknown_rejected (isZero : V → Bool) (f : VF V) (label : String)
    (h : ∀ vs, f.vdims = some vs → indexOf? vs label = none) : f.comp isZero label = .error .value := by
  unfold VF.comp
  split
  · rfl
  · rename_i vs hvs
    rw [h vs hvs]

/-- Iteration yields the cells in mesh order: the `k`-th item is the stored value of the `k`-th
index of `Mesh.indices`. -/
theorem iter_eq (f : VF V) (hm : f.mesh.Inv) :
    f.iter = (indicesCode f.mesh.n).map fun i => .ok (row f.data f.nvdim i) := by
  unfold VF.iter Mesh.iter
  rw [List.map_map]
  apply List.map_congr_left
  intro i hi
  exact call_centre f hm i ((mem_indicesCode _ _).mp hi)

/-! ## lines -/

/-- A line has the requested number of points, `point_j = p1 + j·(p2 − p1)/(n − 1)`. -/
theorem line_points (f : VF V) (p1 p2 : List Rat) (n : Nat) (o : LineOut V) (h : f.line p1 p2 n = .ok o) :
    o.points.length = n ∧ o.values.length = n ∧ o.r2.length = n ∧
    ∀ j a, j < n → a < f.mesh.ndim →
      (o.points.getD j []).getD a 0 = p1.getD a 0 + (j : Rat) * ((p2.getD a 0 - p1.getD a 0) / ((n : Rat) - 1)) := by
  obtain ⟨_, hml, hv, hr⟩ := line_ok f p1 p2 n o h
  obtain ⟨_, _, _, hpts⟩ := meshLine_ok _ _ _ _ _ hml
  have hl : o.points.length = n := by rw [hpts]; simp
  refine ⟨hl, ?_, by rw [hr]; simp [hl], fun j a hj ha => ?_⟩
  · have := congrArg List.length hv
    simpa [hl] using this.symm
  · rw [hpts, getD_tab _ _ _ _ hj, getD_tab _ _ _ _ ha]

/-- The line runs from `p1` to `p2` inclusive. -/
theorem line_ends (f : VF V) (p1 p2 : List Rat) (n : Nat) (o : LineOut V) (h : f.line p1 p2 n = .ok o) :
    o.points.getD 0 [] = p1 ∧ o.points.getD (n - 1) [] = p2 := by
  obtain ⟨_, hml, _, _⟩ := line_ok f p1 p2 n o h
  obtain ⟨hc1, hc2, hn, hpts⟩ := meshLine_ok _ _ _ _ _ hml
  have hl1 := containsPt_length _ _ hc1
  have hl2 := containsPt_length _ _ hc2
  have hne : (n : Rat) - 1 ≠ 0 := by
    have : (2 : Rat) ≤ (n : Rat) := by exact_mod_cast hn
    linarith
  constructor
  · rw [hpts, getD_tab _ _ _ _ (by omega)]
    symm
    apply eq_tab_of_getD p1 _ _ 0 hl1
    intro a _; push_cast; ring
  · rw [hpts, getD_tab _ _ _ _ (by omega)]
    symm
    apply eq_tab_of_getD p2 _ _ 0 hl2
    intro a _
    have : ((n - 1 : Nat) : Rat) = (n : Rat) - 1 := by rw [Nat.cast_sub (by omega)]; simp
    rw [this]; field_simp; ring

/-- The points are equidistant: consecutive points differ by the same vector `(p2 − p1)/(n − 1)`. -/
theorem line_equidistant (f : VF V) (p1 p2 : List Rat) (n : Nat) (o : LineOut V) (h : f.line p1 p2 n = .ok o)
    (j a : Nat) (hj : j + 1 < n) (ha : a < f.mesh.ndim) :
    (o.points.getD (j + 1) []).getD a 0 - (o.points.getD j []).getD a 0
      = (p2.getD a 0 - p1.getD a 0) / ((n : Rat) - 1) := by
  obtain ⟨_, _, _, hp⟩ := line_points f p1 p2 n o h
  rw [hp (j + 1) a hj ha, hp j a (by omega) ha]
  push_cast; ring

/-- The distance column: `r_j² = j²·|p2 − p1|²/(n − 1)²`, i.e. `r_j = j·|p2 − p1|/(n − 1)`
(stated on squares; the data frame holds the square roots). -/
theorem line_r2 (f : VF V) (p1 p2 : List Rat) (n : Nat) (o : LineOut V) (h : f.line p1 p2 n = .ok o)
    (j : Nat) (hj : j < n) :
    o.r2.getD j 0 = ((j : Rat) * (j : Rat)) / (((n : Rat) - 1) * ((n : Rat) - 1)) * sqDist p2 p1 := by
  obtain ⟨_, hml, _, hr⟩ := line_ok f p1 p2 n o h
  obtain ⟨_, hc2, hn, hpts⟩ := meshLine_ok _ _ _ _ _ hml
  have hl : o.points.length = n := by rw [hpts]; simp
  rw [hr]
  have : (o.points.map fun p => sqDist p (o.points.getD 0 [])).getD j 0
      = sqDist (o.points.getD j []) (o.points.getD 0 []) := by
    simp [List.getD_eq_getElem?_getD, hl, hj]
  rw [this, hpts, getD_tab _ _ _ _ hj, getD_tab _ _ _ _ (by omega)]
  exact sqDist_line f.mesh.ndim n j p1 p2 (containsPt_length _ _ hc2) hn

/-- The values along the line are the field sampled at the line's points. -/
theorem line_values (f : VF V) (p1 p2 : List Rat) (n : Nat) (o : LineOut V) (h : f.line p1 p2 n = .ok o)
    (j : Nat) (hj : j < n) : f.call (o.points.getD j []) = .ok (o.values.getD j []) := by
  obtain ⟨hl, hvl, _, _⟩ := line_points f p1 p2 n o h
  obtain ⟨_, _, hv, _⟩ := line_ok f p1 p2 n o h
  have := congrArg (fun l => l[j]?) hv
  simp only [List.getElem?_map] at this
  rw [List.getElem?_eq_getElem (by omega), List.getElem?_eq_getElem (by omega)] at this
  simp only [Option.map_some, Option.some.injEq] at this
  simp only [List.getD_eq_getElem?_getD, List.getElem?_eq_getElem (show j < o.points.length by omega),
    List.getElem?_eq_getElem (show j < o.values.length by omega), Option.getD_some]
  exact this

/-- A line with an end point outside the region is rejected. -/
theorem line_outside_rejected (f : VF V) (p1 p2 : List Rat) (n : Nat)
    (h : f.mesh.region.containsPt p1 = false ∨ f.mesh.region.containsPt p2 = false) :
    f.line p1 p2 n = .error .value := by
  unfold VF.line meshLine
  rcases h with h | h <;> simp [h]

/-- † Finding D23: on a 1-d mesh `Field.line` never succeeds (the code's `Mesh.line` yields bare
numbers and `Line.__init__` then fails), although the property promises a line for every mesh. -/
theorem line_1d_rejected (f : VF V) (p1 p2 : List Rat) (n : Nat) (h : f.mesh.ndim = 1) :
    ∃ e, f.line p1 p2 n = .error e := by
  unfold VF.line
  split
  · exact ⟨_, rfl⟩
  · split
    · exact ⟨_, rfl⟩
    · exact ⟨.index, by simp [h]⟩

/-! ## rejected assignments -/

/-- A rejected assignment — through the `array` setter or `update_field_values` — leaves the
field exactly as it was; an accepted one changes only the array. -/
theorem reject_leaves_unchanged (isZero : V → Bool) (junk : Option V) (f : VF V) :
    (∀ l e, f.setArray isZero l = .error e → f.after (f.setArray isZero l) = f) ∧
    (∀ s e, f.update isZero junk s = .error e → f.after (f.update isZero junk s) = f) ∧
    (∀ l g, f.setArray isZero l = .ok g → f.after (f.setArray isZero l) = g ∧
      g.mesh = f.mesh ∧ g.nvdim = f.nvdim ∧ g.vdims = f.vdims) ∧
    (∀ s g, f.update isZero junk s = .ok g → f.after (f.update isZero junk s) = g ∧
      g.mesh = f.mesh ∧ g.nvdim = f.nvdim ∧ g.vdims = f.vdims) := by
  refine ⟨fun l e h => by rw [h]; rfl, fun s e h => by rw [h]; rfl, fun l g h => ?_, fun s g h => ?_⟩
  · refine ⟨by rw [h]; rfl, ?_⟩
    unfold VF.setArray at h
    split at h
    · cases h
    · injection h with h; subst h; exact ⟨rfl, rfl, rfl⟩
  · refine ⟨by rw [h]; rfl, ?_⟩
    unfold VF.update at h
    split at h
    · cases h
    · injection h with h; subst h; exact ⟨rfl, rfl, rfl⟩

/-- Every kind of malformed value is rejected by `update_field_values`, so (previous theorem) the
field keeps its state: wrong type, non-zero scalar for several components, wrong last axis. -/
theorem update_malformed_rejected (isZero : V → Bool) (junk : Option V) (f : VF V) :
    (∃ e, f.update isZero junk (.leaf .bad) = .error e) ∧
    (∀ v, 1 < f.nvdim → isZero v = false → ∃ e, f.update isZero junk (.leaf (.scalar v)) = .error e) ∧
    (∀ a : NDA V, ¬ (f.nvdim = 1 ∧ a.shape = f.mesh.n) → a.shape.getLast? ≠ some f.nvdim →
      ∃ e, f.update isZero junk (.leaf (.arr a)) = .error e) := by
  refine ⟨⟨.type, by simp [VF.update, updateValues, asArray, asLeaf]⟩, fun v h1 h2 => ⟨.value, ?_⟩,
    fun a h1 h2 => ⟨.value, ?_⟩⟩
  · simp [VF.update, updateValues, asArray_scalar_rejected isZero junk v f.mesh f.nvdim h1 h2]
  · simp [VF.update, updateValues, asArray_wrong_count_rejected isZero junk a f.mesh f.nvdim h1 h2]

/-- † Finding D24: the `array` setter converts only once, and the source-field overload does not
check the component count, so `field.array = other_field` with another `nvdim` is ACCEPTED and
leaves an array whose last axis is not `nvdim` (`update_field_values` rejects it, see
`updateValues_field_wrong_nvdim_rejected`). -/
theorem setArray_field_wrong_nvdim_accepted (isZero : V → Bool) (f : VF V) (src : VF V)
    (hc : src.mesh.region.containsReg f.mesh.region = true) (hd : f.mesh.region.dims = src.mesh.region.dims)
    (h2 : src.nvdim ≠ 1) :
    ∃ g, f.setArray isZero (.field src) = .ok g ∧ g.data.shape = f.mesh.n ++ [src.nvdim] := by
  have hbr : ¬ (src.nvdim = 1 ∧ f.nvdim ≠ 1) := fun h => h2 h.1
  refine ⟨_, by simp only [VF.setArray, asLeaf, hc, hd, hbr]; simp; rfl, rfl⟩

end DFV.C02
