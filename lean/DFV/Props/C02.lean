import DFV.Lemmas.C02DictCells
import DFV.Lemmas.C02Nearest
import DFV.Lemmas.C02Line
import DFV.Lemmas.C02Ex
/-!
# C02 — a field holds exactly the value its specification assigns to every cell

Property theorems only (helper lemmas live in `DFV/Lemmas/C02*.lean`).  All statements are
about the executable model `DFV/Model/C02.lean` of `Field._as_array`, the `array` setter,
`Field.__call__`, `__getattr__`, `__iter__`, `Mesh.region2slices`, `Mesh.line` and
`Field.line`, for every number of dimensions, every mesh, every component count, every value
type `V` (the model only moves values, so int, float, complex and bool fields are all
instances) and every specification.  An array entry is addressed by `i ++ [c]`: cell `i`,
component `c`; the array of a field on mesh `m` has shape `m.n ++ [nvdim]`, i.e. `(*n, nvdim)`.
-/
namespace DFV.C02
open DFV DFV.Mesh

variable {V : Type} [Inhabited V]

/-! ## constants, arrays, callables, source fields -/

/-- A scalar constant (for `nvdim = 1`, or the scalar zero for any `nvdim`) fills every entry
of an array of shape `(*n, nvdim)`. -/
theorem asArray_const (isZero : V → Bool) (v : V) (m : Mesh) (nv : Nat)
    (h : nv ≤ 1 ∨ isZero v = true) :
    ∃ a, asArray isZero (.leaf (.scalar v)) m nv = .ok a ∧ a.shape = m.n ++ [nv] ∧ ∀ j, a.get j = v := by
  refine ⟨NDA.const (m.n ++ [nv]) v, ?_, rfl, fun _ => rfl⟩
  simp only [asArray, asLeaf]
  have : ¬ (1 < nv ∧ isZero v = false) := by
    rintro ⟨h1, h2⟩
    rcases h with h | h
    · omega
    · simp [h] at h2
  simp [this]

/-- A non-zero scalar for a field with more than one component is rejected (wrong component
count). -/
theorem asArray_scalar_rejected (isZero : V → Bool) (v : V) (m : Mesh) (nv : Nat)
    (h1 : 1 < nv) (h2 : isZero v = false) :
    asArray isZero (.leaf (.scalar v)) m nv = .error .value := by
  simp [asArray, asLeaf, h1, h2]

/-- A vector of `nvdim` numbers is stored in every cell, in an array of shape `(*n, nvdim)`. -/
theorem asArray_vector (isZero : V → Bool) (a : NDA V) (m : Mesh) (nv : Nat)
    (hs : a.shape = [nv]) (hamb : ¬ (nv = 1 ∧ m.n = [1])) :
    ∃ b, asArray isZero (.leaf (.arr a)) m nv = .ok b ∧ b.shape = m.n ++ [nv] ∧
      ∀ i c, i.length = m.n.length → c < nv → b.get (i ++ [c]) = a.get [c] := by
  obtain ⟨b, hb, hshape, hget⟩ := bcast_vec m.n nv a hs
  refine ⟨b, ?_, hshape, hget⟩
  simp only [asArray, asLeaf]
  have h1 : ¬ (nv = 1 ∧ a.shape = m.n) := by
    rintro ⟨h1, h2⟩
    exact hamb ⟨h1, by rw [← h2, hs, h1]⟩
  rw [if_neg h1, hs]
  simp [hb]

/-- A per-cell array of shape `(*n, nvdim)` is stored entry by entry. -/
theorem asArray_array (isZero : V → Bool) (a : NDA V) (m : Mesh) (nv : Nat)
    (hs : a.shape = m.n ++ [nv]) :
    ∃ b, asArray isZero (.leaf (.arr a)) m nv = .ok b ∧ b.shape = m.n ++ [nv] ∧
      ∀ j, inRange (m.n ++ [nv]) j = true → b.get j = a.get j := by
  obtain ⟨b, hb, hshape, hget⟩ := bcast_same (m.n ++ [nv]) a hs
  refine ⟨b, ?_, hshape, hget⟩
  simp only [asArray, asLeaf]
  have h1 : ¬ (nv = 1 ∧ a.shape = m.n) := by
    rintro ⟨_, h2⟩
    have := congrArg List.length (hs.symm.trans h2)
    simp at this
  simp [h1, hs, hb]

/-- For a scalar field an array of shape `n` (no component axis) gives cell `i` the entry `a[i]`. -/
theorem asArray_array_scalar (isZero : V → Bool) (a : NDA V) (m : Mesh) (hs : a.shape = m.n) :
    ∃ b, asArray isZero (.leaf (.arr a)) m 1 = .ok b ∧ b.shape = m.n ++ [1] ∧
      ∀ i, b.get (i ++ [0]) = a.get i := by
  refine ⟨⟨m.n ++ [1], fun j => a.get j.dropLast⟩, ?_, rfl, fun i => by simp⟩
  simp [asArray, asLeaf, hs]

/-- An array whose last axis is not `nvdim` (and which is not the cell-shaped array of a scalar
field) is rejected. -/
theorem asArray_wrong_count_rejected (isZero : V → Bool) (a : NDA V) (m : Mesh) (nv : Nat)
    (h1 : ¬ (nv = 1 ∧ a.shape = m.n)) (h2 : a.shape.getLast? ≠ some nv) :
    asArray isZero (.leaf (.arr a)) m nv = .error .value := by
  simp [asArray, asLeaf, h1, h2]

/-- An array that NumPy cannot broadcast to `(*n, nvdim)` is rejected (wrong shape). -/
theorem asArray_wrong_shape_rejected (isZero : V → Bool) (a : NDA V) (m : Mesh) (nv : Nat)
    (h1 : ¬ (nv = 1 ∧ a.shape = m.n)) (h2 : bcastOk (m.n ++ [nv]) a.shape = false) :
    asArray isZero (.leaf (.arr a)) m nv = .error .value := by
  simp only [asArray, asLeaf, h1, if_false]
  split
  · rfl
  · simp [bcast, h2]

/-- A string, `None`, … is rejected (wrong type). -/
theorem asArray_wrong_type_rejected (isZero : V → Bool) (m : Mesh) (nv : Nat) :
    asArray isZero (.leaf (.bad : Leaf V)) m nv = .error .type := rfl

/-- Refinement of the callable loop: after `for index, point in zip(mesh.indices, mesh)` every
cell `i` holds the function's value at the centre of cell `i`, in an array of shape `(*n, nvdim)`. -/
theorem asArray_func (isZero : V → Bool) (f : List Rat → List V) (m : Mesh) (nv : Nat)
    (hlen : ∀ i, inRange m.n i = true → (f (m.centre i)).length = nv) :
    ∃ b, asArray isZero (.leaf (.func f)) m nv = .ok b ∧ b.shape = m.n ++ [nv] ∧
      ∀ i c, inRange m.n i = true → b.get (i ++ [c]) = (f (m.centre i)).getD c default := by
  have hz : (indicesCode m.n).zip m.iter = (indicesCode m.n).map fun i => (i, m.centre i) := by
    unfold Mesh.iter; exact zip_map_self _ _
  have hpair : ∀ p ∈ (indicesCode m.n).zip m.iter, p.2 = m.centre p.1 := by
    intro p hp
    rw [hz, List.mem_map] at hp
    obtain ⟨i, _, rfl⟩ := hp; rfl
  obtain ⟨b, hb⟩ := funcLoop_ok f nv ((indicesCode m.n).zip m.iter) (NDA.const (m.n ++ [nv]) default) (by
    intro p hp
    rw [hpair p hp]
    apply hlen
    rw [hz, List.mem_map] at hp
    obtain ⟨i, hi, rfl⟩ := hp
    exact (mem_indicesCode _ _).mp hi)
  refine ⟨b, by simpa [asArray, asLeaf] using hb, funcLoop_shape _ _ _ _ _ hb, fun i c hi => ?_⟩
  rw [funcLoop_get f nv m.centre _ hpair _ _ hb i c]
  have : i ∈ ((indicesCode m.n).zip m.iter).map (·.1) := by
    rw [hz, List.map_map]
    simpa using (mem_indicesCode _ _).mpr hi
  simp [this]

/-- A callable that returns the wrong number of components at some cell centre is rejected. -/
theorem asArray_func_rejected (isZero : V → Bool) (f : List Rat → List V) (m : Mesh) (nv : Nat)
    (i : List Nat) (hi : inRange m.n i = true) (hlen : (f (m.centre i)).length ≠ nv) :
    asArray isZero (.leaf (.func f)) m nv = .error .value := by
  simp only [asArray, asLeaf]
  apply funcLoop_err f nv _ _ (i, m.centre i) _ hlen
  unfold Mesh.iter
  rw [zip_map_self, List.mem_map]
  exact ⟨i, (mem_indicesCode _ _).mpr hi, rfl⟩

/-- A source field on another mesh: target cell `i` receives the value of the source cell whose
centre is nearest (per axis, ties to the larger index), that source cell exists and CONTAINS the
centre of cell `i`; the result has shape `(*n, nvdim)`. -/
theorem asArray_field (isZero : V → Bool) (src : VF V) (m : Mesh) (nv : Nat)
    (hm : m.Inv) (hs : src.mesh.Inv) (hnd : src.mesh.ndim = m.ndim)
    (hdims : m.region.dims = src.mesh.region.dims) (hnv : src.nvdim = nv)
    (hin : ∀ a, a < m.ndim → src.mesh.region.lo a ≤ m.region.lo a ∧ m.region.hi a ≤ src.mesh.region.hi a) :
    ∃ b, asArray isZero (.leaf (.field src)) m nv = .ok b ∧ b.shape = m.n ++ [nv] ∧
      ∀ i c, inRange m.n i = true →
        b.get (i ++ [c]) = src.data.get (nearestIdx src.mesh m i ++ [c]) ∧
        ∀ a, a < m.ndim →
          (nearestIdx src.mesh m i).getD a 0 < src.mesh.nAt a ∧
          src.mesh.region.lo a + ((nearestIdx src.mesh m i).getD a 0 : Rat) * src.mesh.cellAt a
            ≤ m.centreAx a (i.getD a 0 : Nat) ∧
          m.centreAx a (i.getD a 0 : Nat)
            ≤ src.mesh.region.lo a + (((nearestIdx src.mesh m i).getD a 0 : Rat) + 1) * src.mesh.cellAt a := by
  have hlen : m.n.length = m.ndim := hm.2.1
  have hlt : ∀ a, a < m.ndim → m.region.lo a < m.region.hi a := fun a ha => inv_lo_lt_hi m hm a ha
  have hpmax : m.region.pmax.length = m.region.pmin.length := hm.1.2.1
  have hc : src.mesh.region.containsReg m.region = true := by
    unfold Region.containsReg
    have h1 : src.mesh.region.containsPt m.region.pmin = true := by
      apply containsPt_exact
      · exact hnd.symm
      · intro a ha
        have ha' : a < m.ndim := by rw [← hnd]; exact ha
        exact ⟨(hin a ha').1, le_trans (hlt a ha').le (hin a ha').2⟩
    have h2 : src.mesh.region.containsPt m.region.pmax = true := by
      apply containsPt_exact
      · rw [hpmax]; exact hnd.symm
      · intro a ha
        have ha' : a < m.ndim := by rw [← hnd]; exact ha
        exact ⟨le_trans (hin a ha').1 (hlt a ha').le, (hin a ha').2⟩
    simp [h1, h2]
  refine ⟨⟨m.n ++ [src.nvdim], fun j => src.data.get (nearestIdx src.mesh m j.dropLast ++ [j.getLastD 0])⟩,
    ?_, by rw [hnv], fun i c hi => ⟨?_, fun a ha => ?_⟩⟩
  · simp [asArray, asLeaf, hc, hdims, hnv]
  · simp [List.getLastD_eq_getLast?]
  · obtain ⟨hil, hib⟩ := (inRange_iff m.n i).mp hi
    have hia : i.getD a 0 < m.nAt a := hib a (by omega)
    have hcen := centreAx_in m a _ hia (hlt a ha)
    have hx : (m.cells.getD a []).getD (i.getD a 0) 0 = m.centreAx a (i.getD a 0 : Nat) :=
      cells_getD m hm a ha _ hia
    have := nearest_contains src.mesh hs a (by rw [hnd]; exact ha) (m.centreAx a (i.getD a 0 : Nat))
      (le_trans (hin a ha).1 hcen.1) (le_trans hcen.2 (hin a ha).2)
    unfold nearestIdx
    rw [getD_tab _ _ _ _ ha, hx]
    exact this

/-- A source field whose region does not contain the target region is rejected. -/
theorem asArray_field_outside (isZero : V → Bool) (src : VF V) (m : Mesh) (nv : Nat)
    (h : src.mesh.region.containsReg m.region = false) :
    asArray isZero (.leaf (.field src)) m nv = .error .value := by
  simp [asArray, asLeaf, h]

/-- The `array` setter converts again what `update_field_values` produced ("re-validates every
assignment"): on an array of the right shape the second conversion is the identity, so the
two-pass constructor path stores exactly what the specification gives. -/
theorem updateValues_eq (isZero : V → Bool) (s : Spec V) (m : Mesh) (nv : Nat) (a : NDA V)
    (h : asArray isZero s m nv = .ok a) (hs : a.shape = m.n ++ [nv]) :
    ∃ b, updateValues isZero s m nv = .ok b ∧ b.shape = m.n ++ [nv] ∧
      ∀ j, inRange (m.n ++ [nv]) j = true → b.get j = a.get j := by
  obtain ⟨b, hb, hshape, hget⟩ := asArray_array isZero a m nv hs
  refine ⟨b, ?_, hshape, hget⟩
  unfold updateValues
  rw [h]
  simpa [asArray] using hb

/-- A source field with another number of components is rejected (wrong component count), by the
conversion itself — hence by the constructor, by `update_field_values` and by the `array` setter. -/
theorem asArray_field_wrong_nvdim_rejected (isZero : V → Bool) (src : VF V) (m : Mesh) (nv : Nat)
    (h1 : src.nvdim ≠ nv) : asArray isZero (.leaf (.field src)) m nv = .error .value := by
  simp only [asArray, asLeaf]
  by_cases hc : src.mesh.region.containsReg m.region = true
  · simp [hc, h1]
  · simp [hc]

/-! ## sampling, components, iteration -/

omit [Inhabited V] in
/-- Sampling is `array[point2index(p)]`: the `nvdim` stored values of the cell whose index
`point2index` returns; a point `point2index` rejects is rejected. -/
theorem call_eq (f : VF V) (p : List Rat) :
    (∀ i, f.mesh.point2index p = .ok i →
      f.call p = .ok (row f.data f.nvdim i) ∧ (row f.data f.nvdim i).length = f.nvdim ∧
      ∀ c d, c < f.nvdim → (row f.data f.nvdim i).getD c d = f.data.get (i ++ [c])) ∧
    (∀ e, f.mesh.point2index p = .error e → f.call p = .error e) := by
  constructor
  · intro i hi
    refine ⟨by simp [VF.call, hi], by simp [row], fun c d hc => ?_⟩
    unfold row; rw [getD_tab _ _ _ _ hc]
  · intro e he; simp [VF.call, he]

omit [Inhabited V] in
/-- Sampling at any point of the region returns the stored value of a cell that contains the
point: lower faces inclusive, upper faces exclusive except for the last cell of an axis. -/
theorem call_cell_contains (f : VF V) (hm : f.mesh.Inv) (p : List Rat) (hp : f.mesh.region.containsExact p) :
    ∃ i, f.call p = .ok (row f.data f.nvdim i) ∧ inRange f.mesh.n i = true ∧
      ∀ a, a < f.mesh.ndim →
        f.mesh.region.lo a + (i.getD a 0 : Rat) * f.mesh.cellAt a ≤ p.getD a 0 ∧
        (p.getD a 0 < f.mesh.region.lo a + ((i.getD a 0 : Rat) + 1) * f.mesh.cellAt a ∨
          (i.getD a 0 = f.mesh.nAt a - 1 ∧ p.getD a 0 = f.mesh.region.hi a)) := by
  obtain ⟨hl, hb⟩ := hp
  have h2i := point2index_exact f.mesh p hl hb
  have hc : ∀ a, a < f.mesh.ndim → _ := fun a ha =>
    indexAx_contains f.mesh a (p.getD a 0) (inv_n_pos _ hm a ha) (inv_lo_lt_hi _ hm a ha) (hb a ha).1 (hb a ha).2
  refine ⟨_, ((call_eq f p).1 _ h2i).1, ?_, fun a ha => ?_⟩
  · rw [inRange_iff]
    refine ⟨by rw [tab_length]; exact hm.2.1.symm, fun a ha => ?_⟩
    have ha' : a < f.mesh.ndim := by have := hm.2.1; unfold Mesh.ndim; omega
    rw [getD_tab _ _ _ _ ha']
    exact (hc a ha').1
  · rw [getD_tab _ _ _ _ ha]
    exact (hc a ha).2

omit [Inhabited V] in
/-- Sampling at the centre of cell `i` returns the values stored for cell `i`. -/
theorem call_centre (f : VF V) (hm : f.mesh.Inv) (i : List Nat) (hi : inRange f.mesh.n i = true) :
    f.call (f.mesh.centre i) = .ok (row f.data f.nvdim i) :=
  ((call_eq f _).1 i (point2index_centre f.mesh hm i hi)).1

omit [Inhabited V] in
/-- A point outside the region (beyond its comparison tolerance) cannot be sampled. -/
theorem call_outside (f : VF V) (p : List Rat) (h : f.mesh.region.containsPt p = false) :
    f.call p = .error .value := by
  apply (call_eq f p).2
  unfold Mesh.point2index
  split
  · rfl
  · simp [h]

/-- Component access returns the matching column: a scalar field on the same mesh whose cell `i`
holds component `k` of cell `i`, `k` being the position of the label in `vdims`. -/
theorem comp_eq (isZero : V → Bool) (f : VF V) (label : String) (g : VF V) (h : f.comp isZero label = .ok g) :
    g.mesh = f.mesh ∧ g.nvdim = 1 ∧ g.data.shape = f.mesh.n ++ [1] ∧
    ∃ vs k, f.vdims = some vs ∧ k < vs.length ∧ vs.getD k "" = label ∧
      ∀ i, inRange f.mesh.n i = true → g.data.get (i ++ [0]) = f.data.get (i ++ [k]) := by
  unfold VF.comp at h
  split at h
  · cases h
  · rename_i vs hvs
    split at h
    · cases h
    · rename_i k hk
      obtain ⟨hk1, hk2⟩ := indexOf?_spec vs label k hk
      obtain ⟨a, ha, has, hag⟩ := asArray_array isZero
        ⟨f.mesh.n ++ [1], fun j => f.data.get (j.dropLast ++ [k])⟩ f.mesh 1 rfl
      obtain ⟨b, hb, hbs, hbg⟩ := updateValues_eq isZero _ f.mesh 1 a ha has
      unfold VF.mk? at h
      rw [hb] at h
      injection h with h; subst h
      refine ⟨rfl, rfl, hbs, vs, k, hvs, hk1, hk2, fun i hi => ?_⟩
      have hj : inRange (f.mesh.n ++ [1]) (i ++ [0]) = true := by rw [inRange_snoc, hi]; simp
      simp only
      rw [hbg _ hj, hag _ hj]
      simp

/-- A label that is not among the component labels (or any label on a field without labels)
is rejected. -/
theorem comp_unknown_rejected (isZero : V → Bool) (f : VF V) (label : String)
    (h : ∀ vs, f.vdims = some vs → indexOf? vs label = none) : f.comp isZero label = .error .value := by
  unfold VF.comp
  split
  · rfl
  · rename_i vs hvs
    rw [h vs hvs]

omit [Inhabited V] in
/-- Iteration yields the cells in mesh order: the `k`-th item is the stored value of the `k`-th
index of `Mesh.indices`. -/
theorem iter_eq (f : VF V) (hm : f.mesh.Inv) :
    f.iter = (indicesCode f.mesh.n).map fun i => .ok (row f.data f.nvdim i) := by
  unfold VF.iter Mesh.iter
  rw [List.map_map]
  apply List.map_congr_left
  intro i hi
  exact call_centre f hm i ((mem_indicesCode _ _).mp hi)

/-! ## lines -/

omit [Inhabited V] in
/-- A line has the requested number of points, `point_j = p1 + j·(p2 − p1)/(n − 1)`. -/
theorem line_points (f : VF V) (p1 p2 : List Rat) (n : Nat) (o : LineOut V) (h : f.line p1 p2 n = .ok o) :
    o.points.length = n ∧ o.values.length = n ∧ o.r2.length = n ∧
    ∀ j a, j < n → a < f.mesh.ndim →
      (o.points.getD j []).getD a 0 = p1.getD a 0 + (j : Rat) * ((p2.getD a 0 - p1.getD a 0) / ((n : Rat) - 1)) := by
  obtain ⟨hml, hv, hr⟩ := line_ok f p1 p2 n o h
  obtain ⟨_, _, _, hpts⟩ := meshLine_ok _ _ _ _ _ hml
  have hl : o.points.length = n := by rw [hpts]; simp
  refine ⟨hl, ?_, by rw [hr]; simp [hl], fun j a hj ha => ?_⟩
  · have := congrArg List.length hv
    simpa [hl] using this.symm
  · rw [hpts, getD_tab _ _ _ _ hj, getD_tab _ _ _ _ ha]

omit [Inhabited V] in
/-- The line runs from `p1` to `p2` inclusive. -/
theorem line_ends (f : VF V) (p1 p2 : List Rat) (n : Nat) (o : LineOut V) (h : f.line p1 p2 n = .ok o) :
    o.points.getD 0 [] = p1 ∧ o.points.getD (n - 1) [] = p2 := by
  obtain ⟨hml, _, _⟩ := line_ok f p1 p2 n o h
  obtain ⟨hc1, hc2, hn, hpts⟩ := meshLine_ok _ _ _ _ _ hml
  have hl1 := containsPt_length _ _ hc1
  have hl2 := containsPt_length _ _ hc2
  have hne : (n : Rat) - 1 ≠ 0 := by
    have : (2 : Rat) ≤ (n : Rat) := by exact_mod_cast hn
    linarith
  constructor
  · rw [hpts, getD_tab _ _ _ _ (by omega)]
    symm
    apply eq_tab_of_getD p1 _ _ 0 hl1
    intro a _; push_cast; ring
  · rw [hpts, getD_tab _ _ _ _ (by omega)]
    symm
    apply eq_tab_of_getD p2 _ _ 0 hl2
    intro a _
    have : ((n - 1 : Nat) : Rat) = (n : Rat) - 1 := by rw [Nat.cast_sub (by omega)]; simp
    rw [this]; field_simp; ring

omit [Inhabited V] in
/-- The points are equidistant: consecutive points differ by the same vector `(p2 − p1)/(n − 1)`. -/
theorem line_equidistant (f : VF V) (p1 p2 : List Rat) (n : Nat) (o : LineOut V) (h : f.line p1 p2 n = .ok o)
    (j a : Nat) (hj : j + 1 < n) (ha : a < f.mesh.ndim) :
    (o.points.getD (j + 1) []).getD a 0 - (o.points.getD j []).getD a 0
      = (p2.getD a 0 - p1.getD a 0) / ((n : Rat) - 1) := by
  obtain ⟨_, _, _, hp⟩ := line_points f p1 p2 n o h
  rw [hp (j + 1) a hj ha, hp j a (by omega) ha]
  push_cast; ring

omit [Inhabited V] in
/-- The distance column: `r_j² = j²·|p2 − p1|²/(n − 1)²`, i.e. `r_j = j·|p2 − p1|/(n − 1)`
(stated on squares; the data frame holds the square roots). -/
theorem line_r2 (f : VF V) (p1 p2 : List Rat) (n : Nat) (o : LineOut V) (h : f.line p1 p2 n = .ok o)
    (j : Nat) (hj : j < n) :
    o.r2.getD j 0 = ((j : Rat) * (j : Rat)) / (((n : Rat) - 1) * ((n : Rat) - 1)) * sqDist p2 p1 := by
  obtain ⟨hml, _, hr⟩ := line_ok f p1 p2 n o h
  obtain ⟨_, hc2, hn, hpts⟩ := meshLine_ok _ _ _ _ _ hml
  have hl : o.points.length = n := by rw [hpts]; simp
  rw [hr]
  have : (o.points.map fun p => sqDist p (o.points.getD 0 [])).getD j 0
      = sqDist (o.points.getD j []) (o.points.getD 0 []) := by
    simp [List.getD_eq_getElem?_getD, hl, hj]
  rw [this, hpts, getD_tab _ _ _ _ hj, getD_tab _ _ _ _ (by omega)]
  exact sqDist_line f.mesh.ndim n j p1 p2 (containsPt_length _ _ hc2) hn

omit [Inhabited V] in
/-- The values along the line are the field sampled at the line's points. -/
theorem line_values (f : VF V) (p1 p2 : List Rat) (n : Nat) (o : LineOut V) (h : f.line p1 p2 n = .ok o)
    (j : Nat) (hj : j < n) : f.call (o.points.getD j []) = .ok (o.values.getD j []) := by
  obtain ⟨hl, hvl, _, _⟩ := line_points f p1 p2 n o h
  obtain ⟨_, hv, _⟩ := line_ok f p1 p2 n o h
  have := congrArg (fun l => l[j]?) hv
  simp only [List.getElem?_map] at this
  rw [List.getElem?_eq_getElem (by omega), List.getElem?_eq_getElem (by omega)] at this
  simp only [Option.map_some, Option.some.injEq] at this
  simp only [List.getD_eq_getElem?_getD, List.getElem?_eq_getElem (show j < o.points.length by omega),
    List.getElem?_eq_getElem (show j < o.values.length by omega), Option.getD_some]
  exact this

omit [Inhabited V] in
/-- A line with an end point outside the region is rejected. -/
theorem line_outside_rejected (f : VF V) (p1 p2 : List Rat) (n : Nat)
    (h : f.mesh.region.containsPt p1 = false ∨ f.mesh.region.containsPt p2 = false) :
    f.line p1 p2 n = .error .value := by
  unfold VF.line meshLine
  rcases h with h | h <;> simp [h]

/-! ## rejected assignments -/

/-- A rejected assignment — through the `array` setter or `update_field_values` — leaves the
field exactly as it was; an accepted one changes only the array. -/
theorem reject_leaves_unchanged (isZero : V → Bool) (f : VF V) :
    (∀ l e, f.setArray isZero l = .error e → f.after (f.setArray isZero l) = f) ∧
    (∀ s e, f.update isZero s = .error e → f.after (f.update isZero s) = f) ∧
    (∀ l g, f.setArray isZero l = .ok g → f.after (f.setArray isZero l) = g ∧
      g.mesh = f.mesh ∧ g.nvdim = f.nvdim ∧ g.vdims = f.vdims) ∧
    (∀ s g, f.update isZero s = .ok g → f.after (f.update isZero s) = g ∧
      g.mesh = f.mesh ∧ g.nvdim = f.nvdim ∧ g.vdims = f.vdims) := by
  refine ⟨fun l e h => by rw [h]; rfl, fun s e h => by rw [h]; rfl, fun l g h => ?_, fun s g h => ?_⟩
  · refine ⟨by rw [h]; rfl, ?_⟩
    unfold VF.setArray at h
    split at h
    · cases h
    · injection h with h; subst h; exact ⟨rfl, rfl, rfl⟩
  · refine ⟨by rw [h]; rfl, ?_⟩
    unfold VF.update at h
    split at h
    · cases h
    · injection h with h; subst h; exact ⟨rfl, rfl, rfl⟩

/-- Every kind of malformed value is rejected by `update_field_values`, so (previous theorem) the
field keeps its state: wrong type, non-zero scalar for several components, wrong last axis. -/
theorem update_malformed_rejected (isZero : V → Bool) (f : VF V) :
    (∃ e, f.update isZero (.leaf .bad) = .error e) ∧
    (∀ v, 1 < f.nvdim → isZero v = false → ∃ e, f.update isZero (.leaf (.scalar v)) = .error e) ∧
    (∀ a : NDA V, ¬ (f.nvdim = 1 ∧ a.shape = f.mesh.n) → a.shape.getLast? ≠ some f.nvdim →
      ∃ e, f.update isZero (.leaf (.arr a)) = .error e) := by
  refine ⟨⟨.type, by simp [VF.update, updateValues, asArray, asLeaf]⟩, fun v h1 h2 => ⟨.value, ?_⟩,
    fun a h1 h2 => ⟨.value, ?_⟩⟩
  · simp [VF.update, updateValues, asArray_scalar_rejected isZero v f.mesh f.nvdim h1 h2]
  · simp [VF.update, updateValues, asArray_wrong_count_rejected isZero a f.mesh f.nvdim h1 h2]

/-- The `array` setter rejects a source field with another number of components and keeps the
field as it was (formerly finding D44: the setter accepted it). -/
theorem setArray_field_wrong_nvdim_rejected (isZero : V → Bool) (f : VF V) (src : VF V) (h : src.nvdim ≠ f.nvdim) :
    f.setArray isZero (.field src) = .error .value ∧ f.after (f.setArray isZero (.field src)) = f := by
  have e : f.setArray isZero (.field src) = .error .value := by
    have := asArray_field_wrong_nvdim_rejected isZero src f.mesh f.nvdim h
    simp only [asArray] at this
    simp [VF.setArray, this]
  exact ⟨e, by rw [e]; rfl⟩

/-! ## dictionaries over subregions -/

/-- `Mesh.region2slices` of a subregion that is a union of cells is exactly its index box, and a
cell lies in that box iff the subregion contains the cell's centre. -/
theorem region2slices_cells (m : Mesh) (hm : m.Inv) (r : Region) (k1 k2 : Nat → Nat) (h : AlignedSub m r k1 k2) :
    region2slices m r = .ok (tab m.ndim k1, tab m.ndim k2) ∧
    ∀ i, inRange m.n i = true →
      (inBox (tab m.ndim k1) (tab m.ndim k2) i = true ↔
        ∀ a, a < m.ndim → r.lo a ≤ m.centreAx a (i.getD a 0 : Nat) ∧ m.centreAx a (i.getD a 0 : Nat) ≤ r.hi a) := by
  refine ⟨region2slices_spec m hm r k1 k2 h, fun i hi => ?_⟩
  have := inBox_iff_centre m hm r k1 k2 h i hi []
  simpa using this

/-- CENTREPIECE — refinement of the dictionary overload.  The code fills an array with the
default (or the NaN sentinel), walks `reversed(mesh.subregions)` assigning each listed
subregion's converted value to its slices, and finally calls a callable default on the cells
still holding the sentinel.  Entry `(i, c)` of the result is: what the FIRST LISTED subregion
that writes the entry writes there (`patchVal`), and otherwise the default's value for the cell. -/
theorem asArray_dict (isZero : V → Bool) (items : List (String × Leaf V)) (dflt : Option (Dflt V))
    (m : Mesh) (nv : Nat) (a : NDA V) (hlen : m.n.length = m.ndim)
    (h : asArray isZero (.dict items dflt) m nv = .ok a)
    (i : List Nat) (hi : inRange m.n i = true) (c : Nat) (hc : c < nv) :
    a.get (i ++ [c]) =
      match m.subs.findSome? (fun p => patchVal isZero items m nv p (i ++ [c])) with
      | some v => v
      | none => dfltVal dflt m nv i c :=
  asArray_dict_main isZero items dflt m nv a hlen h i hi c hc

/-- The same on a mesh whose subregions are unions of cells (which `Mesh` guarantees, C14): the
value of cell `i` comes from the first listed subregion that is a key of the dictionary and
contains the cell (`hits`; by `region2slices_cells`: contains its centre) — namely that key's
specification converted on the subregion's own mesh, read at the cell's index there — and
otherwise from the default. -/
theorem asArray_dict_first_listed (isZero : V → Bool) (items : List (String × Leaf V)) (dflt : Option (Dflt V))
    (m : Mesh) (hm : m.Inv) (nv : Nat) (a : NDA V) (k1 k2 : String × Region → Nat → Nat)
    (hal : ∀ p ∈ m.subs, AlignedSub m p.2 (k1 p) (k2 p))
    (h : asArray isZero (.dict items dflt) m nv = .ok a)
    (i : List Nat) (hi : inRange m.n i = true) (c : Nat) (hc : c < nv) :
    a.get (i ++ [c]) =
      match m.subs.find? (hits items m k1 k2 i) with
      | some p => cellOf isZero items m nv k1 k2 i c p
      | none => dfltVal dflt m nv i c := by
  have hlen : m.n.length = m.ndim := hm.2.1
  have hil : i.length = m.ndim := by rw [← hlen]; exact inRange_length _ _ hi
  rw [asArray_dict isZero items dflt m nv a hlen h i hi c hc,
    findSome_patch isZero items m hm nv k1 k2 i hil c hc m.subs hal]
  · cases m.subs.find? (hits items m k1 k2 i) <;> rfl
  · intro p hp lf hl
    obtain ⟨sub, hsub⟩ := listed_leaf_ok isZero items dflt m hm nv a h k1 k2 p hp (hal p hp) lf hl
    exact ⟨sub, hsub, asLeaf_shape isZero lf _ nv sub hsub⟩

/-- What a listed subregion assigns to a cell it contains: a constant gives the constant, … -/
theorem dict_cell_const (isZero : V → Bool) (items : List (String × Leaf V)) (m : Mesh) (nv : Nat)
    (k1 k2 : String × Region → Nat → Nat) (i : List Nat) (c : Nat) (p : String × Region) (v : V)
    (hl : lookupLeaf items p.1 = some (.scalar v)) (hv : nv ≤ 1 ∨ isZero v = true) :
    cellOf isZero items m nv k1 k2 i c p = v := by
  obtain ⟨a, ha, _, hg⟩ := asArray_const isZero v (subMeshOf m p.2 (k1 p) (k2 p)) nv hv
  simp only [asArray] at ha
  simp [cellOf, hl, leafVal, ha, hg]

/-- … a callable gives its value at the centre of the MESH cell (the submesh's cell centres are
the mesh's), … -/
theorem dict_cell_func (isZero : V → Bool) (items : List (String × Leaf V)) (m : Mesh) (hm : m.Inv) (nv : Nat)
    (k1 k2 : String × Region → Nat → Nat) (i : List Nat) (hi : inRange m.n i = true) (c : Nat)
    (p : String × Region) (f : List Rat → List V)
    (hal : AlignedSub m p.2 (k1 p) (k2 p)) (hit : hits items m k1 k2 i p = true)
    (hl : lookupLeaf items p.1 = some (.func f))
    (hlen : ∀ il, inRange (subMeshOf m p.2 (k1 p) (k2 p)).n il = true →
      (f ((subMeshOf m p.2 (k1 p) (k2 p)).centre il)).length = nv) :
    cellOf isZero items m nv k1 k2 i c p = (f (m.centre i)).getD c default := by
  have hil : i.length = m.ndim := (inRange_length _ _ hi).trans hm.2.1
  have hb : inBox (tab m.ndim (k1 p)) (tab m.ndim (k2 p)) (i ++ []) = true := by
    simp only [hits, Bool.and_eq_true] at hit; simpa using hit.2
  obtain ⟨b, hb1, _, hg⟩ := asArray_func isZero f (subMeshOf m p.2 (k1 p) (k2 p)) nv hlen
  simp only [asArray] at hb1
  have hr := subIdx_inRange m (k1 p) (k2 p) i hil [] hb
  simp only [cellOf, hl, leafVal, hb1]
  rw [hg _ c hr, subMesh_centre m hm p.2 (k1 p) (k2 p) hal i hil [] hb]

/-- … a per-cell array of the subregion's shape gives its entry at the cell's index within the
subregion. -/
theorem dict_cell_array (isZero : V → Bool) (items : List (String × Leaf V)) (m : Mesh) (hm : m.Inv) (nv : Nat)
    (k1 k2 : String × Region → Nat → Nat) (i : List Nat) (hi : inRange m.n i = true) (c : Nat) (hc : c < nv)
    (p : String × Region) (arr : NDA V) (hit : hits items m k1 k2 i p = true)
    (hl : lookupLeaf items p.1 = some (.arr arr))
    (hs : arr.shape = (subMeshOf m p.2 (k1 p) (k2 p)).n ++ [nv]) :
    cellOf isZero items m nv k1 k2 i c p = arr.get (subIdx m (k1 p) i ++ [c]) := by
  have hil : i.length = m.ndim := (inRange_length _ _ hi).trans hm.2.1
  have hb : inBox (tab m.ndim (k1 p)) (tab m.ndim (k2 p)) (i ++ []) = true := by
    simp only [hits, Bool.and_eq_true] at hit; simpa using hit.2
  obtain ⟨b, hb1, _, hg⟩ := asArray_array isZero arr (subMeshOf m p.2 (k1 p) (k2 p)) nv hs
  simp only [asArray] at hb1
  have hr := subIdx_inRange m (k1 p) (k2 p) i hil [] hb
  simp only [cellOf, hl, leafVal, hb1]
  apply hg
  show inRange ((tab m.ndim fun a => k2 p a - k1 p a) ++ [nv]) (subIdx m (k1 p) i ++ [c]) = true
  rw [inRange_snoc, hr]; simp [hc]

/-- No `default` and some cell that no listed subregion covers: rejected. -/
theorem asArray_dict_missing_default (isZero : V → Bool) (items : List (String × Leaf V)) (m : Mesh) (nv : Nat)
    (i : List Nat) (hi : inRange m.n i = true) (c : Nat) (hc : c < nv)
    (hun : (m.subs.findSome? fun p => patchVal isZero items m nv p (i ++ [c])) = none) :
    ∃ e, asArray isZero (.dict items none) m nv = .error e :=
  asArray_dict_nodefault isZero items m nv i hi c hc hun

/-- Well-formed dictionaries are accepted: subregions that are unions of cells, every listed
value convertible on its submesh, a default NumPy can broadcast — the conversion succeeds with
an array of shape `(*n, nvdim)` (so the hypotheses of the theorems above are satisfiable on
meshes with overlapping subregions). -/
theorem asArray_dict_accepts (isZero : V → Bool) (items : List (String × Leaf V)) (d : NDA V)
    (m : Mesh) (hm : m.Inv) (nv : Nat) (k1 k2 : String × Region → Nat → Nat)
    (hal : ∀ p ∈ m.subs, AlignedSub m p.2 (k1 p) (k2 p))
    (hok : ∀ p ∈ m.subs, ∀ lf, lookupLeaf items p.1 = some lf →
      ∃ sub, asLeaf isZero lf (subMeshOf m p.2 (k1 p) (k2 p)) nv = .ok sub ∧
        sub.shape = (subMeshOf m p.2 (k1 p) (k2 p)).n ++ [nv])
    (hd : bcastOk (m.n ++ [nv]) d.shape = true) :
    ∃ a, asArray isZero (.dict items (some (.val d))) m nv = .ok a ∧ a.shape = m.n ++ [nv] := by
  have hfill : fillOf (some (.val d)) m nv =
      .ok (NDA.map some ⟨m.n ++ [nv], fun j => d.get (bcastIdx (m.n ++ [nv]) d.shape j)⟩) := by
    simp [fillOf, bcast, hd]
  obtain ⟨a1, ha1, hs1⟩ := dictLoop_ok isZero items m hm nv k1 k2 m.subs.reverse
    (fun p hp => hal p (by simpa using hp)) (fun p hp => hok p (by simpa using hp))
    (NDA.map some ⟨m.n ++ [nv], fun j => d.get (bcastIdx (m.n ++ [nv]) d.shape j)⟩)
  have hany : anyNone a1 = false := anyNone_of_all_some a1 fun j => hs1 j rfl
  refine ⟨unwrap a1, by simp [asArray, hfill, ha1, hany], ?_⟩
  exact (dictLoop_get isZero items m nv _ _ a1 ha1).1

/-- The default is applied for EVERY value type (formerly finding D41: int and bool fields lost
the NaN sentinel): a cell that no listed subregion writes receives the callable default's value
at the cell centre, … -/
theorem dict_default_callable (isZero : V → Bool) (items : List (String × Leaf V)) (f : List Rat → List V)
    (m : Mesh) (nv : Nat) (a : NDA V) (hlen : m.n.length = m.ndim)
    (h : asArray isZero (.dict items (some (.func f))) m nv = .ok a)
    (i : List Nat) (hi : inRange m.n i = true) (c : Nat) (hc : c < nv)
    (hun : (m.subs.findSome? fun p => patchVal isZero items m nv p (i ++ [c])) = none) :
    a.get (i ++ [c]) = (f (m.centre i)).getD c default := by
  rw [asArray_dict isZero items _ m nv a hlen h i hi c hc, hun]; rfl

/-- … a constant default's value, … -/
theorem dict_default_const (isZero : V → Bool) (items : List (String × Leaf V)) (d : NDA V)
    (m : Mesh) (nv : Nat) (a : NDA V) (hlen : m.n.length = m.ndim)
    (h : asArray isZero (.dict items (some (.val d))) m nv = .ok a)
    (i : List Nat) (hi : inRange m.n i = true) (c : Nat) (hc : c < nv)
    (hun : (m.subs.findSome? fun p => patchVal isZero items m nv p (i ++ [c])) = none) :
    a.get (i ++ [c]) = d.get (bcastIdx (m.n ++ [nv]) d.shape (i ++ [c])) := by
  rw [asArray_dict isZero items _ m nv a hlen h i hi c hc, hun]; rfl

/-- … and a field default's sample at the cell centre, which (with `call_cell_contains`) is the
value of a source cell containing that centre. -/
theorem dict_default_field (isZero : V → Bool) (items : List (String × Leaf V)) (src : VF V)
    (m : Mesh) (nv : Nat) (a : NDA V) (hlen : m.n.length = m.ndim)
    (h : asArray isZero (.dict items (some (.field src))) m nv = .ok a)
    (i : List Nat) (hi : inRange m.n i = true) (c : Nat) (hc : c < nv)
    (hun : (m.subs.findSome? fun p => patchVal isZero items m nv p (i ++ [c])) = none)
    (vs : List V) (hvs : src.call (m.centre i) = .ok vs) :
    a.get (i ++ [c]) = vs.getD c default := by
  rw [asArray_dict isZero items _ m nv a hlen h i hi c hc, hun]
  simp [dfltVal, hvs]

/-! ## acceptance (the hypotheses `… = .ok _` above are satisfiable) -/

omit [Inhabited V] in
/-- Two points of the region and `n ≥ 2` give a line on every mesh, one-dimensional ones included
(formerly finding D43): all its points lie in the region, so all can be sampled. -/
theorem line_accepts (f : VF V) (p1 p2 : List Rat) (n : Nat) (hn : 2 ≤ n)
    (h1 : f.mesh.region.containsExact p1) (h2 : f.mesh.region.containsExact p2) :
    ∃ o, f.line p1 p2 n = .ok o := by
  have c1 := containsPt_exact _ p1 h1.1 h1.2
  have c2 := containsPt_exact _ p2 h2.1 h2.2
  have hml : meshLine f.mesh p1 p2 n = .ok (tab n fun i => tab f.mesh.ndim fun a =>
      p1.getD a 0 + (i : Rat) * ((p2.getD a 0 - p1.getD a 0) / ((n : Rat) - 1))) := by
    unfold meshLine
    have : ¬ n < 2 := by omega
    simp [c1, c2, this]
  obtain ⟨vals, hvals⟩ := seqM_map_ok (tab n fun i => tab f.mesh.ndim fun a =>
      p1.getD a 0 + (i : Rat) * ((p2.getD a 0 - p1.getD a 0) / ((n : Rat) - 1))) f.call (by
    intro pt hpt
    obtain ⟨j, hj, rfl⟩ := (mem_tab _ _ _).mp hpt
    refine ⟨_, ((call_eq f _).1 _ (point2index_exact f.mesh _ (by simp) fun a ha => ?_)).1⟩
    rw [getD_tab _ _ _ _ ha]
    exact segment_in _ _ _ _ j n hn hj (h1.2 a ha) (h2.2 a ha))
  unfold VF.line
  rw [hml]
  simp only [hvals]
  exact ⟨_, rfl⟩

/-- A label of the field is accepted by component access. -/
theorem comp_accepts (isZero : V → Bool) (f : VF V) (label : String) (vs : List String) (k : Nat)
    (hv : f.vdims = some vs) (hk : indexOf? vs label = some k) : ∃ g, f.comp isZero label = .ok g := by
  obtain ⟨a, ha, has, _⟩ := asArray_array isZero
    ⟨f.mesh.n ++ [1], fun j => f.data.get (j.dropLast ++ [k])⟩ f.mesh 1 rfl
  obtain ⟨b, hb, _, _⟩ := updateValues_eq isZero _ f.mesh 1 a ha has
  exact ⟨⟨f.mesh, 1, b, none⟩, by simp [VF.comp, hv, hk, VF.mk?, hb]⟩

/-! ## non-vacuity: a 2-d mesh, 4 × 2 cells of size 1, two overlapping subregions -/

section Ex
open Ex

/-- hypotheses of `asArray_dict`, `asArray_dict_first_listed`, `region2slices_cells` hold here:
`{"r2": 2, "r1": 1, "default": 0}` on the mesh with overlapping `r1`, `r2` is accepted -/
example : ∃ a, asArray (fun v : Rat => v == 0)
    (.dict [("r2", .scalar 2), ("r1", .scalar 1)] (some (.val (NDA.const [] 0)))) m0 1 = .ok a ∧
    a.shape = [4, 2, 1] := by
  apply asArray_dict_accepts _ _ _ m0 m0_inv 1 k1 k2 m0_aligned
  · intro p _ lf hl
    have : ∃ v, lf = .scalar v := by
      simp only [lookupLeaf, List.find?_cons, List.find?_nil] at hl
      split at hl
      · exact ⟨2, by simpa using hl.symm⟩
      · split at hl
        · exact ⟨1, by simpa using hl.symm⟩
        · cases hl
    obtain ⟨v, rfl⟩ := this
    exact ⟨NDA.const (_ ++ [1]) v, by simp [asLeaf], rfl⟩
  · decide

/-- in that field cell (1,0), which lies in both subregions, is a hit of the first listed one -/
example : (m0.subs.find? (hits [("r2", Leaf.scalar (2 : Rat)), ("r1", .scalar 1)] m0 k1 k2 [1, 0])).map (·.1)
    = some "r1" := by decide

/-- and cell (3,1) is covered by no subregion -/
example : (m0.subs.find? (hits [("r2", Leaf.scalar (2 : Rat)), ("r1", .scalar 1)] m0 k1 k2 [3, 1])).map (·.1)
    = none := by decide

/-- hypotheses of `asArray_field`: a source field on the coarser mesh 2 × 1 over the same region -/
example : ∃ sm : Mesh, sm.Inv ∧ sm.ndim = m0.ndim ∧ m0.region.dims = sm.region.dims ∧
    ∀ a, a < m0.ndim → sm.region.lo a ≤ m0.region.lo a ∧ m0.region.hi a ≤ sm.region.hi a := by
  refine ⟨⟨reg [0, 0] [4, 2], [2, 1], "", []⟩, ⟨⟨by decide, rfl, rfl, rfl, by decide, fun a ha => ?_⟩, rfl,
    fun a ha => ?_⟩, rfl, rfl, fun a ha => ?_⟩
  · rcases lt_two a ha with rfl | rfl <;> decide
  · rcases lt_two a ha with rfl | rfl <;> decide
  · rcases lt_two a ha with rfl | rfl <;> decide

/-- hypotheses of the line theorems: the diagonal of the mesh with 3 points is a line -/
example (data : NDA Rat) : ∃ o, (VF.mk m0 1 data none).line [0, 0] [4, 2] 3 = .ok o :=
  line_accepts _ _ _ _ (by omega)
    (show m0.region.containsExact [0, 0] from
      ⟨rfl, fun a ha => by rcases lt_two a ha with rfl | rfl <;> decide⟩)
    (show m0.region.containsExact [4, 2] from
      ⟨rfl, fun a ha => by rcases lt_two a ha with rfl | rfl <;> decide⟩)

/-- … and so is a segment of a ONE-dimensional mesh (6 cells on [0, 6]) -/
example (data : NDA Rat) :
    ∃ o, (VF.mk ⟨⟨[0], [6], ["x"], ["m"], 1 / 1000000000000⟩, [6], "", []⟩ 1 data none).line [1] [5] 3
      = .ok o :=
  line_accepts _ _ _ _ (by omega)
    (show Region.containsExact ⟨[0], [6], ["x"], ["m"], 1 / 1000000000000⟩ [1] from
      ⟨rfl, fun a ha => by have h0 : a = 0 := Nat.lt_one_iff.mp ha
                           subst h0; decide⟩)
    (show Region.containsExact ⟨[0], [6], ["x"], ["m"], 1 / 1000000000000⟩ [5] from
      ⟨rfl, fun a ha => by have h0 : a = 0 := Nat.lt_one_iff.mp ha
                           subst h0; decide⟩)

/-- hypothesis of `asArray_func`: `p ↦ (p_x, p_y, 1)` returns 3 values everywhere -/
example : ∀ i, inRange m0.n i = true → ((fun p : List Rat => [p.getD 0 0, p.getD 1 0, 1]) (m0.centre i)).length = 3 :=
  fun _ _ => rfl

/-- hypothesis of `comp_eq`: label `"y"` of a field with labels `x, y` -/
example (data : NDA Rat) : ∃ g, (VF.mk m0 2 data (some ["x", "y"])).comp (fun v => v == 0) "y" = .ok g :=
  comp_accepts _ _ "y" ["x", "y"] 1 rfl (by decide)

end Ex

end DFV.C02
