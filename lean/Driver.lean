import DFV.Drv.All
open Lean DFV

/-- one request line → one response line -/
def respond (line : String) : String :=
  match Json.parse line with
  | .error e => (Json.mkObj [("bad", .str s!"parse: {e}")]).compress
  | .ok j =>
    match j.getObjVal? "op" with
    | .error _ => (Json.mkObj [("bad", .str "no op")]).compress
    | .ok opj =>
      match opj.getStr? with
      | .error _ => (Json.mkObj [("bad", .str "op not a string")]).compress
      | .ok op =>
        match DFV.Drv.dispatch op j with
        | none => (Json.mkObj [("bad", .str s!"unknown op {op}")]).compress
        | some (.error e) => (Json.mkObj [("bad", .str e)]).compress
        | some (.ok r) => r.compress

partial def loop (h : IO.FS.Stream) (out : IO.FS.Stream) : IO Unit := do
  let line ← h.getLine
  if line.isEmpty then return ()
  let t := line.trimAscii.toString
  if t.isEmpty then
    out.putStrLn ""
  else
    out.putStrLn (respond t)
  loop h out

def main : IO Unit := do
  let out ← IO.getStdout
  loop (← IO.getStdin) out
  out.flush
