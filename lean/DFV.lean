import DFV.Model.Basic
import DFV.Json
import DFV.Drv.All
import DFV.Props.C01
