import DFV.Model.Basic
import DFV.Json
import DFV.DrvLoop
import DFV.Drv.C01
import DFV.Props.C01
import DFV.Drv.C04
import DFV.Props.C04
