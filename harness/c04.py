"""C04 — derivatives exact on low-degree polynomials, linear, blind across gaps."""
import itertools
import random
from fractions import Fraction

import numpy as np

from . import core, fieldio
from .core import Q, Qs, F

import discretisedfield as df
from discretisedfield import operators as dfo

PID = "C04"
RULE = ("(a) operators._split_diff_combine on EVERY validity pattern of every line length L<=Lmax (8 quick / 12 thorough) "
        "x both orders, integer data, h=2^-k, plus random L<=40: outputs must equal the rational model exactly; (b) the same "
        "through Field.diff on 1-d open and periodic meshes (all masks, L<=Lmax-2); (c) Field.diff on 1-4-d anisotropic meshes, "
        "1-3 components, every axis, periodic or open, restriction on/off. Oracle on the real code: per-run polynomial exactness "
        "(deg<=2 / <=1 / <=3 / <=2 by run length), zeros on invalid and short runs, locality under perturbation outside the run, "
        "linearity, roll-equivariance on rings. non-trivial = some run longer than the order with non-constant data")
TRUSTED = ["harness/c04.py, harness/fieldio.py + driver JSON glue", "np.gradient / np.convolve / np.pad(mode='wrap') modelled by contract"]
ASSUMPTIONS = ["exact-regime inputs (small integers, dyadic steps): every binary64 operation on the code path is exact, so equality is demanded"]
UNPROVED = ["ring_shift for masks whose valid run crosses the periodic seam is FALSE of the code (known finding D17; the counterexample is proved on the "
            "model: ring_shift_masked_counterexample, ring_shift_not_for_all_masks). Proved instead, for every mask: what the code computes run by run "
            "(ring_inner_run: a run delimited inside the stored line gets the ring-run value; ring_head_run_seam / ring_tail_run_seam: a run at the seam is "
            "differentiated with exactly one cell from the other side), ring_open_if_first/last_invalid, shift-equivariance for every rotation that keeps "
            "all runs off the seam (ring_shift_off_seam, ring_shift_off_seam_one), reversal (ring_reverse), and ring_shift for fully valid rings / restriction off",
            "n-d locality (diff_locality_nd), diff_refines_spec and diff_short_run_zero are stated for open axes; for a periodic axis the field-level statements are "
            "diff_cell + diff_refines_spec_periodic (the spec applied to the wrap-padded line), diff_periodic_centred_d1/d2 (fully valid lines) and diff_invalid_zero (both kinds of axis)"]
BUDGET = {"quick": 80, "thorough": 900}


def runs_of(valid):
    out, s = [], None
    for i, v in enumerate(list(valid) + [False]):
        if v and s is None:
            s = i
        if not v and s is not None:
            out.append((s, i))
            s = None
    return out


def cases(rng, tier):
    lmax = 8 if tier == "quick" else 12
    for L in range(1, lmax + 1):
        for mask in itertools.product([True, False], repeat=L):
            for order in (1, 2):
                yield dict(kind="line", L=L, mask=list(mask), order=order, hexp=rng.randint(0, 3), sub=rng.getrandbits(32))
    for _ in range(60 if tier == "quick" else 600):
        L = rng.randint(9, 40)
        dens = rng.choice([0.95, 0.8, 0.5])
        yield dict(kind="line", L=L, mask=[rng.random() < dens for _ in range(L)], order=rng.choice([1, 2]),
                   hexp=rng.randint(0, 3), sub=rng.getrandbits(32))
    for L in range(1, lmax - 1):
        for mask in itertools.product([True, False], repeat=L):
            for order in (1, 2):
                for periodic in (False, True):
                    for _rep in range(3 if L <= 4 else 1):
                        yield dict(kind="field1d", L=L, mask=list(mask), order=order, periodic=periodic,
                                   restrict=True, hexp=rng.randint(0, 3), sub=rng.getrandbits(32))
    for _ in range(40 if tier == "quick" else 600):
        spec = fieldio.gen_mesh_spec(rng, max_cells=90, nmax=7, bc_prob=0.6)
        yield dict(kind="field", mesh=spec, nvdim=rng.choice([1, 1, 2, 3]), order=rng.choice([1, 2]),
                   restrict=rng.random() < 0.8, density=rng.choice([1.0, 0.9, 0.7, 0.5]), sub=rng.getrandbits(32))


# ------------------------------------------------------------------ oracles on the real code
def poly_vals(rng, deg, x):
    co = [rng.randint(-4, 4) for _ in range(deg + 1)]
    return co, [sum(c * xx ** k for k, c in enumerate(co)) for xx in x]


def poly_d(co, x, order):
    c = list(co)
    for _ in range(order):
        c = [k * c[k] for k in range(1, len(c))] or [0]
    return sum(cc * x ** k for k, cc in enumerate(c))


def line_oracle(fn, L, mask, order, h, rng, fail):
    """fn(values float array, mask bool array) -> derivative array.  Property-level checks."""
    mask = np.array(mask, dtype=bool)
    runs = runs_of(mask)
    x = [Fraction(3, 4) + j * h for j in range(L)]
    vals = [Fraction(rng.randint(-9, 9)) for _ in range(L)]
    cos = {}
    for (s, e) in runs:
        n = e - s
        deg = {1: (2 if n >= 3 else 1), 2: (3 if n >= 4 else 2)}[order]
        co, v = poly_vals(rng, deg, x[s:e])
        cos[(s, e)] = co
        vals[s:e] = v
    out = fn(np.array([float(v) for v in vals]), mask)
    for i in range(L):
        if not mask[i] and out[i] != 0:
            fail(f"invalid cell {i} has derivative {out[i]} (mask {mask.astype(int).tolist()})")
            return
    for (s, e) in runs:
        n = e - s
        for i in range(s, e):
            exp = poly_d(cos[(s, e)], x[i], order) if n > order else 0
            if Fraction(float(out[i])) != exp:
                fail(f"order {order}, run [{s},{e}) of mask {mask.astype(int).tolist()}, h={h}: cell {i} gives {out[i]}, exact derivative of the polynomial {cos[(s, e)]} is {exp}")
                return
    # locality: perturb everything outside one run (and its delimiters' values)
    if runs:
        s, e = runs[rng.randrange(len(runs))]
        v2 = [float(v) for v in vals]
        for i in range(L):
            if i < s or i >= e:
                v2[i] += rng.randint(1, 50)
        out2 = fn(np.array(v2), mask)
        if not np.array_equal(out2[s:e], out[s:e]):
            fail(f"run [{s},{e}) of mask {mask.astype(int).tolist()} changes when values outside it change")
    # linearity
    f1 = np.array([float(rng.randint(-9, 9)) for _ in range(L)])
    f2 = np.array([float(rng.randint(-9, 9)) for _ in range(L)])
    lhs = fn(2 * f1 - 3 * f2, mask)
    rhs = 2 * fn(f1, mask) - 3 * fn(f2, mask)
    if not np.array_equal(lhs, rhs):
        fail(f"not linear on mask {mask.astype(int).tolist()} order {order}")


def run_impl(case):
    rng = random.Random(case["sub"])
    obs = {"oracle": [], "tags": ["kind:" + case["kind"]]}
    fail = obs["oracle"].append
    if case["kind"] == "line":
        L, order = case["L"], case["order"]
        h = Fraction(1, 2 ** case["hexp"])
        mask = np.array(case["mask"], dtype=bool)
        vals = np.array([float(v) for v in rng.sample(range(-20, 21), L)])  # distinct: no accidental zeros
        obs["vals"] = Qs(vals)
        obs["out"] = Qs(dfo._split_diff_combine(vals, mask, order, float(h)))
        line_oracle(lambda a, m: dfo._split_diff_combine(a, m, order, float(h)), L, mask, order, h, rng, fail)
        rl = [e - s for s, e in runs_of(mask)]
        obs["tags"] += [f"order:{order}", "maxrun:" + (str(max(rl)) if rl and max(rl) < 5 else ">=5" if rl else "0")]
        obs["nontrivial"] = bool(rl) and max(rl) > order
    elif case["kind"] == "field1d":
        L, order = case["L"], case["order"]
        h = Fraction(1, 2 ** case["hexp"])
        mesh = df.Mesh(p1=0.0, p2=float(L * h), n=L, bc="x" if case["periodic"] else "")
        mask = np.array(case["mask"], dtype=bool)

        def fn(a, m):
            f = df.Field(mesh, nvdim=1, value=a.reshape(L, 1), valid=m)
            return f.diff("x", order=order).array[:, 0]

        vals = np.array([float(v * v * (1 if v % 2 else -1)) for v in rng.sample(range(-9, 10), L)])  # distinct, non-linear
        f = df.Field(mesh, nvdim=1, value=vals.reshape(L, 1), valid=mask, unit="T")
        g = f.diff("x", order=order, restrict2valid=case["restrict"])
        obs["field"] = fieldio.field_json(f)
        obs["res"] = g
        if not (g.mesh == f.mesh and g.unit == f.unit and np.array_equal(g.valid, f.valid) and g.nvdim == f.nvdim):
            fail("diff changed mesh, unit, validity or component count")
        if not case["periodic"]:
            line_oracle(fn, L, mask, order, h, rng, fail)
        else:
            # ring: commutes with cyclic shifts; centred differences with wrap-around when fully valid
            s = rng.randint(1, max(1, L - 1))
            fr = df.Field(mesh, nvdim=1, value=np.roll(vals, s).reshape(L, 1), valid=np.roll(mask, s))
            gr = fr.diff("x", order=order)
            if not np.array_equal(gr.array[:, 0], np.roll(g.array[:, 0], s)):
                fail(f"periodic diff does not commute with a cyclic shift by {s}: mask {mask.astype(int).tolist()} values {vals.tolist()} order {order}")
            if mask.all():
                v = [Fraction(x) for x in vals]
                for j in range(L):
                    exp = ((v[(j + 1) % L] - v[(j - 1) % L]) / (2 * h)) if order == 1 else ((v[(j + 1) % L] - 2 * v[j] + v[(j - 1) % L]) / (h * h))
                    if Fraction(float(g.array[j, 0])) != exp:
                        fail(f"periodic fully valid ring L={L}: cell {j} is {g.array[j, 0]}, centred wrap-around difference is {exp}")
                        break
        obs["tags"] += [f"order:{order}", f"periodic:{case['periodic']}"]
        obs["nontrivial"] = L > order
    else:
        mesh = fieldio.build_mesh(case["mesh"])
        nv = case["nvdim"]
        arr = fieldio.gen_int_array(rng, (*mesh.n, nv))
        mask = fieldio.gen_mask(rng, tuple(mesh.n), case["density"])
        f = df.Field(mesh, nvdim=nv, value=arr, valid=mask, unit="A/m")
        obs["field"] = fieldio.field_json(f)
        obs["res"] = {}
        snap = (f.array.copy(), f.valid.copy())
        for ax, d in enumerate(mesh.region.dims):
            g = f.diff(d, order=case["order"], restrict2valid=case["restrict"])
            obs["res"][ax] = g
            if not (g.mesh == f.mesh and g.unit == f.unit and np.array_equal(g.valid, f.valid)
                    and list(g.vdims or []) == list(f.vdims or []) and g.vdim_mapping == f.vdim_mapping):
                fail(f"diff along {d} changed mesh, unit, validity, labels or mapping")
            # component-wise: differentiate component 0 alone
            if nv > 1:
                f0 = df.Field(mesh, nvdim=1, value=arr[..., 0:1], valid=mask)
                g0 = f0.diff(d, order=case["order"], restrict2valid=case["restrict"])
                if not np.array_equal(g0.array[..., 0], g.array[..., 0]):
                    fail(f"diff along {d}: component 0 differs when differentiated alone")
            # restriction off == all-true mask
            if not case["restrict"]:
                fa = df.Field(mesh, nvdim=nv, value=arr)
                ga = fa.diff(d, order=case["order"])
                if not np.array_equal(ga.array, g.array):
                    fail(f"restrict2valid=False differs from a fully valid field along {d}")
        if not (np.array_equal(snap[0], f.array) and np.array_equal(snap[1], f.valid)):
            fail("diff modified its operand")
        try:
            f.diff(mesh.region.dims[0], order=3)
            fail("order 3 accepted")
        except NotImplementedError:
            pass
        obs["tags"] += [f"ndim:{mesh.region.ndim}", f"nvdim:{nv}", f"bc:{'p' if mesh.bc else 'open'}", f"restrict:{case['restrict']}"]
        obs["nontrivial"] = max(mesh.n) > case["order"]
    return obs


def model_requests(case, obs):
    if case["kind"] == "line":
        return [dict(op="sdc", order=case["order"], h=Q(Fraction(1, 2 ** case["hexp"])), vals=obs["vals"],
                     valid=case["mask"], periodic=False, restrict=True)]
    if case["kind"] == "field1d":
        return [dict(op="field_diff", field=obs["field"], ax=0, order=case["order"], restrict=case["restrict"])]
    return [dict(op="field_diff", field=obs["field"], ax=ax, order=case["order"], restrict=case["restrict"])
            for ax in sorted(obs["res"])]


def compare(case, obs, rs):
    dis = []
    if case["kind"] == "line":
        if [F(x) for x in obs["out"]] != [F(x) for x in rs[0]["ok"]]:
            dis.append(f"_split_diff_combine: impl {obs['out']} vs model {rs[0]['ok']}")
    elif case["kind"] == "field1d":
        if "ok" not in rs[0]:
            dis.append(f"Field.diff: impl ok vs model {rs[0]}")
        else:
            fieldio.cmp_field("Field.diff(1-d)", obs["res"], rs[0]["ok"], dis)
    else:
        for ax, r in zip(sorted(obs["res"]), rs):
            if "ok" not in r:
                dis.append(f"Field.diff axis {ax}: impl ok vs model {r}")
            else:
                fieldio.cmp_field(f"Field.diff(axis {ax})", obs["res"][ax], r["ok"], dis, exact=False)
    return dis


def nontrivial(case, obs):
    return bool(obs.get("nontrivial"))


def known(case, text):
    # D17: periodic direction, restricted to valid cells, a valid run crossing the seam
    if case["kind"] == "field1d" and case["periodic"] and "cyclic shift" in text:
        m = case["mask"]
        if not all(m) and any(m):
            return "D17"
    return None


def search(case, rng):
    for _ in range(300):
        L = rng.randint(1, 12)
        yield dict(kind="line", L=L, mask=[rng.random() < 0.7 for _ in range(L)], order=rng.choice([1, 2]),
                   hexp=rng.randint(0, 3), sub=rng.getrandbits(32))
