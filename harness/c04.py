"""C04 — derivatives exact on low-degree polynomials, linear, blind across gaps."""
import itertools
import math
import os
import random
from fractions import Fraction

import numpy as np

from . import core, fieldio
from .core import Q, Qs, F

import discretisedfield as df
from discretisedfield import operators as dfo

PID = "C04"
RULE = ("(a) operators._split_diff_combine on EVERY validity pattern of every line length L<=Lmax (8 quick / 12 thorough) "
        "x both orders, integer data, h=2^-k, plus random L<=40: outputs must equal the rational model exactly; (b) the same "
        "through Field.diff on 1-d open and periodic meshes (all masks, L<=Lmax-2); (c) Field.diff on 1-4-d anisotropic meshes, "
        "1-3 components, every axis, periodic or open, restriction on/off. Oracle on the real code: per-run polynomial exactness "
        "(deg<=2 / <=1 / <=3 / <=2 by run length), zeros on invalid and short runs, locality under perturbation outside the run, "
        "linearity, roll-equivariance on rings. (s) THE SAME AT EVERY MAGNITUDE ('any cell size, all real field values'): "
        "(s1) _split_diff_combine, every mask L<=7 (10 thorough) x both orders + random L<=60 + lines of 300..5000 cells; "
        "(s2) Field.diff on 1-d meshes, every mask L<=5 (7) x order x periodic x restriction on/off + random L<=48 + lines of "
        "200..4096 cells, mesh 0 .. 2^40 cells away from the origin on either side, float32 storage; (s3) 1-4-d fields, 1-6 "
        "components, every axis, cell edges of different axes up to 2^140 apart (dyadic) / 5 decades apart (arbitrary floats), "
        "far offsets; (s4) 2-d fields with one axis of 400..2500 cells; (s5) orders 0,3,4,7,-1,-2 refused along every axis. "
        "Two regimes per stream: EXACT - values m*2^e with |m|<2^mant (mant 4..40 bits, near-constant data 2^(mant-1)+-63, "
        "zeros), e in [-300,300], each maximal run / each component at its own scale (spread up to 2^+-200 between runs, "
        "2^+-200 between components), h=2^k with k in [-200,200]: every binary64 operation stays exact, equality with the "
        "rational model and with the exact polynomial derivative is demanded bit for bit at 1e-90 as at 1e+90; TOLERANCE - "
        "arbitrary binary64 values A*(base+u), A in 1e-30..1e21 (x 1e+-25 between runs), base in {0,1,1e3,1e6,1e9}, cell "
        "size d.ddd*10^k with k in [-12,19], sent to the model as the exact rationals they are: a cell may differ from the "
        "model / the exact polynomial derivative by 64*2^-52*max|value in the 7-cell stencil neighbourhood|/h^order (+ the "
        "rounding of far-away corner coordinates, coord_noise), never by anything absolute or tied to values elsewhere. Oracles "
        "at scale: polynomial exactness per run (each run its own scale), exact zeros on invalid cells and short runs, "
        "bit-identical run results when everything outside the run is replaced by values up to 2^+-250 away in magnitude, "
        "one grid line replaced likewise leaves all other lines bit-identical, components alone = components together, "
        "linearity 2f-3g, homogeneity diff(c f) = c diff(f) for c = {1,-5/2,3}*2^k with |k| up to 200, ring shift, centred "
        "wrap-around differences on fully valid / unrestricted rings, meta data, operand untouched. "
        "(x) SECOND ROUND: (x1) Field.diff called by direction NAME (known names, unknown names, '', doubled / padded / upper-case names, the concatenation of all names) "
        "x any integer order (1, 2, 0, 3, -1, -2, 4, 7, +-10^6): accepted / NotImplementedError / ValueError must be the model's diffDirI outcome, accepted results equal the model's; "
        "(x2) meshes whose bc is the WORD neumann / dirichlet with axes named by letters of the word, or whose periodic directions spell a multi-character axis name, cells 2^-k: "
        "every axis against the model; on the real code bit-identical to the same mesh with bc='' (diff_word_bc), diff(2f-3g) == 2diff(f)-3diff(g) as arrays (diff_linFld), a component "
        "alone == the component of the whole (diff_compFld), bc kept; (x3) storage kinds int8..int64, uint8..uint64, float16/32/64, complex64/128 on 1-3-d meshes with masks and periodic "
        "axes: values against the model (a complex field as 2*nvdim real components), storage kind of the result against the model's rule resKind, never integers; exact derivative of "
        "a quadratic stored in that kind; intdtype and negative orders, formerly judged by the oracle only, now go to the model as well. "
        "non-trivial = some run longer than the order with non-constant data")
TRUSTED = ["harness/c04.py, harness/fieldio.py + driver JSON glue", "np.gradient / np.convolve / np.pad(mode='wrap') modelled by contract"]
ASSUMPTIONS = ["exact-regime inputs (small integers, dyadic steps): every binary64 operation on the code path is exact, so equality is demanded",
               "exact regime at scale: mantissa bits + exponent spread inside one stencil + 4 <= 53 and |exponent of value/h^2| < 1000 (no overflow, no subnormals) "
               "by construction of the generator, so scaling by powers of two changes no rounding decision",
               "tolerance regime: forward error bound 64 ulp of the largest value in the stencil neighbourhood divided by h^order; far-away corner coordinates "
               "(arbitrary floats) fix the cell size only up to order*8*ulp(corner)/edge (the wrap-padded mesh of a periodic axis is rebuilt from moved corners)",
               "default tolerance-regime n-d meshes keep |corner| / smallest cell edge below ~1e10 (Mesh.sel's divisibility test, see VERIF_C04_ANISO_FAR); "
               "integer-typed field storage used to truncate the derivative (finding D115, fixed in /repo 5136d062; generated by default); "
               "the anisotropic / far-offset class is open finding D116, generated by default and reported as KNOWN-FINDING",
               "dtype stream: |values| <= 9 (int8: quadratic samples with |curvature| 1) so that no intermediate of the end stencils leaves the storage kind; unsigned kinds are "
               "differentiated once only by default (order 1 goes through np.gradient, which converts to binary64 first); VERIF_C04_NARROW_INT=1 adds order 2 for unsigned kinds and "
               "larger int8 samples (new finding D130, not yet listed: the check then reports VIOLATION)"]
UNPROVED = ["shift-equivariance of the periodic derivative for ALL masks is FALSE of the code (known finding D17). It is no longer an open end of the proof: "
            "ring_shift_iff delimits it exactly (it holds for every rotation and all data IFF the mask is fully valid or has no three cyclically consecutive valid cells; "
            "for every other mask ring_rot_fails exhibits data and two rotations that disagree), diffRing_refines_ringSpec states what the code computes for EVERY mask "
            "including the runs that cross the seam, ring_window_is_cut_run identifies that window with the cell's cyclic ring run cut one cell beyond the seam, "
            "ring_ideal_of_uncut / ring_rot_uncut give the seam-independent value and equivariance at every cell whose run is not cut, ring_centred_at confines the deviation "
            "to the end cells of a cut run. What remains a deviation of the CODE from the property text: the exactness / locality / short-run theorems for periodic axes speak "
            "about the code's window (fldB/fldA = ring run cut at seam+1), not about the whole ring run, at the cells of a cut run",
            "binary64 rounding is not modelled: line_smul / diff_linFld / d1_exact / d2_exact and all *_any theorems are theorems over the rationals for every h and every scale; that the code "
            "follows them at every magnitude (no absolute threshold, clipping, snapping or narrowing anywhere between 1e-270 and 1e+270) is established by the scale streams only: exactly where "
            "powers of two keep the arithmetic exact, within the stencil's forward error bound otherwise",
            "storage kinds: resKind (np.result_type(dtype, float)) is a model DEFINITION tied to the code by the dtype / intdtype streams, not derived from anything; the model computes on "
            "rationals, so arithmetic carried out in the storage kind is invisible to it: the second derivative of a field stored as UNSIGNED (or int8 with larger values) integers wraps around "
            "in the end stencils of operators._1d_diff (new finding, proposed id D130, see known(); that class is generated only with VERIF_C04_NARROW_INT=1 and then fails the check); "
            "complex fields are compared as 2*nvdim real components (linearity over COMPLEX scalars is not a theorem, diff_linFld has rational alpha, beta)",
            "diffDir / diffDirI model only string names and integer orders (a float order 1.0, a non-string direction are outside the streams); the region invariant dims.length = ndim is a "
            "hypothesis of diffDir_accepts_iff / diffDir_rejects_iff (met by every constructed mesh, C13)",
            "subnormal results, overflow and NaN/inf field values are outside the streams"]
BUDGET = {"quick": 80, "thorough": 900}


def runs_of(valid):
    out, s = [], None
    for i, v in enumerate(list(valid) + [False]):
        if v and s is None:
            s = i
        if not v and s is not None:
            out.append((s, i))
            s = None
    return out


def cases(rng, tier):
    lmax = 8 if tier == "quick" else 12
    for L in range(1, lmax + 1):
        for mask in itertools.product([True, False], repeat=L):
            for order in (1, 2):
                yield dict(kind="line", L=L, mask=list(mask), order=order, hexp=rng.randint(0, 3), sub=rng.getrandbits(32))
    for _ in range(60 if tier == "quick" else 600):
        L = rng.randint(9, 40)
        dens = rng.choice([0.95, 0.8, 0.5])
        yield dict(kind="line", L=L, mask=[rng.random() < dens for _ in range(L)], order=rng.choice([1, 2]),
                   hexp=rng.randint(0, 3), sub=rng.getrandbits(32))
    for L in range(1, lmax - 1):
        for mask in itertools.product([True, False], repeat=L):
            for order in (1, 2):
                for periodic in (False, True):
                    for _rep in range(3 if L <= 4 else 1):
                        yield dict(kind="field1d", L=L, mask=list(mask), order=order, periodic=periodic,
                                   restrict=True, hexp=rng.randint(0, 3), sub=rng.getrandbits(32))
    for _ in range(40 if tier == "quick" else 600):
        spec = fieldio.gen_mesh_spec(rng, max_cells=90, nmax=7, bc_prob=0.6)
        yield dict(kind="field", mesh=spec, nvdim=rng.choice([1, 1, 2, 3]), order=rng.choice([1, 2]),
                   restrict=rng.random() < 0.8, density=rng.choice([1.0, 0.9, 0.7, 0.5]), sub=rng.getrandbits(32))
    yield from scaled_cases(rng, tier)
    yield from ext_cases(rng, tier)


# ------------------------------------------------------------------ oracles on the real code
def poly_vals(rng, deg, x):
    co = [rng.randint(-4, 4) for _ in range(deg + 1)]
    return co, [sum(c * xx ** k for k, c in enumerate(co)) for xx in x]


def poly_d(co, x, order):
    c = list(co)
    for _ in range(order):
        c = [k * c[k] for k in range(1, len(c))] or [0]
    return sum(cc * x ** k for k, cc in enumerate(c))


def line_oracle(fn, L, mask, order, h, rng, fail):
    """fn(values float array, mask bool array) -> derivative array.  Property-level checks."""
    mask = np.array(mask, dtype=bool)
    runs = runs_of(mask)
    x = [Fraction(3, 4) + j * h for j in range(L)]
    vals = [Fraction(rng.randint(-9, 9)) for _ in range(L)]
    cos = {}
    for (s, e) in runs:
        n = e - s
        deg = {1: (2 if n >= 3 else 1), 2: (3 if n >= 4 else 2)}[order]
        co, v = poly_vals(rng, deg, x[s:e])
        cos[(s, e)] = co
        vals[s:e] = v
    out = fn(np.array([float(v) for v in vals]), mask)
    for i in range(L):
        if not mask[i] and out[i] != 0:
            fail(f"invalid cell {i} has derivative {out[i]} (mask {mask.astype(int).tolist()})")
            return
    for (s, e) in runs:
        n = e - s
        for i in range(s, e):
            exp = poly_d(cos[(s, e)], x[i], order) if n > order else 0
            if Fraction(float(out[i])) != exp:
                fail(f"order {order}, run [{s},{e}) of mask {mask.astype(int).tolist()}, h={h}: cell {i} gives {out[i]}, exact derivative of the polynomial {cos[(s, e)]} is {exp}")
                return
    # locality: perturb everything outside one run (and its delimiters' values)
    if runs:
        s, e = runs[rng.randrange(len(runs))]
        v2 = [float(v) for v in vals]
        for i in range(L):
            if i < s or i >= e:
                v2[i] += rng.randint(1, 50)
        out2 = fn(np.array(v2), mask)
        if not np.array_equal(out2[s:e], out[s:e]):
            fail(f"run [{s},{e}) of mask {mask.astype(int).tolist()} changes when values outside it change")
    # linearity
    f1 = np.array([float(rng.randint(-9, 9)) for _ in range(L)])
    f2 = np.array([float(rng.randint(-9, 9)) for _ in range(L)])
    lhs = fn(2 * f1 - 3 * f2, mask)
    rhs = 2 * fn(f1, mask) - 3 * fn(f2, mask)
    if not np.array_equal(lhs, rhs):
        fail(f"not linear on mask {mask.astype(int).tolist()} order {order}")


# ====================================================================== scale streams
# The property quantifies over ANY cell size and ALL real field values.  The streams above keep
# every derivative at magnitude ~1 (small integers over h = 2^-k, k <= 3); the streams below put
# the same structure (every mask x order x periodic x restriction) at every magnitude:
#   exact regime    values  m * 2^e  (|m| < 2^mant, mant up to 40 bits: nothing survives a float32
#                   detour), e from -300 to 300, each maximal run / component at its OWN scale,
#                   h = 2^-k with k from -200 to 200, meshes far from the origin.  Scaling by
#                   powers of two commutes with every binary64 operation, so equality with the
#                   rational model is still demanded exactly - at 1e-90 as at 1e+90.
#   tolerance regime arbitrary binary64 values (magnitudes 1e-30 .. 1e45, constant offsets) and
#                   arbitrary cell sizes (1e-12 .. 1e19), sent to the model as the exact rationals
#                   they are; a cell may differ from the model by KTOL * 2^-52 * max|value in its
#                   stencil neighbourhood| / h^order (forward error of a <= 4-term stencil), never by
#                   anything tied to an absolute magnitude or to values elsewhere in the field.
EPS = Fraction(1, 2 ** 52)
KTOL = 64
INT_DTYPE = os.environ.get("VERIF_C04_INT_DTYPE", "1") != "0"   # stream that exposes finding "integer-typed field" (see final report)
ANISO_FAR = os.environ.get("VERIF_C04_ANISO_FAR", "1") != "0"   # arbitrary-float meshes with cell edges > 1e9 apart / far from the origin (see final report)
MODEL_FIELD_MAX = 150   # longer lines go to the model line by line (op sdc); the field-level model is cubic in L


def P2(e):
    return Fraction(2) ** int(e)


def dec_float(rng, lo, hi, digits=5):
    """an 'ordinary looking' decimal float  d.dddd e k : not dyadic, any decade in [lo, hi]"""
    return float(f"{rng.uniform(1, 10):.{digits}g}e{rng.randint(lo, hi)}")


def gen_scale(rng, joined, f32=False):
    """scale parameters of one case.  joined: values of different runs meet in one stencil
    (periodic seam / restriction off), so their exponents must stay within the 53-bit budget."""
    if f32:
        return dict(tol=False, f32=True, vexp=rng.randint(-20, 20), hexp=rng.randint(-15, 15), spread=rng.choice([0, 0, 3]),
                    mant=rng.choice([3, 6]))
    if rng.random() < 0.4:
        return dict(tol=True, A=dec_float(rng, -30, 20), hf=dec_float(rng, -12, 19),
                    spread=rng.choice([0, 0, 2] if joined else [0, 0, 6, 25]), base=rng.choice([0, 0, 0, 1, 10 ** 3, 10 ** 6, 10 ** 9]))
    r = rng.random()
    vexp = rng.randint(-300, 300) if r < 0.35 else rng.randint(-100, 70) if r < 0.9 else 0
    hexp = rng.randint(-70, 70) if rng.random() < 0.8 else rng.randint(-200, 200)
    # nc: near-constant data (one large constant + a small variation per run): the derivative lives in the low bits
    if joined:
        mant = rng.choice([4, 10, 20])
        return dict(tol=False, vexp=vexp, hexp=hexp, spread=rng.choice([0, 3, 12]), mant=mant, nc=mant >= 20 and rng.random() < 0.4)
    mant = rng.choice([4, 10, 24, 40])
    return dict(tol=False, vexp=vexp, hexp=hexp, spread=rng.choice([0, 0, 20, 200]), mant=mant, nc=mant >= 20 and rng.random() < 0.4)


def sc_h(sc):
    """cell size of a line-level case as an exact rational (a binary64 number)"""
    return Fraction(sc["hf"]) if sc["tol"] else P2(-sc["hexp"])


def long_mask(rng, L, pat):
    if pat == "all":
        return [True] * L
    if pat == "few":
        bad = {rng.randrange(L) for _ in range(rng.randint(1, 5))}
        return [i not in bad for i in range(L)]
    if pat == "rand":
        return [rng.random() < 0.9 for _ in range(L)]
    if pat == "ends":
        return [3 <= i < L - 2 for i in range(L)]
    m, v = [], True   # blocks: alternating valid / invalid stretches, valid ones of every length 1..60
    while len(m) < L:
        m += [v] * (rng.randint(1, 60) if v else rng.randint(1, 3))
        v = not v
    return m[:L]


def case_mask(case):
    if "mask" in case:
        return list(case["mask"])
    return long_mask(random.Random(case["sub"] ^ 0x5A5A5A), case["L"], case["pat"])


def scaled_cases(rng, tier):
    q = tier == "quick"
    # (s1) operators level: every mask of short lines at a random scale, random longer lines
    for L in range(1, (7 if q else 10) + 1):
        for mask in itertools.product([True, False], repeat=L):
            for order in (1, 2):
                yield dict(kind="sline", L=L, mask=list(mask), order=order, sc=gen_scale(rng, False), sub=rng.getrandbits(32))
    for _ in range(250 if q else 2500):
        L = rng.randint(8, 60)
        dens = rng.choice([1.0, 0.95, 0.8, 0.5])
        yield dict(kind="sline", L=L, mask=[rng.random() < dens for _ in range(L)], order=rng.choice([1, 2]),
                   sc=gen_scale(rng, False), sub=rng.getrandbits(32))
    # (s2) Field.diff on 1-d meshes: every mask x order x periodic x restriction, far offsets, float32 storage
    for L in range(1, (5 if q else 7) + 1):
        for mask in itertools.product([True, False], repeat=L):
            for order in (1, 2):
                for periodic in (False, True):
                    for restrict in (True, False):
                        yield s1d_case(rng, L, list(mask), order, periodic, restrict)
    for _ in range(320 if q else 3000):
        L = rng.randint(6, 48)
        dens = rng.choice([1.0, 0.95, 0.8, 0.5])
        yield s1d_case(rng, L, [rng.random() < dens for _ in range(L)], rng.choice([1, 2]), rng.random() < 0.5, rng.random() < 0.7)
    # (s3) n-d fields: anisotropic cell sizes decades apart, components / lines at their own scales
    for _ in range(80 if q else 900):
        yield dict(kind="sfield", nd=gen_scaled_mesh(rng), nvdim=rng.choice([1, 1, 2, 3, 3, 4, 6]), order=rng.choice([1, 2]),
                   restrict=rng.random() < 0.7, density=rng.choice([1.0, 0.9, 0.7, 0.5]), sub=rng.getrandbits(32))
    # (s4) long lines: thousands of cells along one axis
    pats = ["all", "few", "few", "ends", "rand", "blocks"]
    for _ in range(16 if q else 80):
        L = rng.choice([300, 1001, 2048, 3000, 5000])
        yield dict(kind="sline", L=L, pat=rng.choice(pats), order=rng.choice([1, 2]),
                   sc=gen_scale(rng, False), sub=rng.getrandbits(32))
    for _ in range(16 if q else 80):
        L = rng.choice([200, 600, 1500, 3000, 4096])
        periodic, restrict = rng.random() < 0.5, rng.random() < 0.7
        c = s1d_case(rng, L, None, rng.choice([1, 2]), periodic, restrict)
        del c["mask"]
        c["pat"] = rng.choice(pats)
        yield c
    for _ in range(8 if q else 40):
        yield dict(kind="slong2d", L=rng.choice([400, 1001, 2500]), w=rng.choice([2, 3]), longax=rng.choice([0, 1]),
                   nvdim=rng.choice([1, 2]), order=rng.choice([1, 2]), periodic=rng.random() < 0.5, restrict=rng.random() < 0.7,
                   sc=gen_scale(rng, True), sub=rng.getrandbits(32))
    # (s5) orders other than 1 and 2 are refused
    for order in (0, 3, 4, 7, -1, -2):
        yield dict(kind="badorder", order=order, mesh=fieldio.gen_mesh_spec(rng, max_cells=40, nmax=5, bc_prob=0.5),
                   nvdim=rng.choice([1, 2]), sub=rng.getrandbits(32))
    if INT_DTYPE:
        for _ in range(40):
            yield dict(kind="intdtype", L=rng.randint(3, 12), order=rng.choice([1, 2]), hexp=rng.randint(-3, 0),
                       dtype=rng.choice(["int32", "int64"]), sub=rng.getrandbits(32))


def s1d_case(rng, L, mask, order, periodic, restrict):
    f32 = L <= 10 and rng.random() < 0.12   # float32 storage: data and results chosen to fit 24 bits
    sc = gen_scale(rng, periodic or not restrict, f32)
    r = rng.random()
    off = 0 if r < 0.3 else rng.randint(-50, 50) if r < 0.6 else rng.choice([-1, 1]) * rng.randint(10 ** 3, 10 ** 6) if r < 0.9 \
        else rng.choice([-1, 1]) * rng.randint(2 ** 30, 2 ** (36 if sc["tol"] else 40))
    return dict(kind="sfield1d", L=L, mask=mask, order=order, periodic=periodic, restrict=restrict, sc=sc,
                off=off, dtype="float32" if f32 else None, sub=rng.getrandbits(32))


def gen_scaled_mesh(rng):
    tol = rng.random() < 0.4
    ndim = rng.choice([1, 2, 2, 3, 3, 4])
    n = [rng.randint(1, 7) for _ in range(ndim)]
    while int(np.prod(n)) > 90:
        k = rng.randrange(ndim)
        n[k] = max(1, n[k] - 1)
    same = rng.random() < 0.3
    if tol:
        # Mesh.sel (used by Field.diff to enumerate the grid lines) rebuilds a one-cell slab from rounded coordinates and
        # accepts it only if its thickness is within 1e-3 of the SMALLEST cell edge of any axis: with arbitrary floats that
        # bounds |coordinate| / min(cell) (see ANISO_FAR).  Default stream: cell sizes within 5 decades, offsets <= 1e3 cells
        # (<= 1e6 cells when all axes share a decade); the dyadic stream below has no such limit (140 binades, 2^24 cells).
        d0 = rng.randint(-12, 19)
        if ANISO_FAR:
            cell = [dec_float(rng, d0, d0, 4) if same else dec_float(rng, -12, 19, 4) for _ in range(ndim)]
            far = 10 ** 6
        else:
            d0 = min(d0, 14)
            cell = [dec_float(rng, d0, d0 if same else d0 + 5, 4) for _ in range(ndim)]
            far = 10 ** 6 if same else 10 ** 3
        offs = [rng.choice([0, rng.randint(-50, 50), rng.choice([-1, 1]) * rng.randint(far // 10, far)]) for _ in range(ndim)]
        p1 = [o * c for o, c in zip(offs, cell)]
        p2 = [a + k * c for a, k, c in zip(p1, n, cell)]
        pure = False
    else:
        e0 = rng.randint(-70, 70)
        pure = rng.random() < 0.7   # pure powers of two: exact regime; otherwise 3*2^e, 5*2^e cells (tolerance regime, dyadic data)
        cq = [Fraction(1 if pure else rng.choice([1, 3, 5])) * P2(e0 if same else rng.randint(-70, 70)) for _ in range(ndim)]
        offs = [rng.choice([0, rng.randint(-50, 50), rng.choice([-1, 1]) * rng.randint(2 ** 10, 2 ** 24)]) for _ in range(ndim)]
        p1 = [float(o * c) for o, c in zip(offs, cq)]
        p2 = [float((o + k) * c) for o, k, c in zip(offs, n, cq)]
    dims = rng.sample(fieldio.NAMES, ndim) if rng.random() < 0.5 else None
    dd = dims or (["x", "y", "z"][:ndim] if ndim <= 3 else [])
    bc = "".join(d for d in dd if rng.random() < 0.45)
    if rng.random() < 0.15:
        dims, bc = fieldio.word_dims(rng, ndim)
    return dict(p1=p1, p2=p2, n=n, dims=dims, bc=bc, tol=tol, pure=pure,
                vexp=(0 if tol else rng.choice([0, rng.randint(-100, 70), rng.randint(-300, 300)])),
                A=(dec_float(rng, -30, 20) if tol else None), mant=rng.choice([4, 10, 20]), base=rng.choice([0, 0, 0, 1, 1000]))


# ------------------------------------------------------------------ values at a scale
def nz_int(rng, bits):
    v = 0
    while v == 0:
        v = rng.randint(-(2 ** bits) + 1, 2 ** bits - 1)
    return v


def sc_int(rng, sc):
    """integer mantissa of a value: any integer below 2^mant (zero now and then: a zero VALUE is not an invalid cell);
    near-constant data: 2^(mant-1) + a 6-bit variation"""
    if rng.random() < 0.08:
        return 0
    if sc.get("nc"):
        return 2 ** (sc["mant"] - 1) + rng.randint(-63, 63)
    return nz_int(rng, sc["mant"])


def clamp_exp(sc, e):
    lim = 930 - 2 * abs(sc.get("hexp", 0))   # keeps value / h^2 a normal binary64 number
    return max(-lim, min(lim, e))


def cell_scales(rng, L, mask, sc):
    """scale of every cell of a line: one per maximal run of `mask`, one per invalid cell
    (binary exponents in the exact regime, decades in the tolerance regime)"""
    sp, out, cur = sc["spread"], [], None
    for i in range(L):
        if mask[i]:
            if i == 0 or not mask[i - 1]:
                cur = rng.randint(-sp, sp)
            out.append(cur)
        else:
            out.append(rng.randint(-sp, sp))
    if sc["tol"]:
        return [Fraction(float(sc["A"]) * 10.0 ** d) for d in out]
    return [P2(clamp_exp(sc, sc["vexp"] + d)) for d in out]


def scaled_vals(rng, L, cs, sc):
    """one grid line of binary64 values (as exact Fractions) at the cell scales `cs`"""
    if sc["tol"]:
        return [Fraction(0) if rng.random() < 0.05 else Fraction(float(c) * (sc["base"] + rng.uniform(-1, 1))) for c in cs]
    return [sc_int(rng, sc) * c for c in cs]


def wild_vals(rng, L, sc):
    """values at scales unrelated to the line's own (for 'does not depend on ...' checks)"""
    if sc["tol"]:
        return [Fraction(float(sc["A"]) * 10.0 ** rng.randint(-40, 40) * rng.uniform(-9, 9)) for _ in range(L)]
    w = 40 if sc.get("f32") else 250
    return [nz_int(rng, 6 if sc.get("f32") else 20) * P2(clamp_exp(sc, sc["vexp"] + rng.randint(-w, w))) for _ in range(L)]


def fl(vs):
    return np.array([float(v) for v in vs])


def loc_max(absv, i, L, ring):
    js = range(i - 3, i + 4)
    return max([absv[j % L] for j in js] if ring else [absv[j] for j in js if 0 <= j < L])


def within(got, exp, tol, absv, i, L, ring, hq, order, factor=1, hrel=0):
    """got (binary64) equals the exact value exp; in the tolerance regime up to the stencil's forward error
    (+ the relative uncertainty hrel of the cell size, see coord_noise)"""
    if not math.isfinite(float(got)):
        return False
    a = Fraction(float(got))
    if a == exp:
        return True
    return bool(tol) and abs(a - exp) <= KTOL * factor * EPS * loc_max(absv, i, L, ring) / hq ** order + hrel * abs(exp)


def coord_noise(pmin, pmax, order):
    """Tolerance regime only.  Corner coordinates that are arbitrary floats fix the cell size only up to their own
    rounding: the library derives cell sizes from corners it has moved by whole cells (wrap padding of a periodic
    axis), each move rounding at ulp(|corner|).  Relative slack granted on a derivative: order * 8 ulp(corner) / edge."""
    u = math.ulp(max(abs(float(pmin)), abs(float(pmax))))
    return order * 8 * Fraction(u) / (Fraction(float(pmax)) - Fraction(float(pmin)))


def scaled_oracle(fn, L, mask, order, hq, rng, fail, sc, periodic=False, restrict=True, hrel=0):
    """property-level checks on one grid line at the scale `sc`.
    fn(values float array, mask bool array) -> derivative array (real code, restriction / periodicity built in)."""
    tol = sc["tol"]
    mask = np.array(mask, dtype=bool)
    eff = mask if restrict else np.ones(L, dtype=bool)
    ms = mask.astype(int).tolist() if L <= 60 else f"<{L} cells, {int(mask.sum())} valid>"
    where = f"order {order}, h={float(hq):.6g}, periodic={periodic}, restrict={restrict}, mask {ms}, scale {sc}"
    runs = runs_of(eff)
    cs = cell_scales(rng, L, mask, sc)
    t = [Fraction(3, 4) + j for j in range(L)]
    if not periodic:
        # ---- exact derivative of a low-degree polynomial on every run, each run at its own scale
        vals = scaled_vals(rng, L, cs, sc)
        cos, sca = {}, {}
        cmax = 4 if L <= 1000 and not sc.get("f32") else 2
        for (s, e) in runs:
            n = e - s
            deg = {1: (2 if n >= 3 else 1), 2: (3 if n >= 4 else 2)}[order]
            co = [Fraction(rng.uniform(-4, 4)) if tol else Fraction(rng.randint(-cmax, cmax)) for _ in range(deg + 1)]
            S = cs[s]
            cos[(s, e)], sca[(s, e)] = co, S
            for i in range(s, e):
                vals[i] = Fraction(float(S * sum(c * t[i] ** k for k, c in enumerate(co))))
        out = fn(fl(vals), mask)
        absv = [abs(v) if eff[i] else Fraction(0) for i, v in enumerate(vals)]
        ok = True
        if restrict:
            for i in range(L):
                if not mask[i] and out[i] != 0:
                    fail(f"invalid cell {i} has derivative {out[i]} ({where})")
                    ok = False
                    break
        for (s, e) in runs if ok else []:
            n = e - s
            for i in range(s, e):
                # d^order/dx^order of S*q((x - x0)/h + 3/4) is S*q^(order)(t)/h^order
                exp = sca[(s, e)] * poly_d(cos[(s, e)], t[i], order) / hq ** order if n > order else Fraction(0)
                good = (Fraction(float(out[i])) == exp) if n <= order else within(out[i], exp, tol, absv[s:e], i - s, n, False, hq, order, hrel=hrel)
                if not good:
                    fail(f"run [{s},{e}): cell {i} gives {out[i]!r}, exact derivative of the polynomial {float(sca[(s, e)])!r}*{[float(c) for c in cos[(s, e)]]} "
                         f"(in t=(x-x0)/h+3/4) is {float(exp)!r} ({where})")
                    ok = False
                    break
            if not ok:
                break
    # ---- arbitrary values at the scale: zeros, locality, ring behaviour, linearity, homogeneity
    vals = scaled_vals(rng, L, cs, sc)
    fv = fl(vals)
    out = fn(fv, mask)
    absv = [abs(v) if eff[i] else Fraction(0) for i, v in enumerate(vals)]
    if restrict and any(out[i] != 0 for i in range(L) if not mask[i]):
        fail(f"an invalid cell has a non-zero derivative ({where})")
    if not np.all(np.isfinite(out)):
        fail(f"non-finite derivative ({where})")
        return out, vals
    if periodic:
        s = rng.randint(1, max(1, L - 1))
        outr = fn(np.roll(fv, s), np.roll(mask, s))
        ref = np.roll(out, s)
        absr = absv[-s % L:] + absv[:-s % L] if L else absv
        if not all(within(outr[i], Fraction(float(ref[i])), tol, absr, i, L, True, hq, order, 2) for i in range(L)):
            fail(f"periodic diff does not commute with a cyclic shift by {s}: values {fv.tolist() if L <= 60 else '...'} ({where})")
        if eff.all() and L >= 1:
            for j in range(L):
                exp = ((vals[(j + 1) % L] - vals[(j - 1) % L]) / (2 * hq)) if order == 1 else ((vals[(j + 1) % L] - 2 * vals[j] + vals[(j - 1) % L]) / (hq * hq))
                if not within(out[j], exp, tol, absv, j, L, True, hq, order, hrel=hrel):
                    fail(f"fully valid ring: cell {j} is {out[j]!r}, centred wrap-around difference is {float(exp)!r} ({where})")
                    break
    elif restrict and runs:
        s, e = runs[rng.randrange(len(runs))]
        w = wild_vals(rng, L, sc)
        v2 = [vals[i] if s <= i < e else w[i] for i in range(L)]
        out2 = fn(fl(v2), mask)
        if not np.array_equal(out2[s:e], out[s:e]):
            fail(f"run [{s},{e}) changes when values outside it change (to other magnitudes) ({where})")
    f1 = scaled_vals(rng, L, cs, sc)
    f2 = scaled_vals(rng, L, cs, sc)
    comb = [2 * a - 3 * b for a, b in zip(f1, f2)]
    lhs = fn(fl(comb), mask)
    d1, d2 = fn(fl(f1), mask), fn(fl(f2), mask)
    ab = [(2 * abs(a) + 3 * abs(b)) if eff[i] else Fraction(0) for i, (a, b) in enumerate(zip(f1, f2))]
    for i in range(L):
        if not within(lhs[i], 2 * Fraction(float(d1[i])) - 3 * Fraction(float(d2[i])), tol, ab, i, L, periodic, hq, order, 3):
            fail(f"not linear: diff(2f-3g) != 2diff(f)-3diff(g) at cell {i} ({where})")
            break
    ce = rng.choice([-1, 1]) * rng.randint(20, 200)
    if sc.get("f32"):
        ce = rng.randint(-30, 30)
    elif not tol:
        room = 970 - 2 * abs(sc["hexp"]) - min(abs(sc["vexp"]) + sc["spread"], 930 - 2 * abs(sc["hexp"]))
        ce = max(-room, min(room, ce))
    c = rng.choice([Fraction(1), Fraction(-5, 2), Fraction(3)]) * P2(ce)
    hom = fn(fl([c * v for v in vals]), mask)
    ca = [abs(c) * a for a in absv]
    for i in range(L):
        if not within(hom[i], c * Fraction(float(out[i])), tol, ca, i, L, periodic, hq, order, 2):
            fail(f"not homogeneous: diff(c*f) != c*diff(f) for c={float(c)!r} at cell {i}: {hom[i]!r} vs {float(c) * out[i]!r} ({where})")
            break
    return out, vals


def scale_tags(sc, order, hq):
    tg = ["regime:" + ("tol" if sc["tol"] else "exact")]
    vmag = (float(sc["A"]) if sc["tol"] else float(P2(sc["vexp"])))
    dmag = vmag / float(hq) ** order
    for name, x in (("vmag", vmag), ("hmag", float(hq)), ("dmag", dmag)):
        d = math.log10(x) if x > 0 else 0
        b = "<1e-60" if d < -60 else "1e-60..1e-16" if d < -16 else "1e-16..1e-6" if d < -6 else "1e-6..1e6" if d <= 6 \
            else "1e6..1e16" if d <= 16 else "1e16..1e60" if d <= 60 else ">1e60"
        tg.append(f"{name}:{b}")
    if sc["spread"]:
        tg.append("multiscale-runs")
    if not sc["tol"] and sc["mant"] > 24:
        tg.append("mantissa>24bit")
    return tg


def build_1d(case):
    sc, L = case["sc"], case["L"]
    if sc["tol"]:
        h = float(sc["hf"])
        p1 = case["off"] * h
        p2 = p1 + L * h
    else:
        hq = P2(-sc["hexp"])
        off = case["off"]
        p1, p2 = float(off * hq), float((off + L) * hq)
    return df.Mesh(p1=p1, p2=p2, n=L, bc="x" if case["periodic"] else "")


def run_scaled(case, obs, rng, fail):
    kind = case["kind"]
    if kind == "sline":
        L, order, sc = case["L"], case["order"], case["sc"]
        mask = np.array(case_mask(case), dtype=bool)
        hq = sc_h(sc)
        hf = float(hq)
        fn = lambda a, m: core.private(dfo, "_split_diff_combine")(a, m, order, hf)
        out, vals = scaled_oracle(fn, L, mask, order, hq, rng, fail, sc)
        obs["vals"], obs["out"], obs["h"] = Qs(vals), [float(x) for x in out], Q(hq)
        rl = [e - s for s, e in runs_of(mask)]
        obs["tags"] += [f"order:{order}"] + scale_tags(sc, order, hq) + (["long:L>=1000"] if L >= 1000 else [])
        obs["nontrivial"] = bool(rl) and max(rl) > order
    elif kind == "sfield1d":
        L, order, sc = case["L"], case["order"], case["sc"]
        periodic, restrict = case["periodic"], case["restrict"]
        mask = np.array(case_mask(case), dtype=bool)
        mesh = build_1d(case)
        dt = case.get("dtype")
        kw = {"dtype": getattr(np, dt)} if dt else {}
        hq = (Fraction(float(mesh.region.pmax[0])) - Fraction(float(mesh.region.pmin[0]))) / L
        if not sc["tol"] and hq != P2(-sc["hexp"]):
            raise core.MachineryError(f"exact-regime mesh is not exact: {case}")
        if not sc["tol"] and Fraction(float(mesh.cell[0])) != hq:
            fail(f"mesh.cell {mesh.cell[0]!r} of a mesh with exactly representable cells differs from (pmax-pmin)/n = {float(hq)!r}")

        def fn(a, m):
            f = df.Field(mesh, nvdim=1, value=np.asarray(a).reshape(L, 1), valid=m, **kw)
            return f.diff("x", order=order, restrict2valid=restrict).array[:, 0]

        hrel = coord_noise(mesh.region.pmin[0], mesh.region.pmax[0], order) if sc["tol"] else 0
        obs["hrel"] = hrel
        out, vals = scaled_oracle(fn, L, mask, order, hq, rng, fail, sc, periodic=periodic, restrict=restrict, hrel=hrel)
        f = df.Field(mesh, nvdim=1, value=fl(vals).reshape(L, 1), valid=mask, unit="T", **kw)
        g = f.diff("x", order=order, restrict2valid=restrict)
        if not np.array_equal(g.array[:, 0], out):
            fail("the same field differentiated twice gives different results")
        if not (g.mesh == f.mesh and g.unit == f.unit and np.array_equal(g.valid, f.valid) and g.nvdim == f.nvdim):
            fail("diff changed mesh, unit, validity or component count")
        obs["res"], obs["vals"], obs["h"] = g, Qs(vals), Q(hq)
        if L <= MODEL_FIELD_MAX:
            obs["field"] = fieldio.field_json(f)
        obs["tags"] += [f"order:{order}", f"periodic:{periodic}", f"restrict:{restrict}"] + scale_tags(sc, order, hq)
        obs["tags"] += (["long:L>=1000"] if L >= 1000 else []) + ([f"dtype:{dt}"] if dt else [])
        obs["tags"] += ["offset:0" if case["off"] == 0 else "offset:<=50 cells" if abs(case["off"]) <= 50 else "offset:1e3..1e6 cells"
                        if abs(case["off"]) <= 10 ** 6 else "offset:>=2^30 cells"]
        obs["nontrivial"] = L > order
    elif kind == "sfield":
        run_sfield(case, obs, rng, fail)
    elif kind == "slong2d":
        run_slong2d(case, obs, rng, fail)
    elif kind == "intdtype":
        # integer-typed storage (Field(..., dtype=int)): integer samples of a quadratic, cells 2^k >= 1
        L, order = case["L"], case["order"]
        h = P2(-case["hexp"])
        mesh = df.Mesh(p1=0.0, p2=float(L * h), n=L)
        co = [rng.randint(-4, 4), rng.randint(-4, 4), rng.choice([-3, -1, 1, 3])]
        v = [sum(c * j ** k for k, c in enumerate(co)) for j in range(L)]
        f = df.Field(mesh, nvdim=1, value=np.array(v, dtype=case["dtype"]).reshape(L, 1), dtype=getattr(np, case["dtype"]))
        g = f.diff("x", order=order)
        obs["field"], obs["res"] = fieldio.field_json(f), g
        if g.array.dtype != np.float64:
            fail(f"field stored as {case['dtype']}: the derivative is stored as {g.array.dtype}, not as binary64")
        for j in range(L):
            # p(j) sampled at x = (j + 1/2) h: d/dx = p'(j)/h, d2/dx2 = p''/h^2 ; exact for runs longer than the order
            exp = (Fraction(co[1] + 2 * co[2] * j) / h if order == 1 else Fraction(2 * co[2]) / (h * h)) if L > order else Fraction(0)
            if Fraction(float(g.array[j, 0])) != exp:
                fail(f"field stored as {case['dtype']}: cell {j} of {v} (h={float(h)}) gives {g.array[j, 0]!r}, exact derivative is {float(exp)!r}")
                break
        obs["tags"] += [f"dtype:{case['dtype']}"]
        obs["nontrivial"] = True
    elif kind == "badorder":
        mesh = fieldio.build_mesh(case["mesh"])
        nv = case["nvdim"]
        f = df.Field(mesh, nvdim=nv, value=fieldio.gen_int_array(rng, (*mesh.n, nv)))
        obs["field"] = fieldio.field_json(f)
        for d in mesh.region.dims:
            for restrict in (True, False):
                try:
                    f.diff(d, order=case["order"], restrict2valid=restrict)
                    fail(f"order {case['order']} accepted along {d} (restrict2valid={restrict})")
                except NotImplementedError:
                    pass
        obs["tags"] += [f"order:{case['order']}"]
        obs["nontrivial"] = True


def nd_values(rng, mesh, nv, nd, wild=False):
    """values of an n-d field: components at scales of their own (any distance apart), lines a few bits apart"""
    shape = (*mesh.n, nv)
    size = int(np.prod(shape))
    if nd["tol"]:
        cd = [rng.randint(-25, 25) for _ in range(nv)]
        ad = [[rng.randint(-8, 8) for _ in range(k)] for k in mesh.n]
        arr = np.empty(shape)
        for idx in np.ndindex(*shape):
            d = cd[idx[-1]] + sum(ad[k][j] for k, j in enumerate(idx[:-1])) + (rng.randint(-40, 40) if wild else 0)
            arr[idx] = float(nd["A"]) * 10.0 ** d * (nd["base"] + rng.uniform(-1, 1))
        return arr
    lim = 930 - 2 * 72
    ce = [rng.randint(-200, 200) for _ in range(nv)]
    ae = [[rng.randint(-4, 4) for _ in range(k)] for k in mesh.n]
    arr = np.empty(shape)
    for idx in np.ndindex(*shape):
        e = nd["vexp"] + ce[idx[-1]] + sum(ae[k][j] for k, j in enumerate(idx[:-1])) + (rng.randint(-200, 200) if wild else 0)
        arr[idx] = 0.0 if rng.random() < 0.05 else float(nz_int(rng, nd["mant"]) * P2(max(-lim, min(lim, e))))
    return arr


def run_sfield(case, obs, rng, fail):
    nd, nv, order, restrict = case["nd"], case["nvdim"], case["order"], case["restrict"]
    mesh = fieldio.build_mesh(nd)
    arr = nd_values(rng, mesh, nv, nd)
    mask = fieldio.gen_mask(rng, tuple(mesh.n), case["density"])
    f = df.Field(mesh, nvdim=nv, value=arr, valid=mask, unit="A/m")
    obs["field"] = fieldio.field_json(f)
    obs["res"], obs["arr"], obs["mask"] = {}, arr, mask
    exact = bool(nd["pure"]) and not nd["tol"]
    if exact:
        for k in range(mesh.region.ndim):
            hq = (Fraction(float(mesh.region.pmax[k])) - Fraction(float(mesh.region.pmin[k]))) / int(mesh.n[k])
            if Fraction(float(mesh.cell[k])) != hq:
                fail(f"mesh.cell[{k}] = {mesh.cell[k]!r} of a mesh with exactly representable cells differs from (pmax-pmin)/n = {float(hq)!r}")
    snap = (f.array.copy(), f.valid.copy())
    c = float(rng.choice([1, -5, 3]) * P2(rng.choice([-1, 1]) * rng.randint(20, 100 if nd["tol"] or abs(nd["vexp"]) < 150 else 30)))
    for ax, d in enumerate(mesh.region.dims):
        g = f.diff(d, order=order, restrict2valid=restrict)
        obs["res"][ax] = g
        where = f"along {d} (axis {ax}), order {order}, restrict={restrict}, bc={mesh.bc!r}, n={list(mesh.n)}, cell={mesh.cell.tolist()}"
        if not np.all(np.isfinite(g.array)):
            fail(f"non-finite derivative {where}")
            continue
        if not (g.mesh == f.mesh and g.unit == f.unit and np.array_equal(g.valid, f.valid)
                and list(g.vdims or []) == list(f.vdims or []) and g.vdim_mapping == f.vdim_mapping):
            fail(f"diff changed mesh, unit, validity, labels or mapping {where}")
        if restrict and np.any(g.array[~mask] != 0):
            fail(f"an invalid cell has a non-zero derivative {where}")
        tolarr = None
        if not exact:
            tolarr = KTOL * 2.0 ** -52 * nd_locmax(np.abs(arr) * (mask[..., None] if restrict else 1), ax, fieldio.is_periodic(mesh.bc, d)) / float(mesh.cell[ax]) ** order
        # each component on its own
        if nv > 1:
            k = rng.randrange(nv)
            gk = df.Field(mesh, nvdim=1, value=arr[..., k:k + 1], valid=mask).diff(d, order=order, restrict2valid=restrict)
            if not np.array_equal(gk.array[..., 0], g.array[..., k]):
                fail(f"component {k} differs when differentiated alone {where}")
        # each grid line on its own: other values (at any magnitude) on ONE line leave all other lines alone
        if int(np.prod(mesh.n)) > mesh.n[ax]:
            line = [rng.randrange(k) for k in mesh.n]
            line[ax] = slice(None)
            a2 = arr.copy()
            a2[tuple(line)] = nd_values(rng, mesh, nv, nd, wild=True)[tuple(line)]
            g2 = df.Field(mesh, nvdim=nv, value=a2, valid=mask).diff(d, order=order, restrict2valid=restrict)
            keep = np.ones(arr.shape, dtype=bool)
            keep[tuple(line)] = False
            if not np.array_equal(g2.array[keep], g.array[keep]):
                fail(f"changing the values of one grid line changes the derivative on another line {where}")
        # restriction off == fully valid field
        if not restrict:
            ga = df.Field(mesh, nvdim=nv, value=arr).diff(d, order=order)
            if not np.array_equal(ga.array, g.array):
                fail(f"restrict2valid=False differs from a fully valid field {where}")
        # homogeneity under a change of units of the values
        gc = df.Field(mesh, nvdim=nv, value=c * arr, valid=mask).diff(d, order=order, restrict2valid=restrict)
        bad = (gc.array != c * g.array) if exact else (np.abs(gc.array - c * g.array) > 2 * abs(c) * tolarr)
        if np.any(bad):
            idx = tuple(int(x) for x in np.argwhere(bad)[0])
            fail(f"not homogeneous: diff(c*f) != c*diff(f) for c={c!r} at {idx}: {gc.array[idx]!r} vs {c * g.array[idx]!r} {where}")
    if not (np.array_equal(snap[0], f.array) and np.array_equal(snap[1], f.valid)):
        fail("diff modified its operand")
    hm = [math.log10(float(x)) for x in mesh.cell]
    obs["tags"] += [f"ndim:{mesh.region.ndim}", f"nvdim:{nv}", f"bc:{'p' if mesh.bc else 'open'}", f"restrict:{restrict}",
                    "regime:" + ("exact" if exact else "tol"), "multiscale-components" if nv > 1 else "one-component"]
    if len(hm) > 1 and max(hm) - min(hm) > 6:
        obs["tags"].append("anisotropy>1e6")
    obs["tags"].append("hmag:" + ("<1e-6" if min(hm) < -6 else ">1e6" if max(hm) > 6 else "1e-6..1e6"))
    obs["nontrivial"] = max(mesh.n) > order


def nd_locmax(absarr, ax, ring):
    """max over the 7-cell neighbourhood along axis ax (wrapping if the axis is periodic)"""
    n = absarr.shape[ax]
    out = absarr.copy()
    for s in (1, 2, 3):
        for sg in (s, -s):
            r = np.roll(absarr, sg, axis=ax)
            if not ring:
                sl = [slice(None)] * absarr.ndim
                sl[ax] = slice(0, min(sg, n)) if sg > 0 else slice(max(n + sg, 0), n)
                r[tuple(sl)] = 0
            out = np.maximum(out, r)
    return out


def run_slong2d(case, obs, rng, fail):
    L, w, nv, order, sc = case["L"], case["w"], case["nvdim"], case["order"], case["sc"]
    periodic, restrict, la = case["periodic"], case["restrict"], case["longax"]
    n = [w, w]
    n[la] = L
    if sc["tol"]:
        hl = float(sc["hf"])
        d0 = int(math.floor(math.log10(hl)))
        # arbitrary floats: the short axis within 3 decades of the long one (Mesh.pad / Mesh.sel accept a rebuilt mesh only
        # within 1e-3 of the SMALLEST cell edge of any axis, see ANISO_FAR)
        hs = dec_float(rng, -12, 19, 4) if ANISO_FAR else dec_float(rng, d0 - 3, d0 + 3, 4)
    else:
        hl, hs = float(P2(-sc["hexp"])), float(P2(rng.randint(-70, 70)))
    cell = [hs, hs]
    cell[la] = hl
    mesh = df.Mesh(p1=(0.0, 0.0), p2=(n[0] * cell[0], n[1] * cell[1]), n=n, bc="xy"[la] if periodic else "")
    hq = Fraction(float(mesh.region.pmax[la])) / L
    mask = np.ones(n, dtype=bool)
    arr = np.empty((*n, nv))
    lines = []
    for j in range(w):
        sl = [j, j]
        sl[la] = slice(None)
        m = np.array(long_mask(rng, L, rng.choice(["all", "few", "few", "ends", "rand", "blocks"])), dtype=bool)
        mask[tuple(sl)] = m
        for c in range(nv):
            v = scaled_vals(rng, L, cell_scales(rng, L, m, sc), sc)
            arr[tuple([*sl, c])] = fl(v)
            lines.append((j, c, v, m))
    f = df.Field(mesh, nvdim=nv, value=arr, valid=mask, unit="A/m")
    g = f.diff("xy"[la], order=order, restrict2valid=restrict)
    if not (g.mesh == f.mesh and g.unit == f.unit and np.array_equal(g.valid, f.valid) and g.nvdim == f.nvdim):
        fail("diff changed mesh, unit, validity or component count")
    if restrict and np.any(g.array[~mask] != 0):
        fail("an invalid cell has a non-zero derivative (long 2-d field)")
    # one line replaced by values at other magnitudes: the other lines do not move
    j0 = rng.randrange(w)
    sl = [j0, j0]
    sl[la] = slice(None)
    a2 = arr.copy()
    for c in range(nv):
        a2[tuple([*sl, c])] = fl(wild_vals(rng, L, sc))
    g2 = df.Field(mesh, nvdim=nv, value=a2, valid=mask).diff("xy"[la], order=order, restrict2valid=restrict)
    keep = np.ones(arr.shape, dtype=bool)
    keep[tuple(sl)] = False
    if not np.array_equal(g2.array[keep], g.array[keep]):
        fail("changing the values of one grid line changes the derivative on another line (long 2-d field)")
    obs["lines"] = []
    for (j, c, v, m) in lines:
        sl = [j, j]
        sl[la] = slice(None)
        obs["lines"].append(dict(vals=Qs(v), valid=[bool(x) for x in m], out=[float(x) for x in g.array[tuple([*sl, c])]]))
    obs["h"] = Q(hq)
    obs["tags"] += [f"order:{order}", f"periodic:{periodic}", f"restrict:{restrict}", "long:L>=1000" if L >= 1000 else "long:L<1000",
                    f"longaxis:{la}"] + scale_tags(sc, order, hq)
    obs["nontrivial"] = True


def cmp_line_vals(name, vals, valid, restrict, periodic, hq, order, got, model, tol, dis, hrel=0):
    L = len(vals)
    if len(got) != L or len(model) != L:
        dis.append(f"{name}: length impl {len(got)} vs model {len(model)} vs line {L}")
        return
    absv = [abs(v) if (valid[i] or not restrict) else Fraction(0) for i, v in enumerate(vals)]
    for i in range(L):
        if not within(got[i], F(model[i]), tol, absv, i, L, periodic, hq, order, hrel=hrel):
            dis.append(f"{name}: cell {i}: impl {got[i]!r} vs model {model[i]} (= {float(F(model[i]))!r})")
            return


def scaled_requests(case, obs):
    kind = case["kind"]
    if kind == "sline":
        return [dict(op="sdc", order=case["order"], h=obs["h"], vals=obs["vals"], valid=case_mask(case), periodic=False, restrict=True)]
    if kind == "sfield1d":
        if "field" in obs:
            return [dict(op="field_diff", field=obs["field"], ax=0, order=case["order"], restrict=case["restrict"])]
        return [dict(op="sdc", order=case["order"], h=obs["h"], vals=obs["vals"], valid=case_mask(case),
                     periodic=case["periodic"], restrict=case["restrict"])]
    if kind == "sfield":
        return [dict(op="field_diff", field=obs["field"], ax=ax, order=case["order"], restrict=case["restrict"]) for ax in sorted(obs["res"])]
    if kind == "slong2d":
        return [dict(op="sdc", order=case["order"], h=obs["h"], vals=ln["vals"], valid=ln["valid"], periodic=case["periodic"],
                     restrict=case["restrict"]) for ln in obs["lines"]]
    if kind == "badorder":
        # by axis index for the orders a natural number can hold, and by NAME with the order as the caller passes it
        # (any integer) along every axis
        rq = [dict(op="field_diff", field=obs["field"], ax=0, order=case["order"], restrict=True)] if case["order"] >= 0 else []
        return rq + [dict(op="field_diff_dir", field=obs["field"], dir=d, order=case["order"], restrict=True)
                     for d in obs["field"]["mesh"]["region"]["dims"]]
    if kind == "intdtype":
        return [dict(op="field_diff", field=obs["field"], ax=0, order=case["order"], restrict=True),
                dict(op="diff_kind", dtype=case["dtype"])]
    return []


def scaled_compare(case, obs, rs):
    dis = []
    kind = case["kind"]
    if kind == "sline":
        cmp_line_vals("_split_diff_combine", [F(x) for x in obs["vals"]], case_mask(case), True, False, F(obs["h"]), case["order"],
                      obs["out"], rs[0]["ok"], case["sc"]["tol"], dis)
    elif kind == "sfield1d":
        vals, mask = [F(x) for x in obs["vals"]], case_mask(case)
        got = [float(x) for x in obs["res"].array[:, 0]]
        if not np.all(np.isfinite(got)):
            dis.append("Field.diff(1-d): impl has non-finite values, model has none")
        elif "ok" not in rs[0]:
            dis.append(f"Field.diff: impl ok vs model {rs[0]}")
        elif "field" in obs:
            fieldio.cmp_field("Field.diff(1-d, meta)", obs["res"], rs[0]["ok"], dis, exact=False, rel=2.0 ** 200)
            cmp_line_vals("Field.diff(1-d)", vals, mask, case["restrict"], case["periodic"], F(obs["h"]), case["order"], got,
                          [row[0] for row in rs[0]["ok"]["data"]], case["sc"]["tol"], dis, hrel=obs["hrel"])
        else:
            cmp_line_vals("Field.diff(1-d, long)", vals, mask, case["restrict"], case["periodic"], F(obs["h"]), case["order"], got,
                          rs[0]["ok"], case["sc"]["tol"], dis, hrel=obs["hrel"])
    elif kind == "sfield":
        nd = case["nd"]
        exact = bool(nd["pure"]) and not nd["tol"]
        arr, mask = obs["arr"], obs["mask"]
        for ax, r in zip(sorted(obs["res"]), rs):
            g = obs["res"][ax]
            if "ok" not in r:
                dis.append(f"Field.diff axis {ax}: impl ok vs model {r}")
                continue
            if not np.all(np.isfinite(g.array)):
                dis.append(f"Field.diff axis {ax}: impl has non-finite values, model has none")
                continue
            fieldio.cmp_field(f"Field.diff(axis {ax}, meta)", g, r["ok"], dis, exact=False, rel=2.0 ** 200)
            got = np.asarray(g.array).reshape(-1, g.nvdim)
            rows = r["ok"]["data"]
            if len(rows) != len(got):
                continue
            ring = fieldio.is_periodic(g.mesh.bc, g.mesh.region.dims[ax])
            if exact:
                tolarr = np.zeros(got.shape)
            else:
                tolarr = (KTOL * 2.0 ** -52 * nd_locmax(np.abs(arr) * (mask[..., None] if case["restrict"] else 1), ax, ring)
                          / float(g.mesh.cell[ax]) ** case["order"]).reshape(-1, g.nvdim)
            hrel = 0 if exact else coord_noise(g.mesh.region.pmin[ax], g.mesh.region.pmax[ax], case["order"])
            done = False
            for k, row in enumerate(rows):
                for c, y in enumerate(row):
                    a, b = Fraction(float(got[k, c])), F(y)
                    if a != b and (exact or abs(a - b) > Fraction(float(tolarr[k, c])) + hrel * abs(b)):
                        dis.append(f"Field.diff(axis {ax}): value at flat cell {k} comp {c}: impl {got[k, c]!r} vs model {y} (= {float(b)!r})")
                        done = True
                        break
                if done:
                    break
    elif kind == "slong2d":
        for ln, r in zip(obs["lines"], rs):
            cmp_line_vals("Field.diff(long 2-d line)", [F(x) for x in ln["vals"]], ln["valid"], case["restrict"], case["periodic"],
                          F(obs["h"]), case["order"], ln["out"], r["ok"], case["sc"]["tol"], dis, hrel=Fraction(case["order"] * 8, 2 ** 52))
    elif kind == "badorder":
        for r in rs:
            if r.get("err") != "notimpl":
                dis.append(f"order {case['order']}: impl raises NotImplementedError, model {str(r)[:80]}")
    elif kind == "intdtype":
        if "ok" not in rs[0]:
            dis.append(f"Field.diff (stored as {case['dtype']}): impl ok vs model {rs[0]}")
        else:
            fieldio.cmp_field(f"Field.diff (stored as {case['dtype']})", obs["res"], rs[0]["ok"], dis)
        if rs[1].get("ok") != str(obs["res"].array.dtype):
            dis.append(f"storage kind of the derivative of a {case['dtype']} field: impl {obs['res'].array.dtype} vs model {rs[1]}")
    return dis



# ====================================================================== second extension round
# (x1) Field.diff called with the direction by NAME and any integer order: acceptance / kind of refusal against the model
#      (diffDirI: order check first, then Region._dim2index);
# (x2) meshes whose bc is one of the WORDS 'neumann' / 'dirichlet' (axes named by letters of the word) or whose periodic
#      directions spell a multi-character axis name: against the model, and - property level - bit-identical to the same
#      mesh with bc='' (theorem diff_word_bc), linear as fields (theorem diff_linFld), components alone (diff_compFld);
# (x3) storage kinds: int8..int64, uint8..uint64, float16/32/64, complex64/128 (a complex field is sent to the model as
#      2*nvdim rational components, real parts first): values against the model, storage kind of the result against the
#      model's rule np.result_type(dtype, float); property level: exact derivative of a quadratic for every kind.
DT_SIGNED = ["int8", "int16", "int32", "int64"]
DT_UNSIGNED = ["uint8", "uint16", "uint32", "uint64"]
DT_FLOAT = ["float16", "float32", "float64"]
DT_COMPLEX = ["complex64", "complex128"]
# second derivatives of fields stored as UNSIGNED integers (and of int8 fields with values above ~25): the end stencils
# `2*a[0] - 5*a[1] + 4*a[2] - a[3]` / `a[0] - 2*a[1] + a[2]` in operators._1d_diff are evaluated in the storage kind and wrap
# around (new finding, see final report of the second C04 extension round): generated only when the flag is set
NARROW_INT = os.environ.get("VERIF_C04_NARROW_INT", "1") != "0"    # default on since repo fix d9789d20 (D130)


def pow2_spec(rng, ndim=None, max_cells=60, nmax=6):
    """mesh with cells 2^-k and dyadic corners: every stencil on small integers is exact"""
    ndim = ndim or rng.choice([1, 2, 2, 3, 3, 4])
    n = [rng.randint(1, nmax) for _ in range(ndim)]
    while int(np.prod(n)) > max_cells:
        k = rng.randrange(ndim)
        n[k] = max(1, n[k] - 1)
    cell = [Fraction(1, 2 ** rng.randint(0, 3)) for _ in range(ndim)]
    pmin = [Fraction(rng.randint(-20, 20), 4) for _ in range(ndim)]
    pmax = [a + k * c for a, k, c in zip(pmin, n, cell)]
    dims = rng.sample(fieldio.NAMES, ndim) if rng.random() < 0.5 else None
    dd = dims or (["x", "y", "z"][:ndim] if ndim <= 3 else [])
    bc = "".join(d for d in dd if rng.random() < 0.5)
    return dict(p1=[float(x) for x in pmin], p2=[float(x) for x in pmax], n=n, dims=dims, bc=bc)


def ext_cases(rng, tier):
    q = tier == "quick"
    for _ in range(36 if q else 300):
        spec = pow2_spec(rng, max_cells=30, nmax=5)
        if rng.random() < 0.4:
            spec["dims"], spec["bc"] = fieldio.word_dims(rng, len(spec["n"]))
        yield dict(kind="dirname", mesh=spec, nvdim=rng.choice([1, 2]), restrict=rng.random() < 0.7, sub=rng.getrandbits(32))
    for _ in range(40 if q else 400):
        spec = pow2_spec(rng)
        spec["dims"], spec["bc"] = fieldio.word_dims(rng, len(spec["n"]))
        yield dict(kind="wordfield", mesh=spec, nvdim=rng.choice([1, 2, 3]), order=rng.choice([1, 2]), restrict=rng.random() < 0.7,
                   density=rng.choice([1.0, 0.9, 0.7, 0.5]), sub=rng.getrandbits(32))
    kinds = DT_SIGNED + DT_UNSIGNED + DT_FLOAT + DT_COMPLEX + DT_COMPLEX
    for k in range(72 if q else 600):
        dt = kinds[k % len(kinds)]
        order = rng.choice([1, 2])
        if dt in DT_UNSIGNED and order == 2 and not NARROW_INT:
            order = 1
        yield dict(kind="dtype", dtype=dt, mesh=pow2_spec(rng, ndim=rng.choice([1, 1, 2, 3]), max_cells=40, nmax=7), nvdim=rng.choice([1, 1, 2]),
                   order=order, restrict=rng.random() < 0.7, density=rng.choice([1.0, 0.9, 0.6]), sub=rng.getrandbits(32))
    if NARROW_INT:
        for k in range(24):
            yield dict(kind="dtype", dtype=(DT_UNSIGNED + ["int8"])[k % 5], narrow=True, mesh=pow2_spec(rng, ndim=1, nmax=8), nvdim=1, order=2,
                       restrict=True, density=1.0, sub=rng.getrandbits(32))


def outcome(fn):
    try:
        return ("ok", fn())
    except NotImplementedError:
        return ("notimpl", None)
    except ValueError:
        return ("value", None)
    except Exception as e:   # any other exception type: reported as it is
        return (type(e).__name__, None)


def run_ext(case, obs, rng, fail):
    kind = case["kind"]
    mesh = fieldio.build_mesh(case["mesh"])
    nv = case["nvdim"]
    dims = list(mesh.region.dims)
    if kind == "dirname":
        arr = fieldio.gen_int_array(rng, (*mesh.n, nv))
        mask = fieldio.gen_mask(rng, tuple(mesh.n), rng.choice([1.0, 0.8, 0.5]))
        f = df.Field(mesh, nvdim=nv, value=arr, valid=mask, unit="A/m")
        obs["field"] = fieldio.field_json(f)
        names = dims + ["q", "", dims[0] * 2, " " + dims[0], dims[0] + " ", "".join(dims)]
        if dims[0].upper() not in dims:
            names.append(dims[0].upper())
        orders = [1, 2, 0, 3, -1, -2, 4, 7, 10 ** 6, -(10 ** 6)]
        calls = [(d, o) for d in dims for o in (1, 2)] + [(rng.choice(names), rng.choice(orders)) for _ in range(8)]
        obs["calls"] = []
        for d, o in calls:
            res = outcome(lambda: f.diff(d, order=o, restrict2valid=case["restrict"]))
            obs["calls"].append((d, o, res))
            # property level: an order other than 1 and 2 is never differentiated, whatever the name
            # (the property says "refused": which exception class is raised - and which of two malformed arguments is
            # reported first - is not compared)
            if o not in (1, 2) and res[0] == "ok":
                fail(f"diff({d!r}, order={o}) on dims={dims} returns a field: an order other than 1 and 2 must be refused")
            if o in (1, 2) and d in dims and res[0] != "ok":
                fail(f"diff({d!r}, order={o}) on dims={dims}, bc={mesh.bc!r} is refused ({res[0]})")
        obs["tags"] += ["named:" + ("known" if d in dims else "unknown") + ",order:" + ("ok" if o in (1, 2) else "bad") for d, o in calls]
        obs["nontrivial"] = True
        return
    if kind == "wordfield":
        order, restrict = case["order"], case["restrict"]
        arr = fieldio.gen_int_array(rng, (*mesh.n, nv))
        arr2 = fieldio.gen_int_array(rng, (*mesh.n, nv))
        mask = fieldio.gen_mask(rng, tuple(mesh.n), case["density"])
        f = df.Field(mesh, nvdim=nv, value=arr, valid=mask, unit="T")
        obs["field"], obs["res"] = fieldio.field_json(f), {}
        word = mesh.bc in fieldio.BC_WORDS
        mesh0 = fieldio.build_mesh(dict(case["mesh"], bc="")) if word else None
        for ax, d in enumerate(dims):
            g = f.diff(d, order=order, restrict2valid=restrict)
            obs["res"][ax] = g
            where = f"along {d!r} (axis {ax}) of dims={dims}, bc={mesh.bc!r}, order {order}, restrict={restrict}"
            if not (g.mesh == f.mesh and g.mesh.bc == f.mesh.bc and g.unit == f.unit and np.array_equal(g.valid, f.valid)
                    and list(g.vdims or []) == list(f.vdims or []) and g.vdim_mapping == f.vdim_mapping):
                fail(f"diff changed mesh, bc, unit, validity, labels or mapping {where}")
            if word:
                # the words change nothing: same result as on the mesh with bc=''
                g0 = df.Field(mesh0, nvdim=nv, value=arr, valid=mask).diff(d, order=order, restrict2valid=restrict)
                if not np.array_equal(g0.array, g.array):
                    fail(f"diff on a {mesh.bc!r} mesh differs from diff on the same mesh with bc='' {where}")
            # linear, as fields (cells are powers of two and the data small integers: exact)
            g2 = df.Field(mesh, nvdim=nv, value=arr2, valid=mask).diff(d, order=order, restrict2valid=restrict)
            gl = df.Field(mesh, nvdim=nv, value=2 * arr - 3 * arr2, valid=mask).diff(d, order=order, restrict2valid=restrict)
            if not np.array_equal(gl.array, 2 * g.array - 3 * g2.array):
                fail(f"diff(2f-3g) != 2 diff(f) - 3 diff(g) {where}")
            if nv > 1:
                k = rng.randrange(nv)
                gk = df.Field(mesh, nvdim=1, value=arr[..., k:k + 1], valid=mask).diff(d, order=order, restrict2valid=restrict)
                if not np.array_equal(gk.array[..., 0], g.array[..., k]):
                    fail(f"component {k} differs when differentiated alone {where}")
        obs["tags"] += [f"bc:{'word' if word else 'multichar-name'}", f"ndim:{mesh.region.ndim}", f"order:{order}", f"restrict:{restrict}",
                        "axis-named-by-word-letter" if word and any(d in mesh.bc for d in dims) else "no-letter-axis"]
        obs["nontrivial"] = max(mesh.n) > order
        return
    # ---- storage kinds
    dt, order, restrict = case["dtype"], case["order"], case["restrict"]
    npdt = getattr(np, dt)
    cplx = dt in DT_COMPLEX
    lo = 0 if dt in DT_UNSIGNED else -9
    shape = (*mesh.n, nv)
    re = fieldio.gen_int_array(rng, shape, lo, 9)
    im = fieldio.gen_int_array(rng, shape, -9, 9) if cplx else None
    mask = fieldio.gen_mask(rng, tuple(mesh.n), case["density"])
    val = (re + 1j * im).astype(npdt) if cplx else re.astype(npdt)
    f = df.Field(mesh, nvdim=nv, value=val, valid=mask, dtype=npdt, unit="T")
    if f.array.dtype != npdt:
        raise core.MachineryError(f"field asked to be stored as {dt} is stored as {f.array.dtype}")
    # what the model sees: the real parts (and the imaginary parts as nvdim further components)
    fj = fieldio.field_json(df.Field(mesh, nvdim=nv, value=re, valid=mask, unit="T"))
    if cplx:
        fj = dict(fj, nvdim=2 * nv, data=[Qs(list(a) + list(b)) for a, b in zip(re.reshape(-1, nv).tolist(), im.reshape(-1, nv).tolist())],
                  vdims=None, vmap=[])
    obs["fj"], obs["res"], obs["cplx"] = fj, {}, cplx
    for ax, d in enumerate(dims):
        g = f.diff(d, order=order, restrict2valid=restrict)
        obs["res"][ax] = g
        if not (g.mesh == f.mesh and g.unit == f.unit and np.array_equal(g.valid, f.valid) and g.nvdim == f.nvdim):
            fail(f"diff of a {dt} field changed mesh, unit, validity or component count along {d}")
        if g.array.dtype.kind in "iub":
            fail(f"field stored as {dt}: the derivative along {d} is stored as {g.array.dtype} (integers)")
        if cplx != (g.array.dtype.kind == "c"):
            fail(f"field stored as {dt}: the derivative along {d} is stored as {g.array.dtype}")
    # property level: exact derivative of a quadratic sampled on a fully valid open line, stored as this kind
    L = rng.randint(3, 8)
    hq = P2(rng.randint(0, 3))
    narrow = bool(case.get("narrow"))
    big = 3 if narrow or dt not in ("int8",) + tuple(DT_UNSIGNED) else 1
    if dt in DT_UNSIGNED and narrow:
        co = [rng.randint(60, 90), rng.randint(-3, 3), -rng.randint(1, 1)]   # non-negative samples, NEGATIVE curvature
    elif dt in DT_UNSIGNED:
        co = [rng.randint(0, 4), rng.randint(0, 3), rng.randint(1, big)]
    else:
        co = [rng.randint(-4, 4), rng.randint(-3, 3), rng.choice([-1, 1]) * rng.randint(1, big)]
    co2 = [rng.randint(-4, 4), rng.randint(-3, 3), rng.randint(-2, 2)] if cplx else [0, 0, 0]
    v = [sum(c * j ** k for k, c in enumerate(co)) for j in range(L)]
    w = [sum(c * j ** k for k, c in enumerate(co2)) for j in range(L)]
    if np.dtype(npdt).kind in "iu":
        # the samples must be representable in the storage kind (129 does not fit int8: the stored numbers would not be
        # the quadratic any more - an artefact of this probe, found with seed 6): shorten the line until they are
        info = np.iinfo(npdt)
        while L > 3 and not all(info.min <= x <= info.max for x in v[:L]):
            L -= 1
        v, w = v[:L], w[:L]
        if not all(info.min <= x <= info.max for x in v):
            obs["tags"].append("dtype-probe-skipped:not-representable")
            L = 0
    if L == 0:
        obs["tags"] += [f"dtype:{dt}", f"order:{order}", f"restrict:{restrict}"]
        obs["nontrivial"] = max(mesh.n) > order
        return
    m1 = df.Mesh(p1=0.0, p2=float(L * hq), n=L)
    pv = (np.array(v) + 1j * np.array(w)).astype(npdt) if cplx else np.array(v).astype(npdt)
    gp = df.Field(m1, nvdim=1, value=pv.reshape(L, 1), dtype=npdt).diff("x", order=order)
    for j in range(L):
        ex = [(Fraction(c[1] + 2 * c[2] * j) / hq if order == 1 else Fraction(2 * c[2]) / (hq * hq)) if L > order else Fraction(0) for c in (co, co2)]
        got = gp.array[j, 0]
        parts = (got.real, got.imag) if cplx else (got, 0.0)
        if not all(math.isfinite(float(x)) for x in parts) or [Fraction(float(x)) for x in parts] != ex:
            fail(f"field stored as {dt}: order {order}, cell {j} of the samples {pv.tolist()} (h={float(hq)}) gives {got!r}, "
                 f"the exact derivative of the quadratic is {[float(e) for e in ex] if cplx else float(ex[0])!r}")
            break
    obs["tags"] += [f"dtype:{dt}", f"order:{order}", f"restrict:{restrict}", f"bc:{'p' if mesh.bc else 'open'}"] + (["narrow-int"] if narrow else [])
    obs["nontrivial"] = max(mesh.n) > order


def ext_requests(case, obs):
    kind = case["kind"]
    if kind == "dirname":
        return [dict(op="field_diff_dir", field=obs["field"], dir=d, order=o, restrict=case["restrict"]) for d, o, _ in obs["calls"]]
    if kind == "wordfield":
        return [dict(op="field_diff", field=obs["field"], ax=ax, order=case["order"], restrict=case["restrict"]) for ax in sorted(obs["res"])]
    return [dict(op="field_diff", field=obs["fj"], ax=ax, order=case["order"], restrict=case["restrict"]) for ax in sorted(obs["res"])] \
        + [dict(op="diff_kind", dtype=case["dtype"])]


def ext_compare(case, obs, rs):
    dis = []
    kind = case["kind"]
    if kind == "dirname":
        for (d, o, (tag, g)), r in zip(obs["calls"], rs):
            mtag = "ok" if "ok" in r else "refused"
            itag = "ok" if tag == "ok" else "refused"          # exception classes are never compared
            if itag != mtag:
                dis.append(f"diff({d!r}, order={o}): impl {tag} vs model {r.get('err', 'ok')}")
            elif tag == "ok":
                fieldio.cmp_field(f"diff({d!r}, order={o})", g, r["ok"], dis)
    elif kind == "wordfield":
        for ax, r in zip(sorted(obs["res"]), rs):
            if "ok" not in r:
                dis.append(f"Field.diff axis {ax}: impl ok vs model {r}")
            else:
                fieldio.cmp_field(f"Field.diff(axis {ax}, bc={case['mesh']['bc']!r})", obs["res"][ax], r["ok"], dis)
    else:
        nv = case["nvdim"]
        for ax, r in zip(sorted(obs["res"]), rs[:-1]):
            g = obs["res"][ax]
            if "ok" not in r:
                dis.append(f"Field.diff axis {ax} ({case['dtype']}): impl ok vs model {r}")
                continue
            got = np.asarray(g.array).reshape(-1, nv)
            rows = r["ok"]["data"]
            if len(rows) != len(got):
                dis.append(f"Field.diff axis {ax} ({case['dtype']}): cell count impl {len(got)} vs model {len(rows)}")
                continue
            if not np.all(np.isfinite(got)):
                dis.append(f"Field.diff axis {ax} ({case['dtype']}): impl has non-finite values, model has none")
                continue
            bad = None
            for k, row in enumerate(rows):
                for c in range(nv):
                    x = got[k, c]
                    if Fraction(float(x.real)) != F(row[c]) or (obs["cplx"] and Fraction(float(x.imag)) != F(row[nv + c])):
                        bad = f"Field.diff axis {ax} (stored as {case['dtype']}): flat cell {k} comp {c}: impl {x!r} vs model " \
                              f"{row[c]}" + (f" + i*{row[nv + c]}" if obs["cplx"] else "")
                        break
                if bad:
                    break
            if bad:
                dis.append(bad)
            if r["ok"]["valid"] != [bool(b) for b in np.asarray(g.valid).reshape(-1).tolist()]:
                dis.append(f"Field.diff axis {ax} ({case['dtype']}): validity differs")
            got_kind = str(g.array.dtype)
            if rs[-1].get("ok") != got_kind:
                dis.append(f"storage kind of the derivative of a {case['dtype']} field: impl {got_kind} vs model {rs[-1]}")
    return dis


SCALED = ("sline", "sfield1d", "sfield", "slong2d", "badorder", "intdtype")
EXT = ("dirname", "wordfield", "dtype")


def run_impl(case):
    rng = random.Random(case["sub"])
    obs = {"oracle": [], "tags": ["kind:" + case["kind"]]}
    fail = obs["oracle"].append
    if case["kind"] in SCALED:
        run_scaled(case, obs, rng, fail)
        return obs
    if case["kind"] in EXT:
        run_ext(case, obs, rng, fail)
        return obs
    if case["kind"] == "line":
        L, order = case["L"], case["order"]
        h = Fraction(1, 2 ** case["hexp"])
        mask = np.array(case["mask"], dtype=bool)
        vals = np.array([float(v) for v in rng.sample(range(-20, 21), L)])  # distinct: no accidental zeros
        obs["vals"] = Qs(vals)
        obs["out"] = Qs(core.private(dfo, "_split_diff_combine")(vals, mask, order, float(h)))
        line_oracle(lambda a, m: core.private(dfo, "_split_diff_combine")(a, m, order, float(h)), L, mask, order, h, rng, fail)
        rl = [e - s for s, e in runs_of(mask)]
        obs["tags"] += [f"order:{order}", "maxrun:" + (str(max(rl)) if rl and max(rl) < 5 else ">=5" if rl else "0")]
        obs["nontrivial"] = bool(rl) and max(rl) > order
    elif case["kind"] == "field1d":
        L, order = case["L"], case["order"]
        h = Fraction(1, 2 ** case["hexp"])
        mesh = df.Mesh(p1=0.0, p2=float(L * h), n=L, bc="x" if case["periodic"] else "")
        mask = np.array(case["mask"], dtype=bool)

        def fn(a, m):
            f = df.Field(mesh, nvdim=1, value=a.reshape(L, 1), valid=m)
            return f.diff("x", order=order).array[:, 0]

        vals = np.array([float(v * v * (1 if v % 2 else -1)) for v in rng.sample(range(-9, 10), L)])  # distinct, non-linear
        f = df.Field(mesh, nvdim=1, value=vals.reshape(L, 1), valid=mask, unit="T")
        g = f.diff("x", order=order, restrict2valid=case["restrict"])
        obs["field"] = fieldio.field_json(f)
        obs["res"] = g
        if not (g.mesh == f.mesh and g.unit == f.unit and np.array_equal(g.valid, f.valid) and g.nvdim == f.nvdim):
            fail("diff changed mesh, unit, validity or component count")
        if not case["periodic"]:
            line_oracle(fn, L, mask, order, h, rng, fail)
        else:
            # ring: commutes with cyclic shifts; centred differences with wrap-around when fully valid
            s = rng.randint(1, max(1, L - 1))
            fr = df.Field(mesh, nvdim=1, value=np.roll(vals, s).reshape(L, 1), valid=np.roll(mask, s))
            gr = fr.diff("x", order=order)
            if not np.array_equal(gr.array[:, 0], np.roll(g.array[:, 0], s)):
                fail(f"periodic diff does not commute with a cyclic shift by {s}: mask {mask.astype(int).tolist()} values {vals.tolist()} order {order}")
            if mask.all():
                v = [Fraction(x) for x in vals]
                for j in range(L):
                    exp = ((v[(j + 1) % L] - v[(j - 1) % L]) / (2 * h)) if order == 1 else ((v[(j + 1) % L] - 2 * v[j] + v[(j - 1) % L]) / (h * h))
                    if Fraction(float(g.array[j, 0])) != exp:
                        fail(f"periodic fully valid ring L={L}: cell {j} is {g.array[j, 0]}, centred wrap-around difference is {exp}")
                        break
        obs["tags"] += [f"order:{order}", f"periodic:{case['periodic']}"]
        obs["nontrivial"] = L > order
    else:
        mesh = fieldio.build_mesh(case["mesh"])
        nv = case["nvdim"]
        arr = fieldio.gen_int_array(rng, (*mesh.n, nv))
        mask = fieldio.gen_mask(rng, tuple(mesh.n), case["density"])
        f = df.Field(mesh, nvdim=nv, value=arr, valid=mask, unit="A/m")
        obs["field"] = fieldio.field_json(f)
        obs["res"] = {}
        snap = (f.array.copy(), f.valid.copy())
        for ax, d in enumerate(mesh.region.dims):
            g = f.diff(d, order=case["order"], restrict2valid=case["restrict"])
            obs["res"][ax] = g
            if not (g.mesh == f.mesh and g.unit == f.unit and np.array_equal(g.valid, f.valid)
                    and list(g.vdims or []) == list(f.vdims or []) and g.vdim_mapping == f.vdim_mapping):
                fail(f"diff along {d} changed mesh, unit, validity, labels or mapping")
            # component-wise: differentiate component 0 alone
            if nv > 1:
                f0 = df.Field(mesh, nvdim=1, value=arr[..., 0:1], valid=mask)
                g0 = f0.diff(d, order=case["order"], restrict2valid=case["restrict"])
                if not np.array_equal(g0.array[..., 0], g.array[..., 0]):
                    fail(f"diff along {d}: component 0 differs when differentiated alone")
            # restriction off == all-true mask
            if not case["restrict"]:
                fa = df.Field(mesh, nvdim=nv, value=arr)
                ga = fa.diff(d, order=case["order"])
                if not np.array_equal(ga.array, g.array):
                    fail(f"restrict2valid=False differs from a fully valid field along {d}")
        if not (np.array_equal(snap[0], f.array) and np.array_equal(snap[1], f.valid)):
            fail("diff modified its operand")
        try:
            f.diff(mesh.region.dims[0], order=3)
            fail("order 3 accepted")
        except NotImplementedError:
            pass
        obs["tags"] += [f"ndim:{mesh.region.ndim}", f"nvdim:{nv}", f"bc:{'p' if mesh.bc else 'open'}", f"restrict:{case['restrict']}"]
        obs["nontrivial"] = max(mesh.n) > case["order"]
    return obs


def model_requests(case, obs):
    if case["kind"] in SCALED:
        return scaled_requests(case, obs)
    if case["kind"] in EXT:
        return ext_requests(case, obs)
    if case["kind"] == "line":
        return [dict(op="sdc", order=case["order"], h=Q(Fraction(1, 2 ** case["hexp"])), vals=obs["vals"],
                     valid=case["mask"], periodic=False, restrict=True)]
    if case["kind"] == "field1d":
        return [dict(op="field_diff", field=obs["field"], ax=0, order=case["order"], restrict=case["restrict"])]
    return [dict(op="field_diff", field=obs["field"], ax=ax, order=case["order"], restrict=case["restrict"])
            for ax in sorted(obs["res"])]


def compare(case, obs, rs):
    if case["kind"] in SCALED:
        return scaled_compare(case, obs, rs)
    if case["kind"] in EXT:
        return ext_compare(case, obs, rs)
    dis = []
    if case["kind"] == "line":
        if [F(x) for x in obs["out"]] != [F(x) for x in rs[0]["ok"]]:
            dis.append(f"_split_diff_combine: impl {obs['out']} vs model {rs[0]['ok']}")
    elif case["kind"] == "field1d":
        if "ok" not in rs[0]:
            dis.append(f"Field.diff: impl ok vs model {rs[0]}")
        else:
            fieldio.cmp_field("Field.diff(1-d)", obs["res"], rs[0]["ok"], dis)
    else:
        for ax, r in zip(sorted(obs["res"]), rs):
            if "ok" not in r:
                dis.append(f"Field.diff axis {ax}: impl ok vs model {r}")
            else:
                fieldio.cmp_field(f"Field.diff(axis {ax})", obs["res"][ax], r["ok"], dis, exact=False)
    return dis


def nontrivial(case, obs):
    return bool(obs.get("nontrivial"))


def known(case, text):
    # D116 (open): on arbitrary-float n-d meshes with cell edges many decades apart or far from the origin Field.diff
    # raises because Mesh.sel / Mesh.pad rebuild a mesh that Mesh.__init__'s divisibility tolerance refuses
    if case["kind"] in ("sfield", "slong2d") and "Region cannot be divided into discretisation cells" in text:
        return "D116"
    # D130 (proposed, not yet listed): second derivative of a field stored as unsigned / narrow integers - the end stencils
    # of operators._1d_diff are evaluated in the storage kind and wrap around; generated only with VERIF_C04_NARROW_INT=1
    if case["kind"] == "dtype" and case["order"] == 2 and (case["dtype"] in DT_UNSIGNED or case.get("narrow")) and "stored as" in text:
        return "D130"
    # D17: periodic direction, restricted to valid cells, a valid run crossing the seam
    if case["kind"] in ("field1d", "sfield1d") and case["periodic"] and case.get("restrict", True) and "cyclic shift" in text:
        m = case_mask(case)
        if not all(m) and any(m):
            return "D17"
    return None


def search(case, rng):
    for k in range(400):
        L = rng.randint(1, 12)
        mask = [rng.random() < 0.7 for _ in range(L)]
        if k % 3 == 0:
            yield dict(kind="line", L=L, mask=mask, order=rng.choice([1, 2]), hexp=rng.randint(0, 3), sub=rng.getrandbits(32))
        elif k % 3 == 1:
            yield dict(kind="sline", L=L, mask=mask, order=rng.choice([1, 2]), sc=gen_scale(rng, False), sub=rng.getrandbits(32))
        else:
            yield s1d_case(rng, L, mask, rng.choice([1, 2]), rng.random() < 0.5, rng.random() < 0.7)
