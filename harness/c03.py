"""C03 — field algebra is cell-wise numpy algebra on one mesh; operands stay untouched.

Cases are expression trees over 1-4 fields (int / float / complex, explicit dtypes, random
labels, mappings, units, validity masks), numbers (Python and NumPy scalars), constant vectors
(list / tuple / ndarray) and per-cell arrays, in both operand orders.  `run_impl` evaluates the
tree through the public Field API node by node and checks, on the real code alone,

* cell by cell: the result's components at every cell equal the same expression evaluated by
  NumPy on that cell's component vectors (numbers / constant vectors / the cell's row of a
  per-cell array as they are) — the property's first sentence, literally;
* the result lives on the one mesh;
* every direct operand of every evaluation step, and every leaf at the end, is bit-for-bit what
  it was (array bytes, dtype, valid, vdims, vdim_mapping, unit, mesh state);
* at every `+` / `*` step the swapped evaluation gives the same field (array, validity, labels,
  mapping, mesh), or fails likewise;
* stacking the components of the result / of the leaves reproduces them;
* fields on different meshes or with incompatible component counts are refused;
* two-output ufunc calls (`np.divmod(f, g)`): both results cell by cell, validity, mesh, operands untouched, refusals;
* the other forms of the ufunc protocol (`stream_umethod`): `np.<ufunc>.reduce / .accumulate / .outer` on fields and binary
  ufunc calls with `out=<Field>`: an accepted call gives a field on the inputs' mesh whose array is the same NumPy call on the
  arrays and which is valid where all field inputs are; inputs stay untouched, the `out` field changes in its array only;
  the state of `out` after the call (also after a refused call) goes to the model as well.

The same tree goes to the Lean model (`evalF`) and everything observable is compared exactly.

Magnitudes (the values above are small integers and +-2^k of order one; nothing the code decides by the SIZE of a value -
np.isclose(x, 0), np.allclose defaults, "tiny means zero" guards, rounding "noise" away, a detour through single precision -
shows on them):

* `stream_scaled`: cases of the other streams with every leaf field multiplied by 2^k (k per group of fields: 1e-15 .. 1e12
  mostly, 1e-90 .. 1e60 at the ends; integer-typed leaves only upwards) and every number / constant vector / per-cell array
  by the power of two that keeps the expression homogeneous - significands untouched, so still an equality with the model;
* `stream_mfloat`: full-significand data (binary64 / binary32 / complex / integer leaves, NumPy and Python scalars incl.
  np.float32, lists, tuples, ndarrays of four dtypes), every operand at a magnitude of its own, numbers next to 0 and 1,
  zeros sprinkled in, angle of (anti)parallel vectors; reference = the expression evaluated by NumPy on the whole arrays under
  broadcasting with a running rounding-error bound (`Ref`), code and exact model value both within that bound;
* meshes at other length scales and places (`magnify_mesh`: cells 2^-48 .. 2^30, up to 2^20 cells from the origin) in every
  stream incl. the mismatch stream, and meshes with thousands of cells along one axis (`stream_long`).
"""
import operator
import os
import random
from fractions import Fraction
from functools import reduce

import numpy as np

from . import core, fieldio
from .core import Q, F

import discretisedfield as df

PID = "C03"
RULE = ("random expression trees (depth<=4 quick / <=6 thorough) over 1-4 leaf fields per mesh (1-4 dims, 1-4 components, "
        "float64/float32/int64/int32/complex128/complex64, default/custom/absent labels, default/custom/empty mappings, units, "
        "random validity), Python and NumPy scalars, list/tuple/ndarray constant vectors, per-cell ndarrays, forward and reflected "
        "operators, .dot/.cross/.angle/<<, complex parts, unary and binary ufuncs; exact regime (small integers, divisors +-2^k) so "
        "Fraction(impl) == model rational; angle/phase/tolerance-division through route (iii) with |err| <= 2^-40 scale; plus a malformed "
        "stream (wrong lengths, odd array shapes, lists into ufuncs, 2**f, scalar.dot(vector)), a mismatch stream (different meshes, "
        "component counts), a metadata stream (labelled scalars, differing labels) and a two-output-ufunc stream (np.divmod / np.modf "
        "on fields, numbers, arrays, lists, complex data, other meshes / counts: the tuple branch of __array_ufunc__) and a ufunc-method stream "
        "(np.add/multiply/maximum/minimum.reduce with every axis incl. None / out of range / counted from the end, keepdims on and off, "
        "scalar fields and single-cell axes where the call is the identity; .accumulate along every axis; .outer; binary ufunc calls with "
        "out=<Field>: same / narrower / wider component count, int / float / complex out dtypes incl. impossible casts, out on another mesh, "
        "out identical with an input, no field among the inputs, labelled scalar first - result AND the state of out after the call, also "
        "when the call is refused after out was written). MAGNITUDES: a rescaled "
        "stream (trees / angle / phase / tolerance division / divmod / metadata cases with all leaves times 2^k per field group, k from "
        "-300 to +200 i.e. 1e-90 .. 1e60, mostly 1e-15 .. 1e12, operands rescaled to keep the tree homogeneous: still exact, tags scaled:*), "
        "a full-significand stream in the tolerance regime (53/24-bit random significands, float64/float32/complex128/complex64/int64/"
        "int32/inferred dtypes, each operand at its own magnitude 1e-60 .. 1e60, np.float32 scalars, float32 arrays, numbers next to 0 and 1, "
        "zeros, angle with a field / multiple of itself / sum-difference / vector / per-cell array / number; reference = NumPy on the whole "
        "arrays with a running rounding bound, tags result-magnitude:*, angle:*), every stream's mesh at 40 % rescaled by 2^j "
        "(j -48 .. 30: picometre to gigametre cells) and moved up to 2^20 cells from the origin (tags mesh-scale:*), and shallow trees on "
        "meshes with 257 .. 4096 (thorough: 8191) cells along one axis (tag cells-along-longest-axis). non-trivial = the tree has an operation, "
        "evaluates to a field with >1 cell or >1 component and non-constant data")
TRUSTED = ["harness/c03.py + driver JSON glue (lean/DFV/Drv/C03.lean)",
           "NumPy elementwise functions, broadcasting, einsum, cross, stack, full: modelled by contract (bshape/bproj index maps)",
           "sqrt / arccos / complex argument are parameters of the model (Env.sq, Env.acos, Env.arg); the harness applies the "
           "float functions to exact model outputs (route iii)"]
ASSUMPTIONS = ["exact-regime inputs: every binary64 operation on the code path is exact (tracked by a static bit budget <= 50 bits), "
               "so equality is demanded", "IEEE special values (division by zero, 0**-1, signed zeros, angle of a zero vector or of "
               "(anti)parallel vectors rounding above 1) are outside the model; generators avoid them or the comparator only "
               "requires non-finite on both sides",
               "tolerance regime (kinds mtree / mangle): |code - NumPy reference| <= 4 * bound and |code - exact model value| <= 4 * bound, "
               "bound = first-order running rounding analysis of the reference evaluation (unit roundoff of each intermediate's dtype, "
               "conversions, underflow granularity, factor 4 per operation); entries whose reference or bound is not finite are undecided "
               "(tag undecided-cells); the angle is compared through its cosine (nan only where |cos| >= 1 - bound); a+b against b+a "
               "to rtol 1e-13 (1e-5 single) there, since fused multiply-add may round the two orders of a complex product differently",
               "integer data: values and integer-typed intermediates stay below 2^53 (int64) / 2^30 (int32) - wrap-around is outside the "
               "model, and beyond 2^53 the code is known to differ from NumPy (results are rebuilt as binary64; VERIF_C03_BIGINT=1 "
               "generates such data and demands equality)",
               "non-integer exponents, arccos/phase of complex values, labels clashing with Field attribute names, "
               "ndarray @/&/<< Field, ufunc.at / reduceat, where=, unary and two-output ufuncs with out= are outside the model and not generated "
               "(binary ufuncs with out=, reduce, accumulate, outer are modelled: stream_umethod)",
               "side condition LiftOk of the cell-wise theorems: an array-like directly under << / .angle() is not mesh-shaped "
               "(Field(mesh, value=array of shape mesh.n) reads it as per-cell scalars); such cases are still compared model-vs-code, "
               "only the per-cell oracle is skipped (tag mesh-shaped-operand-under-shl/angle)"]
UNPROVED = ["magnitude independence is a property of the CODE only: the model computes in exact rationals, where scaling is trivially "
            "harmless; that the binary64 code takes no decision by the size of a value (absolute tolerances, guards, rounding to decimals, "
            "narrower intermediate types) is established by the rescaled (exact) and full-significand (tolerance) streams, not by a theorem",
            "eval_pure (operand immutability) is a runtime fact: the functional model has it by construction; the code is checked by "
            "snapshots around every evaluation step (every operator, ufunc, two-output call and ufunc method, both operand orders; for "
            "out=<Field> only the array of that field may change - theorem out_state_kept is the model-side statement)",
            "comm_meta at full strength is false of the code (open findings D10 / D51, theorems comm_meta_fails / comm_meta_fails_scalar); "
            "comm_meta_iff / comm_same_field_iff now state the EXACT condition (labels and mapping of a∘b and b∘a agree iff the counts "
            "differ or both operands carry the same labels and mapping; everything else - mesh, count, unit, kind, values, validity - "
            "always agrees), so the violating inputs are exactly D10 ∪ D51",
            "acceptance asymmetry between Field∘ndarray (_apply_operator) and ndarray∘Field (__array_ufunc__) (open finding D52, theorem "
            "comm_accept_fails): array_operand_ok_iff gives the exact acceptance condition of either order for arrays of ARBITRARY shape; "
            "they differ for 0-d arrays, arrays that broadcast but fail _apply_operator's guard, and labelled scalar fields without mapping "
            "next to wider arrays - a violation of the a∘b = b∘a clause observed on the code; the model follows the code",
            "acceptance of whole trees (typed_total, typed_scalar_tree, typed_valid_leaves, laws_typed) is proved for the typing judgment "
            "HasTy: fields on ONE mesh (Mesh equal), numbers, vectors of length nvdim and arrays of shape n+[nvdim]; since round 2 also ** "
            "with field / vector / array exponents and np.power in both positions (when one of the two dtype kinds is not integer, or the "
            "exponent has no negative entry), << and angle with numbers / constant vectors / per-cell arrays, an unlabelled scalar field "
            "first in a ufunc call. NOT inside typed trees (only step-level equivalences + conditional eval_cellwise / eval_scalar_tree + "
            "correspondence): fields on meshes that are allclose but not equal (fields_ok_iff, ufunc_fields_close), other broadcastable "
            "array shapes n+[1], [1], 0-d (array_operand_ok_iff), integer fields raised to integer fields whose sign is only known from "
            "the data (pow_accepts_iff, binary_table), mesh-shaped array-likes directly under << / angle (side condition LiftOk)",
            "ufunc protocol: binary ufuncs with out=<Field>, reduce, accumulate, outer are in the model (reduce_ok_iff: accepted iff identity; "
            "accumulate_law; outer_rejected; out_entries / out_state_kept / out_accepts_meta); ufunc.at (mutates its first operand by "
            "design, returns None), reduceat, where=, unary and two-output ufuncs with out=, dtype= / casting= keywords are neither "
            "modelled nor generated. Observation, model follows the code (theorem out_written_then_refused): np.add(s, s, out=h) with a "
            "labelled scalar field s and a wider field h overwrites h.array and then raises NotImplementedError; the mesh of an out= "
            "field is never compared with the inputs' mesh, and its validity mask is never updated (tags out:written-then-refused, "
            "out:on-another-mesh-accepted)"]
BUDGET = {"quick": 100, "thorough": 1100}

LABELS = ["a", "b", "c", "p", "q", "mx", "my", "mz", "ft_x", "ft_y", "s1", "t2", "x", "y", "z"]
DTYPES = {"float64": np.float64, "float32": np.float32, "int64": np.int64, "int32": np.int32,
          "complex128": np.complex128, "complex64": np.complex64}
PYTH = [(3, 4), (4, 3), (-3, 4), (4, -3), (0, 5), (5, 0), (-5, 0), (0, -2), (6, 8), (-8, 6), (5, 12), (0, 0), (3, -4), (1, 0), (0, 1)]
POW2 = [Fraction(1), Fraction(-1), Fraction(2), Fraction(-2), Fraction(4), Fraction(-4), Fraction(1, 2), Fraction(-1, 2)]
UFUNC2 = {"uadd": np.add, "usub": np.subtract, "umul": np.multiply, "udiv": np.divide, "umax": np.maximum,
          "umin": np.minimum, "upow": np.power}
UFUNC1 = {"unegative": np.negative, "upositive": np.positive, "uabsolute": np.absolute, "usquare": np.square,
          "uconjugate": np.conjugate, "usign": np.sign}
PYOP = {"add": operator.add, "sub": operator.sub, "mul": operator.mul, "div": operator.truediv, "pow": operator.pow,
        "dot": operator.matmul, "cross": operator.and_, "shl": operator.lshift}
ELEM = ("add", "sub", "mul", "div", "pow")


def kind_of_dtype(dt):
    k = np.dtype(dt).kind
    return {"c": "complex", "f": "float", "i": "int", "u": "int", "b": "int"}[k]


# ====================================================================== generators
class G:
    """a generated subtree with the static facts the generator steers by"""

    def __init__(self, node, nv, hi, lo, pow2=False, cplx=False, pyth=False, field=True, nonneg_int=False, shape=None):
        self.node, self.nv, self.hi, self.lo = node, nv, hi, lo
        self.pow2, self.cplx, self.pyth, self.field, self.nonneg_int, self.shape = pow2, cplx, pyth, field, nonneg_int, shape


def gen_values(rng, count, cls, cplx):
    """(re list, im list|None) of exact small values of a class"""
    if cls == "pyth":
        pairs = [rng.choice(PYTH) for _ in range(count)]
        return [Q(p[0]) for p in pairs], [Q(p[1]) for p in pairs]
    if cls == "pow2":
        vals = [rng.choice(POW2) for _ in range(count)]
        if cplx:
            flip = [rng.random() < 0.4 for _ in range(count)]
            return [Q(0) if f else Q(v) for v, f in zip(vals, flip)], [Q(v) if f else Q(0) for v, f in zip(vals, flip)]
        return [Q(v) for v in vals], None
    if cls == "exp":
        return [Q(rng.randint(0, 2)) for _ in range(count)], None
    re = [Q(rng.randint(-4, 4)) for _ in range(count)]
    im = [Q(rng.randint(-3, 3)) for _ in range(count)] if cplx else None
    return re, im


def gen_field_spec(rng, mesh_idx, ncells, ndim, dims, nv=None, cls=None, dtype=None, labels=None):
    nv = nv or rng.choice([1, 1, 2, 3, 3, 3, 4])
    dtype = dtype if dtype is not None else rng.choice([None, None, None, "float64", "float32", "int64", "int32", "int64",
                                                        "complex128", "complex128", "complex64", "cvalue"])
    cplx = dtype in ("complex128", "complex64", "cvalue")
    cls = cls or rng.choice(["int", "int", "int", "pow2", "pyth" if cplx else "int", "exp" if (not cplx and nv == 1) else "int"])
    if cls == "pyth" and (not cplx or dtype == "complex64"):
        cls = "int"  # hypot in single precision is not exact on Pythagorean pairs
    if cls == "pow2" and dtype in ("int64", "int32"):
        cls = "int"
    re, im = gen_values(rng, ncells * nv, cls, cplx)
    # labels
    vdims = None
    mode = labels or rng.choice(["default", "default", "custom", "custom", "custom", "empty" if nv > 1 else "default"])
    if nv == 1:
        mode = labels or rng.choice(["default"] * 6 + ["custom"])
    if mode == "custom":
        vdims = rng.sample(LABELS, nv)
    elif mode == "empty":
        vdims = []
    # mapping
    vmap = None
    mm = rng.choice(["none", "none", "none", "custom", "empty"])
    eff = vdims if vdims else (None if (nv == 1 or mode == "empty") else (["x", "y", "z"][:nv] if nv <= 3 else [f"v{i}" for i in range(nv)]))
    if mm == "custom" and eff:
        targets = list(dims) + [None]
        vmap = [[l, rng.choice(targets)] for l in eff]
    elif mm == "empty":
        vmap = []
    if mode == "empty" and nv == ndim and vmap is None:
        vmap = []  # Field(vdims=[]) with nvdim == ndim cannot build its default mapping (constructor error)
    density = rng.choice([1.0, 1.0, 0.9, 0.7, 0.5, 0.2])
    valid = [rng.random() < density for _ in range(ncells)]
    return dict(mesh=mesh_idx, nvdim=nv, dtype=dtype, cls=cls, re=re, im=im, vdims=vdims, vmap=vmap,
                unit=rng.choice([None, None, "T", "A/m"]), valid=valid)


def spec_info(k, fs):
    cplx = fs["im"] is not None
    hi = {"int": 3, "pow2": 3, "pyth": 5, "exp": 2}[fs["cls"]]
    lo = -1 if fs["cls"] == "pow2" else 0
    return G(dict(t="leaf", k=k), fs["nvdim"], hi + (1 if cplx else 0), lo, pow2=fs["cls"] == "pow2", cplx=cplx,
             pyth=fs["cls"] == "pyth", nonneg_int=fs["cls"] == "exp")


def gen_num(rng, pow2=False, allow_cplx=True, nonneg_int=False):
    py = rng.choice(["int", "int", "float", "float", "complex", "np.float64", "np.int64", "np.complex128"])
    if not allow_cplx and "complex" in py:
        py = "float"
    if nonneg_int:
        v, im = Fraction(rng.randint(0, 3)), Fraction(0)
        py = rng.choice(["int", "float", "np.float64", "np.int64"])
    elif pow2:
        v, im = rng.choice(POW2), Fraction(0)
        if "int" in py and v.denominator != 1:
            py = "float"
        if "complex" in py and rng.random() < 0.5:
            v, im = Fraction(0), v
    else:
        v = Fraction(rng.randint(-4, 4))
        im = Fraction(rng.randint(-3, 3)) if "complex" in py else Fraction(0)
    node = dict(t="num", v=[Q(v), Q(im)], py=py)
    return G(node, "num", 3, -1 if pow2 else 0, pow2=pow2, cplx="complex" in py, field=False, nonneg_int=nonneg_int)


def gen_arr(rng, shape, pow2=False, allow_cplx=True, py=None, cls=None):
    py = py or rng.choice(["list", "tuple", "ndarray", "ndarray"])
    dtype = rng.choice(["float64", "float64", "int64", "complex128"])
    if not allow_cplx and dtype == "complex128":
        dtype = "float64"
    cplx = dtype == "complex128"
    cls = cls or ("pow2" if pow2 else "int")
    if cls == "pow2" and dtype == "int64":
        dtype = "float64"
    count = int(np.prod(shape)) if shape else 1
    re, im = gen_values(rng, count, cls, cplx)
    if cls == "int" and rng.random() < 0.04:
        re, im = ["0"] * count, (["0"] * count if cplx else None)   # the zero vector / an all-zero array as an operand
    node = dict(t="arr", shape=list(shape), re=re, im=im, py=py, dtype=dtype)
    return G(node, ("vec", shape[-1]) if len(shape) == 1 else ("arr", shape[-1] if shape else 0), 3 + (1 if cplx else 0),
             -1 if cls == "pow2" else 0, pow2=cls == "pow2", cplx=cplx, field=False, shape=list(shape))


class TreeGen:
    def __init__(self, rng, fields, n, maxdepth, allow_cplx=True):
        self.rng, self.fields, self.n, self.maxdepth = rng, fields, list(n), maxdepth
        self.infos = [spec_info(k, fs) for k, fs in enumerate(fields)]
        self.allow_cplx = allow_cplx

    def num(self, **kw):
        kw.setdefault("allow_cplx", self.allow_cplx)
        return gen_num(self.rng, **kw)

    def arr(self, shape, **kw):
        kw.setdefault("allow_cplx", self.allow_cplx)
        return gen_arr(self.rng, shape, **kw)

    def leaf(self, want=None):
        cand = [g for g in self.infos if want is None or want(g)]
        return self.rng.choice(cand) if cand else None

    def budget_ok(self, hi, lo):
        return hi - lo <= 50 and hi <= 60 and lo >= -40

    def operand_for(self, L, pow2=False):
        """a non-field operand compatible with field subtree L"""
        rng = self.rng
        r = rng.random()
        if r < 0.4:
            return self.num(pow2=pow2)
        if r < 0.75:
            k = L.nv if L.nv != 1 else rng.choice([1, 2, 3])
            return self.arr([k], pow2=pow2)
        m = L.nv if L.nv != 1 else rng.choice([1, 2, 3])
        return self.arr(self.n + [m], pow2=pow2, py="ndarray")

    def pow2_tree(self, depth, nv):
        """a field subtree all of whose values are +-2^k (times i), with nv components or scalar"""
        rng = self.rng
        lf = self.leaf(lambda g: g.pow2 and (g.nv == nv or g.nv == 1))
        if lf is None:
            return None
        if depth <= 0 or rng.random() < 0.5:
            return lf
        other = self.pow2_tree(depth - 1, nv)
        if other is None:
            return lf
        op = rng.choice(["mul", "div", "neg"])
        if op == "neg":
            return G(dict(t="un", op="neg", e=lf.node), lf.nv, lf.hi, lf.lo, pow2=True, cplx=lf.cplx)
        nvr = max(lf.nv, other.nv)
        if op == "mul":
            hi, lo = lf.hi + other.hi + 1, lf.lo + other.lo
        else:
            hi, lo = lf.hi - other.lo + 1, lf.lo - other.hi
        if not self.budget_ok(hi, lo):
            return lf
        return G(dict(t="bin", op=op, l=lf.node, r=other.node), nvr, hi, lo, pow2=True, cplx=lf.cplx or other.cplx)

    def gen(self, depth):
        rng = self.rng
        if depth <= 0 or rng.random() < 0.18:
            return self.leaf()
        r = rng.random()
        if r < 0.16:
            return self.unary(depth)
        if r < 0.24:
            return self.ufunc1(depth)
        if r < 0.62:
            return self.elementwise(depth)
        if r < 0.72:
            return self.ufunc2(depth)
        if r < 0.80:
            return self.dot(depth)
        if r < 0.87:
            return self.cross(depth)
        return self.shl(depth)

    # -- unary
    def unary(self, depth):
        rng = self.rng
        e = self.gen(depth - 1)
        op = rng.choice(["pos", "neg", "neg", "abs", "abs", "real", "imag", "conj", "absP"])
        if op in ("abs", "absP") and e.cplx and not e.pyth:
            op = "conj"
        pyth = e.pyth and op in ("neg", "conj", "pos")
        cplx = e.cplx and op in ("pos", "neg", "conj")
        return G(dict(t="un", op=op, e=e.node), e.nv, e.hi, e.lo, pow2=e.pow2 and op in ("pos", "neg", "abs", "conj", "absP"),
                 cplx=cplx, pyth=pyth, nonneg_int=e.nonneg_int and op in ("pos", "abs", "real", "conj", "absP"))

    def ufunc1(self, depth):
        rng = self.rng
        e = self.gen(depth - 1)
        op = rng.choice(list(UFUNC1))
        if op == "uabsolute" and e.cplx and not e.pyth:
            op = "uconjugate"
        if op == "usign" and e.cplx and not e.pow2:
            op = "uconjugate"  # z/|z| is exact only for axis-aligned values
        hi, lo = e.hi, e.lo
        if op == "usquare":
            hi, lo = 2 * e.hi + 1, 2 * e.lo
            if not self.budget_ok(hi, lo):
                op, hi, lo = "unegative", e.hi, e.lo
        if op == "usign":
            hi, lo = 1, 0
        cplx = e.cplx and op not in ("uabsolute",)
        return G(dict(t="un", op=op, e=e.node), e.nv, hi, lo, pow2=e.pow2 and op in ("unegative", "upositive", "uabsolute", "uconjugate"),
                 cplx=cplx, pyth=e.pyth and op in ("unegative", "upositive", "uconjugate"))

    # -- elementwise binary operators
    def elementwise(self, depth):
        rng = self.rng
        L = self.gen(depth - 1)
        op = rng.choice(["add", "add", "sub", "mul", "mul", "div", "pow"])
        if op == "div":
            R = None
            if rng.random() < 0.5:
                R = self.pow2_tree(depth - 2, L.nv)
            if R is None:
                R = self.operand_for(L, pow2=True)
            hi, lo = L.hi - R.lo + 1 + (1 if (L.cplx or R.cplx) else 0), L.lo - R.hi
            if not self.budget_ok(hi, lo):
                return L
            if (not R.field) and rng.random() < 0.25 and L.pow2:
                # reflected: operand / field (field must be a safe divisor)
                R2 = self.operand_for(L, pow2=rng.random() < 0.5)
                hi, lo = R2.hi - L.lo + 2, R2.lo - L.hi
                if self.budget_ok(hi, lo):
                    return self.mk_bin("div", R2, L, hi, lo, pow2=R2.pow2)
            return self.mk_bin("div", L, R, hi, lo, pow2=L.pow2)
        if op == "pow":
            if rng.random() < 0.75:
                if L.pow2 and rng.random() < 0.4:
                    k = rng.choice([-1, -2, -1, 2])
                    py = rng.choice(["int", "float", "np.float64"])
                else:
                    k = rng.choice([0, 1, 2, 2, 3])
                    py = rng.choice(["int", "int", "float", "np.float64", "np.int64"])
                R = G(dict(t="num", v=[Q(k), "0"], py=py), "num", 2, 0, field=False)
                ak = abs(k)
                hi, lo = (ak * L.hi + ak, ak * L.lo) if k >= 0 else (-ak * L.lo + ak, -ak * L.hi - ak)
            else:
                R = self.leaf(lambda g: g.nonneg_int and (g.nv == L.nv or g.nv == 1 or L.nv == 1))
                if R is None:
                    R = self.arr([L.nv if L.nv != 1 else rng.choice([1, 2])], allow_cplx=False, cls="exp")
                hi, lo = 2 * L.hi + 2, min(2 * L.lo, 0)
            if not self.budget_ok(hi, lo):
                return L
            return self.mk_bin("pow", L, R, hi, lo, pow2=L.pow2 and R.field is False and R.nv == "num")
        # add / sub / mul
        if rng.random() < 0.55:
            R = None
            for _ in range(4):
                c = self.gen(depth - 1)
                if c.nv == L.nv or c.nv == 1 or L.nv == 1:
                    R = c
                    break
            if R is None:
                R = self.operand_for(L)
        else:
            R = self.operand_for(L)
        if op == "mul":
            hi, lo = L.hi + R.hi + 1, L.lo + R.lo
        else:
            hi, lo = max(L.hi, R.hi) + 1, min(L.lo, R.lo)
        if not self.budget_ok(hi, lo):
            op, hi, lo = "add", max(L.hi, R.hi) + 1, min(L.lo, R.lo)
            if not self.budget_ok(hi, lo):
                return L
        a, b = (L, R)
        if rng.random() < (0.45 if not R.field else 0.5):
            a, b = R, L  # both operand orders: reflected operators / ufunc dispatch for NumPy objects
        return self.mk_bin(op, a, b, hi, lo, pow2=op == "mul" and L.pow2 and R.pow2)

    def mk_bin(self, op, a, b, hi, lo, pow2=False, nv=None):
        if nv is None:
            def cnt(g):
                if g.field:
                    return g.nv
                if g.nv == "num":
                    return 1
                return g.nv[1]
            nv = max(cnt(a), cnt(b))
        return G(dict(t="bin", op=op, l=a.node, r=b.node), nv, hi, lo, pow2=pow2, cplx=a.cplx or b.cplx)

    def ufunc2(self, depth):
        rng = self.rng
        L = self.gen(depth - 1)
        op = rng.choice(["uadd", "usub", "umul", "umax", "umin", "udiv", "upow"])
        if op in ("umax", "umin") and L.cplx and rng.random() < 0.7:
            op = "uadd"
        if op == "udiv":
            R = self.pow2_tree(depth - 2, L.nv) or self.num(pow2=True)
            hi, lo = L.hi - R.lo + 2, L.lo - R.hi
        elif op == "upow":
            R = self.num(nonneg_int=True)
            hi, lo = 3 * L.hi + 3, min(3 * L.lo, 0)
        else:
            r = rng.random()
            R = None
            if r < 0.5:
                for _ in range(4):
                    c = self.gen(depth - 1)
                    if c.nv == L.nv or c.nv == 1 or L.nv == 1:
                        R = c
                        break
            if R is None:
                if rng.random() < 0.5:
                    R = self.num()
                elif rng.random() < 0.5:
                    R = self.arr([rng.choice([L.nv, 1]) if L.nv != 1 else rng.choice([1, 3])], py="ndarray")
                else:
                    R = self.arr(self.n + [rng.choice([L.nv, 1]) if L.nv != 1 else rng.choice([1, 2])], py="ndarray")
            if op == "umul":
                hi, lo = L.hi + R.hi + 1, L.lo + R.lo
            else:
                hi, lo = max(L.hi, R.hi) + 1, min(L.lo, R.lo)
        if not self.budget_ok(hi, lo):
            return L
        a, b = (L, R)
        if op not in ("udiv", "upow") and rng.random() < 0.4:
            a, b = R, L
        return self.mk_bin(op, a, b, hi, lo)

    def dot(self, depth):
        rng = self.rng
        L = self.gen(depth - 1)
        R = None
        if rng.random() < 0.55:
            for _ in range(4):
                c = self.gen(depth - 1)
                if c.nv == L.nv:
                    R = c
                    break
        if R is None:
            R = self.arr([L.nv])
        hi, lo = L.hi + R.hi + 3, L.lo + R.lo
        if not self.budget_ok(hi, lo):
            return L
        a, b = (L, R)
        form = rng.choice(["op", "method"])
        if not R.field and rng.random() < 0.35 and R.node["py"] != "ndarray":
            a, b, form = R, L, "op"
        g = self.mk_bin("dot", a, b, hi, lo, nv=1)
        g.node["form"] = form
        return g

    def cross(self, depth):
        rng = self.rng
        L = None
        for _ in range(5):
            c = self.gen(depth - 1)
            if c.nv == 3:
                L = c
                break
        if L is None:
            return self.gen(depth - 1)
        R = None
        if rng.random() < 0.5:
            for _ in range(5):
                c = self.gen(depth - 1)
                if c.nv == 3:
                    R = c
                    break
        if R is None:
            R = self.arr([3])
        hi, lo = L.hi + R.hi + 2, L.lo + R.lo
        if not self.budget_ok(hi, lo):
            return L
        a, b = (L, R)
        form = rng.choice(["op", "method"])
        if not R.field and rng.random() < 0.35 and R.node["py"] != "ndarray":
            a, b, form = R, L, "op"
        g = self.mk_bin("cross", a, b, hi, lo, nv=3)
        g.node["form"] = form
        return g

    def shl(self, depth):
        rng = self.rng
        L = self.gen(depth - 1)
        r = rng.random()
        if r < 0.55:
            R = self.gen(depth - 1)
        elif r < 0.8:
            R = self.num()
        else:
            R = self.arr([rng.choice([1, 2, 3])], py=rng.choice(["list", "tuple", "ndarray"]))
        a, b = (L, R)
        if not R.field and rng.random() < 0.35 and R.node["py"] not in ("ndarray", "np.float64", "np.int64", "np.complex128"):
            a, b = R, L
        cnt = lambda g: g.nv if g.field else (1 if g.nv == "num" else g.nv[1])
        return self.mk_bin("shl", a, b, max(L.hi, R.hi), min(L.lo, R.lo), nv=cnt(L) + cnt(R))


def magnify_mesh(rng, spec, far=None):
    """the same mesh at another length scale and place: corners and cells times 2^j (nanometre and picometre cells, kilometre
    cells), the region moved by up to 2^20 cells along one axis - all exactly, so cells, faces and the one-cell shifts of the
    mismatch stream keep their exact relations while absolute tolerances (np.allclose defaults) and tolerances relative to
    the distance from the origin would show"""
    ndim = len(spec["n"])
    p1, p2 = [Fraction(x) for x in spec["p1"]], [Fraction(x) for x in spec["p2"]]
    j = rng.choice([rng.randint(-48, -20), rng.randint(-48, -20), rng.randint(-20, -4), rng.randint(4, 30), 0])
    if (rng.random() < 0.4) if far is None else far:
        ax = rng.randrange(ndim)
        cell = (p2[ax] - p1[ax]) / spec["n"][ax]
        off = cell * rng.choice([-1, 1]) * 2 ** rng.choice([rng.randint(6, 20), rng.randint(16, 20)])
        p1[ax], p2[ax] = p1[ax] + off, p2[ax] + off
        far = True
    else:
        far = False
    m = Fraction(2) ** j
    out = dict(spec, p1=[float(x * m) for x in p1], p2=[float(x * m) for x in p2], mag=[j, far])
    assert [Fraction(x) for x in out["p1"]] == [x * m for x in p1] and [Fraction(x) for x in out["p2"]] == [x * m for x in p2]
    return out


def gen_env(rng, tier, nfields=None, same_nv=False):
    spec = fieldio.gen_mesh_spec(rng, max_cells=30 if tier == "quick" else 48, nmax=4 if tier == "quick" else 5)
    spec["bc"] = ""
    if rng.random() < 0.4:
        spec = magnify_mesh(rng, spec)
    n = spec["n"]
    ndim = len(n)
    dims = spec["dims"] or (["x", "y", "z"][:ndim] if ndim <= 3 else [f"x{i}" for i in range(ndim)])
    ncells = int(np.prod(n))
    K = rng.choice([1, 2, 3, 3, 3, 4])
    fields = []
    for j in range(nfields or rng.choice([1, 2, 2, 3, 3, 4])):
        nv = K if (same_nv or rng.random() < 0.55) else rng.choice([1, 1, 2, 3, 4])
        fields.append(gen_field_spec(rng, 0, ncells, ndim, dims, nv=nv))
    # make sure a safe divisor and (for scalar exponents) an exponent field are often around
    if rng.random() < 0.6:
        fields.append(gen_field_spec(rng, 0, ncells, ndim, dims, nv=rng.choice([1, K]), cls="pow2",
                                     dtype=rng.choice([None, "float64", "float32", "complex128"])))
    return spec, dims, fields


def malformed_tree(rng, fields, n, depth):
    """random trees that ignore compatibility: mostly refused, sometimes odd broadcasting"""
    tg = TreeGen(rng, fields, n, depth)

    def odd_arr():
        shapes = [[rng.randint(1, 4)], list(n), list(n) + [rng.randint(1, 3)], [1] * len(n) + [rng.randint(1, 3)], [n[0]],
                  [], [rng.randint(1, 3), rng.randint(1, 3)], list(n[1:]) + [rng.randint(1, 3)], [1, 1]]
        shape = rng.choice(shapes)
        return gen_arr(rng, shape, py=rng.choice(["list", "ndarray", "ndarray", "tuple"]) if shape else "ndarray")

    def go(d):
        if d <= 0 or rng.random() < 0.3:
            r = rng.random()
            if r < 0.6:
                return tg.leaf()
            if r < 0.8:
                return gen_num(rng)
            return odd_arr()
        r = rng.random()
        if r < 0.2:
            e = go(d - 1)
            op = rng.choice(["pos", "neg", "abs", "real", "imag", "conj", "absP"] + list(UFUNC1))
            if op in ("abs", "absP", "uabsolute", "usign") and e.cplx:
                op = "neg"
            if not e.field:
                return e
            return G(dict(t="un", op=op, e=e.node), e.nv, 30, 0, cplx=e.cplx and op not in ("real", "imag"), field=e.field)
        a, b = go(d - 1), go(d - 1)
        if not a.field and not b.field:
            a = tg.leaf()
        op = rng.choice(["add", "sub", "mul", "pow", "dot", "cross", "shl", "uadd", "umul", "umax", "usub", "add", "mul"])
        if op == "pow":
            b = gen_num(rng, nonneg_int=True)
            if not a.field:
                a = tg.leaf()
        if op in ("dot", "cross", "shl") and not a.field and b.field and b.node.get("t") is not None:
            if a.node.get("py") in ("ndarray", "np.float64", "np.int64", "np.complex128"):
                a, b = b, a  # ndarray @ / & / << Field is outside the model
        node = dict(t="bin", op=op, l=a.node, r=b.node)
        if op in ("dot", "cross"):
            node["form"] = "op" if not a.field else rng.choice(["op", "method"])
        return G(node, None, 30, 0, cplx=a.cplx or b.cplx, field=True)

    for _ in range(10):
        g = go(depth)
        if g.field and g.node["t"] != "leaf":
            return g
    return tg.leaf()


def stream_main(rng, tier, count):
    quick = tier == "quick"
    maxdepth = 4 if quick else 6
    # ---- main stream: mostly valid trees
    for _ in range(count):
        spec, dims, fields = gen_env(rng, tier)
        tg = TreeGen(rng, fields, spec["n"], maxdepth)
        g = tg.gen(rng.randint(1, maxdepth))
        tries = 0
        while g.node["t"] == "leaf" and tries < 3:
            g = tg.gen(rng.randint(1, maxdepth))
            tries += 1
        yield dict(kind="tree", meshes=[spec], fields=fields, expr=g.node)


def stream_route3(rng, tier, count):
    # ---- route (iii): angle / phase at the root, tolerance division
    for _ in range(count):
        spec, dims, fields = gen_env(rng, tier, same_nv=True)
        fields = [f for f in fields if f["im"] is None] or [gen_field_spec(rng, 0, int(np.prod(spec["n"])), len(spec["n"]), dims, dtype="float64")]
        tg = TreeGen(rng, fields, spec["n"], 2, allow_cplx=False)
        which = rng.choice(["angle", "angle", "phase", "tdiv"])
        if which == "angle":
            L = tg.gen(rng.randint(0, 2))
            r = rng.random()
            R = None
            if r < 0.6:
                for _ in range(5):
                    c = tg.gen(rng.randint(0, 2))
                    if c.nv == L.nv:
                        R = c
                        break
            if R is None:
                R = gen_arr(rng, [L.nv], allow_cplx=False) if (L.nv > 1 or rng.random() < 0.5) else gen_num(rng, allow_cplx=False)
            yield dict(kind="angle", meshes=[spec], fields=fields, expr=dict(t="bin", op="angle", l=L.node, r=R.node))
        elif which == "phase":
            spec2, dims2, fields2 = gen_env(rng, tier)
            tg2 = TreeGen(rng, fields2, spec2["n"], 2)
            e = tg2.gen(rng.randint(0, 2))
            yield dict(kind="phase", meshes=[spec2], fields=fields2, expr=dict(t="un", op="phase", e=e.node))
        else:
            L = tg.gen(rng.randint(0, 2))
            R = None
            for _ in range(5):
                c = tg.gen(rng.randint(0, 1))
                if c.nv == L.nv or c.nv == 1:
                    R = c
                    break
            if R is None:
                R = gen_num(rng, allow_cplx=False)
            op = rng.choice(["div", "div", "udiv"])
            yield dict(kind="tdiv", meshes=[spec], fields=fields, expr=dict(t="bin", op=op, l=L.node, r=R.node))


def stream_malformed(rng, tier, count):
    # ---- malformed stream
    for _ in range(count):
        spec, dims, fields = gen_env(rng, tier)
        g = malformed_tree(rng, fields, spec["n"], rng.randint(1, 3))
        yield dict(kind="malformed", meshes=[spec], fields=fields, expr=g.node)


def stream_mismatch(rng, tier, count):
    # ---- mismatch stream: different meshes / component counts under every binary operation (operators and ufuncs)
    for _ in range(count):
        spec, dims, _ = gen_env(rng, tier, nfields=1)
        n = spec["n"]
        ndim = len(n)
        ncells = int(np.prod(n))
        how = rng.choice(["shift", "shift", "n", "dims", "units", "same-copy", "nvdim", "nvdim", "bigshift", "bc"])
        if how in ("shift", "bigshift") and "mag" not in spec and rng.random() < 0.6:
            # meshes a cell apart where that is little against the cell's own size or against the distance from the origin
            spec = magnify_mesh(rng, spec, far=rng.random() < 0.6)
        spec2 = dict(spec)
        if how in ("shift", "bigshift"):
            ax = rng.randrange(ndim)
            cell = (Fraction(spec["p2"][ax]) - Fraction(spec["p1"][ax])) / n[ax]
            d = cell * (rng.choice([1, 2, -1]) if how == "shift" else 64)
            spec2["p1"] = [float(Fraction(v) + (d if a == ax else 0)) for a, v in enumerate(spec["p1"])]
            spec2["p2"] = [float(Fraction(v) + (d if a == ax else 0)) for a, v in enumerate(spec["p2"])]
        elif how == "n":
            ax = rng.randrange(ndim)
            spec2["n"] = [k + (1 if a == ax else 0) for a, k in enumerate(n)]
        elif how == "dims":
            spec2["dims"] = rng.sample(["d0", "d1", "d2", "d3", "d4"], ndim)
        elif how == "units":
            spec2["units"] = ["nm"] * ndim
        elif how == "bc":
            spec2["bc"] = "neumann"
        nv1 = rng.choice([1, 2, 3, 3, 4])
        nv2 = nv1 if how != "nvdim" else rng.choice([k for k in (1, 2, 3, 4) if k != nv1])
        ncells2 = int(np.prod(spec2["n"]))
        dims2 = spec2["dims"] or dims
        f1 = gen_field_spec(rng, 0, ncells, ndim, dims, nv=nv1)
        f2 = gen_field_spec(rng, 1, ncells2, ndim, dims2, nv=nv2)
        op = rng.choice(["add", "sub", "mul", "div", "pow", "dot", "cross", "shl", "angle", "uadd", "umul", "umax", "usub"])
        if op in ("div", "pow"):
            f2 = gen_field_spec(rng, 1, ncells2, ndim, dims2, nv=nv2, cls="pow2" if op == "div" else ("exp" if nv2 == 1 else "int"),
                                dtype="float64")
            if op == "pow" and f2["cls"] != "exp":
                op = "mul"
        if op == "angle":
            f1 = gen_field_spec(rng, 0, ncells, ndim, dims, nv=nv1, dtype="float64", cls="pow2")
            f2 = gen_field_spec(rng, 1, ncells2, ndim, dims2, nv=nv2, dtype="float64", cls="pow2")
        node = dict(t="bin", op=op, l=dict(t="leaf", k=0), r=dict(t="leaf", k=1))
        if op in ("dot", "cross"):
            node["form"] = rng.choice(["op", "method"])
        if rng.random() < 0.3 and op not in ("angle",):
            node = dict(t="un", op="neg", e=node)
        yield dict(kind="angle" if op == "angle" else "mismatch", how=how, meshes=[spec, spec2], fields=[f1, f2], expr=node)


def stream_meta(rng, tier, count):
    # ---- metadata stream: a∘b vs b∘a, labelled scalars, differing labels
    for _ in range(count):
        spec, dims, _ = gen_env(rng, tier, nfields=1)
        n = spec["n"]
        ndim = len(n)
        ncells = int(np.prod(n))
        nv1 = rng.choice([1, 1, 2, 3, 3, ndim])
        nv2 = rng.choice([nv1, nv1, 1])
        f1 = gen_field_spec(rng, 0, ncells, ndim, dims, nv=nv1, labels=rng.choice(["default", "custom", "custom"]))
        f2 = gen_field_spec(rng, 0, ncells, ndim, dims, nv=nv2, labels=rng.choice(["default", "custom", "custom"]))
        if rng.random() < 0.3:
            f2["vdims"], f2["vmap"] = f1["vdims"] if nv1 == nv2 else f2["vdims"], (f1["vmap"] if nv1 == nv2 else f2["vmap"])
        op = rng.choice(["add", "mul"])
        yield dict(kind="tree", meshes=[spec], fields=[f1, f2],
                   expr=dict(t="bin", op=op, l=dict(t="leaf", k=0), r=dict(t="leaf", k=1)))


def stream_stack(rng, tier, count):
    # ---- stacking the components of one field
    for _ in range(count):
        spec, dims, _ = gen_env(rng, tier, nfields=1)
        n = spec["n"]
        f1 = gen_field_spec(rng, 0, int(np.prod(n)), len(n), dims, nv=rng.choice([1, 2, 3, 3, 4, len(n)]))
        yield dict(kind="stack", meshes=[spec], fields=[f1])


def stream_pair(rng, tier, count):
    # ---- two-output ufuncs: the tuple branch of __array_ufunc__ (np.divmod(l, r), np.modf(f))
    for _ in range(count):
        spec, dims, _ = gen_env(rng, tier, nfields=1)
        n = spec["n"]
        ndim = len(n)
        ncells = int(np.prod(n))
        how = rng.choice(["ff", "ff", "ff", "ff", "ff", "fs", "fs", "sf", "sf-labelled", "fnum", "numf", "farr", "arrf", "flist",
                          "modf", "cplx", "mesh", "nvdim", "same-leaf"])
        nv = rng.choice([1, 2, 3, 3, 4])
        nv1 = 1 if how in ("sf", "sf-labelled") else nv
        nv2 = 1 if how == "fs" else nv
        if how in ("sf", "sf-labelled"):
            nv2 = rng.choice([2, 3, 4])
        if how == "nvdim":
            nv1, nv2 = rng.sample([2, 3, 4], 2)
        meshes = [spec]
        if how == "mesh":
            ax = rng.randrange(ndim)
            cell = (Fraction(spec["p2"][ax]) - Fraction(spec["p1"][ax])) / n[ax]
            spec2 = dict(spec)
            spec2["p1"] = [float(Fraction(v) + (cell if a == ax else 0)) for a, v in enumerate(spec["p1"])]
            spec2["p2"] = [float(Fraction(v) + (cell if a == ax else 0)) for a, v in enumerate(spec["p2"])]
            meshes.append(spec2)
        # dividend: small integers of a real (or, for `cplx`, complex) dtype; divisor: non-zero +-2^k, float dtype
        f1 = gen_field_spec(rng, 0, ncells, ndim, dims, nv=nv1, cls="int",
                            dtype="complex128" if how == "cplx" else rng.choice(["float64", "float64", "float32", "int64", "int32"]),
                            labels="custom" if how == "sf-labelled" else ("default" if how == "sf" else None))
        f2 = gen_field_spec(rng, len(meshes) - 1, ncells, ndim, dims, nv=nv2, cls="pow2", dtype=rng.choice(["float64", "float64", "float32"]))
        l, r = dict(t="leaf", k=0), dict(t="leaf", k=1)
        if how == "fnum":
            r = gen_num(rng, pow2=True, allow_cplx=False).node
        elif how == "numf":
            l, r = gen_num(rng, allow_cplx=False).node, dict(t="leaf", k=1)
        elif how in ("farr", "arrf", "flist"):
            shape = rng.choice([[nv], list(n) + [nv]])
            a = gen_arr(rng, shape, pow2=True, allow_cplx=False, py="list" if how == "flist" else "ndarray").node
            if how == "arrf":
                a = gen_arr(rng, shape, allow_cplx=False, py="ndarray").node
                l, r = a, dict(t="leaf", k=1)
            else:
                r = a
        elif how == "same-leaf":
            l = r = dict(t="leaf", k=1)
        yield dict(kind="pair", fn="modf" if how == "modf" else "divmod", how=how, meshes=meshes, fields=[f1, f2], l=l, r=r)


UMETHOD_FN = {"uadd": np.add, "usub": np.subtract, "umul": np.multiply, "udiv": np.divide, "umax": np.maximum, "umin": np.minimum}


def stream_umethod(rng, tier, count):
    # ---- the other forms of the ufunc protocol: np.<ufunc>.reduce / .accumulate / .outer on fields and calls with out=<Field>
    for _ in range(count):
        spec, dims, _ = gen_env(rng, tier, nfields=1)
        n = spec["n"]
        ndim = len(n)
        ncells = int(np.prod(n))
        how = rng.choice(["reduce"] * 5 + ["accumulate"] * 3 + ["outer"] + ["out"] * 9)
        meshes = [spec]
        if how in ("reduce", "accumulate"):
            fn = rng.choice(["uadd", "uadd", "umul", "umax", "umin"])
            sub = rng.choice(["any", "any", "scalar-last", "unit-axis"]) if how == "reduce" else "any"
            nv = 1 if sub == "scalar-last" else rng.choice([1, 2, 3, 3, 4])
            if fn == "umul":
                f1 = gen_field_spec(rng, 0, ncells, ndim, dims, nv=nv, cls="pow2", dtype=rng.choice(["float64", "float32", "complex128", None]))
            else:
                f1 = gen_field_spec(rng, 0, ncells, ndim, dims, nv=nv, cls="int")
            axis = rng.choice(list(range(ndim + 1)) * 3 + [None, ndim + 1 + rng.randint(0, 1)])
            keep = rng.random() < 0.6
            if sub == "scalar-last":
                axis, keep = ndim, rng.random() < 0.85
            elif sub == "unit-axis" and 1 in n:
                axis, keep = rng.choice([a for a, k in enumerate(n) if k == 1]), rng.random() < 0.85
            if how == "accumulate" and axis is None:
                axis = 0
            yield dict(kind="umethod", how=how, sub=sub, fn=fn, meshes=meshes, fields=[f1], l=dict(t="leaf", k=0), r=None,
                       out=None, axis=axis, keep=keep, neg=rng.random() < 0.3)
            continue
        if how == "outer":
            f1 = gen_field_spec(rng, 0, ncells, ndim, dims, cls="int")
            f2 = gen_field_spec(rng, 0, ncells, ndim, dims, cls="int")
            yield dict(kind="umethod", how=how, sub="ff", fn=rng.choice(["uadd", "umul"]), meshes=meshes, fields=[f1, f2],
                       l=dict(t="leaf", k=0), r=dict(t="leaf", k=1), out=None, axis=None, keep=False, neg=False)
            continue
        # ---- out=
        sub = rng.choice(["ff", "ff", "ff", "fs", "sf", "sf-labelled", "fnum", "numf", "farr", "arrf", "flist", "wider", "wider-labelled",
                          "narrow", "out-mesh", "in-mesh", "cast", "cast", "out-self", "nofield", "nvdim"])
        fn = rng.choice(["uadd", "uadd", "usub", "umul", "udiv", "umax", "umin"])
        nv = rng.choice([1, 2, 3, 3, 4])
        nv1 = 1 if sub in ("sf", "sf-labelled", "wider", "wider-labelled") else nv
        nv2 = 1 if sub in ("fs", "wider", "wider-labelled") else nv
        nvo = nv
        if sub in ("sf", "sf-labelled"):
            nv2 = nvo = rng.choice([2, 3, 4])
        if sub in ("wider", "wider-labelled"):
            nvo = rng.choice([2, 3])
        if sub == "narrow":
            nv1 = nv2 = rng.choice([2, 3])
            nvo = 1
        if sub == "nvdim":
            nv1, nv2 = rng.sample([2, 3, 4], 2)
            nvo = nv1
        if sub in ("out-mesh", "in-mesh"):
            ax = rng.randrange(ndim)
            cell = (Fraction(spec["p2"][ax]) - Fraction(spec["p1"][ax])) / n[ax]
            spec2 = dict(spec)
            spec2["p1"] = [float(Fraction(v) + (cell if a == ax else 0)) for a, v in enumerate(spec["p1"])]
            spec2["p2"] = [float(Fraction(v) + (cell if a == ax else 0)) for a, v in enumerate(spec["p2"])]
            meshes.append(spec2)
        real_in = ["float64", "float64", "float32", "int64", "int32", None]
        cplx_in = sub == "cast" and rng.random() < 0.4
        lab1 = "custom" if sub in ("sf-labelled", "wider-labelled") else ("default" if sub in ("sf", "wider") else None)
        f1 = gen_field_spec(rng, 0, ncells, ndim, dims, nv=nv1, cls="int", dtype="complex128" if cplx_in else rng.choice(real_in),
                            labels=lab1)
        f2 = gen_field_spec(rng, 1 if sub == "in-mesh" else 0, ncells, ndim, dims, nv=nv2, cls="pow2",
                            dtype=rng.choice(["float64", "float64", "float32"]))
        if sub == "cast":
            odt = rng.choice(["int64", "int32", "float64", "float32"] if not cplx_in else ["float64", "float32", "int64", "complex64"])
        else:
            odt = rng.choice(["float64", "float64", "float64", "float32", "complex128", "complex64", None])
        fo = gen_field_spec(rng, 1 if sub == "out-mesh" else 0, ncells, ndim, dims, nv=nvo, cls="int", dtype=odt)
        l, r, out = dict(t="leaf", k=0), dict(t="leaf", k=1), 2
        if sub == "fnum":
            r = gen_num(rng, pow2=True, allow_cplx=False).node
        elif sub == "numf":
            l, r = gen_num(rng, allow_cplx=False).node, dict(t="leaf", k=1)
        elif sub in ("farr", "flist", "arrf"):
            shape = rng.choice([[nv], list(n) + [nv]])
            a = gen_arr(rng, shape, pow2=True, allow_cplx=False, py="list" if sub == "flist" else "ndarray").node
            if sub == "arrf":
                l, r = gen_arr(rng, shape, allow_cplx=False, py="ndarray").node, dict(t="leaf", k=1)
            else:
                r = a
        elif sub == "nofield":
            l = gen_arr(rng, list(n) + [nv], allow_cplx=False, py="ndarray").node
            r = gen_num(rng, pow2=True, allow_cplx=False).node
        elif sub == "out-self":
            out = rng.choice([0, 1]) if fn != "udiv" else 0
        yield dict(kind="umethod", how="out", sub=sub, fn=fn, meshes=meshes, fields=[f1, f2, fo], l=l, r=r, out=out,
                   axis=None, keep=False, neg=False)


# ---------------------------------------------------------------- magnitudes, exact regime: rescaling by powers of two
# Every leaf field of a case is multiplied by 2^k (k per group of fields; from 2^-300 to 2^+200, mostly 1e-15 .. 1e12), the
# non-field operands (numbers, constant vectors, per-cell arrays) by the power of two that keeps the expression
# homogeneous.  A power of two changes no significand, so every binary64 operation stays exact and the comparison with the
# model stays an equality - while any decision of the code that depends on the magnitude of the values (absolute
# tolerances such as np.isclose(x, 0), np.allclose defaults, "tiny means zero" guards, clipping, detours through a
# narrower dtype's range) now shows.
class Inhomog(Exception):
    pass


def _frac_bits(vals):
    """(hi, lo): every non-zero dyadic value v in vals has 2^lo | v and |v| < 2^hi"""
    hi, lo = None, None
    for v in vals:
        if v == 0:
            continue
        p, q = abs(v.numerator), v.denominator
        e = q.bit_length() - 1
        if q != 1 << e:
            raise Inhomog("not dyadic")
        h = p.bit_length() - e
        l = (p & -p).bit_length() - 1 - e
        hi = h if hi is None else max(hi, h)
        lo = l if lo is None else min(lo, l)
    return (0, 0) if hi is None else (hi, lo)


def _vals_of(obj):
    vals = [F(x) for x in obj["re"]] if "re" in obj else [F(obj["v"][0]), F(obj["v"][1])]
    if obj.get("im") is not None:
        vals += [F(x) for x in obj["im"]]
    return vals


SAME_DEG = ("pos", "neg", "abs", "absP", "real", "imag", "conj", "unegative", "upositive", "uabsolute", "uconjugate")


def homogeneity(expr, fields, fdeg, rng):
    """degree of homogeneity (a vector over the scale groups) and static bit range of every node of `expr`, given the
    degree `fdeg[k]` of leaf field k; free operands (numbers / arrays) get the degree their context needs, stored in
    node['_deg'].  Returns the list of (degree, hi, lo) constraints; raises Inhomog when no assignment exists."""
    zero = tuple(0 for _ in fdeg[0])
    cons = []
    add = lambda a, b: tuple(x + y for x, y in zip(a, b))
    mul = lambda k, a: tuple(k * x for x in a)

    def fix(node, info, d):
        if info[0] is None:
            if node["t"] not in ("num", "arr"):
                raise Inhomog("free subtree")
            node["_deg"] = list(d)
            cons.append((d, info[1], info[2]))
            return d
        if info[0] != d:
            raise Inhomog("degrees differ")
        return d

    def some_deg():
        g = rng.randrange(len(zero))
        s = rng.choice([0, 0, 1, -1, 1])
        return tuple(s if i == g else 0 for i in range(len(zero)))

    def an(node):
        t = node["t"]
        if t == "leaf":
            hi, lo = _frac_bits(_vals_of(fields[node["k"]]))
            hi += 1 if fields[node["k"]]["im"] is not None else 0
            cons.append((fdeg[node["k"]], hi, lo))
            return fdeg[node["k"]], hi, lo
        if t in ("num", "arr"):
            hi, lo = _frac_bits(_vals_of(node))
            return None, hi + 1, lo
        if t == "un":
            d, hi, lo = an(node["e"])
            if d is None:
                raise Inhomog("free subtree")
            op = node["op"]
            if op in SAME_DEG:
                r = (d, hi + 1, lo)
            elif op == "usquare":
                r = (mul(2, d), 2 * hi + 1, 2 * lo)
            elif op in ("usign", "phase"):
                r = (zero, 2, 0)
            else:
                raise Inhomog(op)
            cons.append(r)
            return r
        L, R = an(node["l"]), an(node["r"])
        op = node["op"]
        if L[0] is None and R[0] is None:
            raise Inhomog("two free operands")
        if op in ("add", "sub", "uadd", "usub", "umax", "umin", "shl"):
            d = L[0] if L[0] is not None else R[0]
            fix(node["l"], L, d), fix(node["r"], R, d)
            r = (d, max(L[1], R[1]) + 1, min(L[2], R[2]))
        elif op in ("mul", "umul", "dot", "cross"):
            dl = fix(node["l"], L, L[0] if L[0] is not None else some_deg())
            dr = fix(node["r"], R, R[0] if R[0] is not None else some_deg())
            r = (add(dl, dr), L[1] + R[1] + 3, L[2] + R[2])
        elif op in ("div", "udiv"):
            dl = fix(node["l"], L, L[0] if L[0] is not None else some_deg())
            dr = fix(node["r"], R, R[0] if R[0] is not None else some_deg())
            r = (add(dl, mul(-1, dr)), L[1] - R[2] + 2, L[2] - R[1])
        elif op in ("pow", "upow"):
            if L[0] is None:
                raise Inhomog("number ** field")
            if node["r"]["t"] == "num":
                k = F(node["r"]["v"][0])
                if k.denominator != 1 or F(node["r"]["v"][1]) != 0:
                    raise Inhomog("exponent")
                k = int(k)
                fix(node["r"], R, zero)
                ak = abs(k)
                r = (mul(k, L[0]),) + ((ak * L[1] + ak, ak * L[2]) if k >= 0 else (-ak * L[2] + ak, -ak * L[1] - ak))
            else:
                # exponents that vary from cell to cell: only a base of degree 0 stays homogeneous
                fix(node["r"], R, zero)
                if L[0] != zero:
                    raise Inhomog("varying exponent")
                r = (zero, 3 * L[1] + 3, min(3 * L[2], 0))
        elif op == "angle":
            dl = fix(node["l"], L, L[0] if L[0] is not None else some_deg())
            dr = fix(node["r"], R, R[0] if R[0] is not None else some_deg())
            # inside: the dot product, the sums of squares under the two norms, the product of the norms
            cons.append((add(dl, dr), L[1] + R[1] + 3, L[2] + R[2]))
            cons.append((mul(2, dl), 2 * L[1] + 3, 2 * L[2]))
            cons.append((mul(2, dr), 2 * R[1] + 3, 2 * R[2]))
            r = (zero, 2, 0)
        else:
            raise Inhomog(op)
        cons.append(r)
        return r

    root = an(expr)
    if root[0] is None:
        raise Inhomog("free root")
    return cons


def draw_log2_scale(rng, lo_dec=-90, hi_dec=60):
    """log2 of a scale factor: mostly the magnitudes of quantities in SI units (1e-15 .. 1e12), sometimes far beyond"""
    r = rng.random()
    if r < 0.42:
        e = rng.uniform(-15, -3)
    elif r < 0.72:
        e = rng.uniform(3, 12)
    elif r < 0.80:
        e = rng.choice([-1, 1]) * rng.uniform(0.3, 3)
    elif r < 0.91:
        e = rng.uniform(lo_dec, -15)
    else:
        e = rng.uniform(12, hi_dec)
    return int(round(e * 3.321928))


def _scale_vals(xs, e):
    m = Fraction(2) ** e
    return [Q(F(x) * m) for x in xs]


def rescale_case(case, rng):
    """the case with every magnitude moved by exact powers of two (a deep copy), or None when the expression is not
    homogeneous in its leaves"""
    import copy
    case = copy.deepcopy({k: v for k, v in case.items() if not k.startswith("_")})
    fields = case["fields"]
    if rng.random() < 0.55:
        # integer-typed leaves can only grow; as binary64 leaves the same values can shrink as well
        for fs in fields:
            if fs["dtype"] in ("int64", "int32"):
                fs["dtype"] = rng.choice([None, "float64"])
    ints = [fs["dtype"] for fs in fields if fs["dtype"] in ("int64", "int32")]
    single = any(fs["dtype"] in ("float32", "complex64") for fs in fields)
    ngroups = 1 if (ints or rng.random() < 0.65) else 2
    group = [rng.randrange(ngroups) for _ in fields]
    fdeg = [tuple(1 if g == group[k] else 0 for g in range(ngroups)) for k in range(len(fields))]
    try:
        if case["kind"] == "pair":
            # divmod(x s, y s) = (x // y, (x % y) s): both operands carry the same scale
            if case["fn"] != "divmod":
                return None
            cons = []
            for side in (case["l"], case["r"]):
                if side["t"] == "leaf":
                    fdeg[side["k"]] = (1,) + (0,) * (ngroups - 1)
                    cons.append((fdeg[side["k"]],) + _frac_bits(_vals_of(fields[side["k"]])))
                else:
                    side["_deg"] = [1] + [0] * (ngroups - 1)
                    cons.append((tuple(side["_deg"]),) + _frac_bits(_vals_of(side)))
        else:
            cons = homogeneity(case["expr"], fields, fdeg, rng)
    except Inhomog:
        return None
    if ints:
        HI, LO = (28 if "int32" in ints else 50), -40
    elif single:
        HI, LO = 100, -100
    else:
        HI, LO = 900, -900
    K = [draw_log2_scale(rng, lo_dec=-25 if single else -90, hi_dec=25 if single else 60) for _ in range(ngroups)]
    if ints:
        K = [abs(k) for k in K]
    sc = lambda d: sum(k * x for k, x in zip(K, d))
    for _ in range(60):
        if all(LO <= lo + sc(d) and hi + sc(d) <= HI for d, hi, lo in cons):
            break
        K = [int(k * 0.8) for k in K]
    if not any(K):
        return None
    for k, fs in enumerate(fields):
        e = sc(fdeg[k])
        if e:
            fs["re"] = _scale_vals(fs["re"], e)
            if fs["im"] is not None:
                fs["im"] = _scale_vals(fs["im"], e)

    def apply(node):
        if node["t"] in ("num", "arr"):
            d = node.pop("_deg", None)
            e = sc(d) if d else 0
            if not e:
                return
            if node["t"] == "num":
                node["v"] = _scale_vals(node["v"], e)
                v = F(node["v"][0])
                if node["py"] in ("int", "np.int64") and (v.denominator != 1 or abs(v) >= 2 ** 15):
                    node["py"] = {"int": "float", "np.int64": "np.float64"}[node["py"]]
            else:
                node["re"] = _scale_vals(node["re"], e)
                if node["im"] is not None:
                    node["im"] = _scale_vals(node["im"], e)
                # (integer-typed operands stay small: their squares and products are formed in integer arithmetic)
                if node["dtype"] == "int64" and any(F(x).denominator != 1 or abs(F(x)) >= 2 ** 15 for x in node["re"]):
                    node["dtype"] = "float64"
        elif node["t"] == "un":
            apply(node["e"])
        elif node["t"] == "bin":
            apply(node["l"]), apply(node["r"])
    if case["kind"] == "pair":
        apply(case["l"]), apply(case["r"])
    else:
        apply(case["expr"])
    case["scaled"] = K
    return case


def mag_bucket(k):
    """decade bucket of the scale 2^k, for the distribution tags"""
    e = k * 0.30103
    for b in (-60, -30, -15, -12, -9, -6, -3, 0, 3, 6, 9, 12, 15, 30, 60):
        if e < b:
            return f"<1e{b}"
    return ">=1e60"


def stream_scaled(rng, tier, count):
    """cases of the other streams (trees, angle, phase, tolerance division, two-output ufuncs, metadata, malformed trees) at
    other magnitudes"""
    srcs = [(stream_main, 5), (stream_route3, 5), (stream_pair, 1), (stream_meta, 1), (stream_malformed, 2)]
    pool = [fn for fn, w in srcs for _ in range(w)]
    made = 0
    while made < count:
        fn = rng.choice(pool)
        for _ in range(12):
            base = next(fn(rng, tier, 1))
            if fn is stream_main and rng.random() < 0.5:
                # shallow trees are homogeneous more often
                spec, dims, fields = gen_env(rng, tier)
                tg = TreeGen(rng, fields, spec["n"], 2)
                g = tg.gen(rng.randint(1, 2))
                base = dict(kind="tree", meshes=[spec], fields=fields, expr=g.node)
            if base["kind"] != "pair" and base["expr"]["t"] == "leaf":
                continue
            c = rescale_case(base, rng)
            if c is not None:
                yield c
                break
        made += 1


# ---------------------------------------------------------------- magnitudes, tolerance regime: full significands
# Leaf fields, numbers, constant vectors and per-cell arrays with random 53-bit (24-bit for single precision) significands,
# every operand at a magnitude of its own (1e-15 .. 1e12, sometimes 1e-60 .. 1e60; integer fields up to 2^61), numbers
# next to the neutral elements (1 +- 1e-9, +-1e-12), zeros sprinkled in.  Nothing is exact here: the reference is the
# same expression evaluated by NumPy on the whole arrays under broadcasting, together with a running bound of the rounding
# error (`Ref`); the real code has to stay within that bound of the reference and of the exact model value.
# Integer fields whose values (or whose integer-typed intermediate results) exceed 2^53: every operation rebuilds its result
# through the constructor without a dtype, which converts to binary64, so e.g. (-f) for an int64 field holding 2^53+1 holds
# -2^53 - not what NumPy gives for the same expression.  Reported to the lead as a candidate finding; the default
# generator keeps integer data below 2^53 (VERIF_C03_BIGINT=1 lifts the limit to 2^62 and demands equality).
BIGINT = os.environ.get("VERIF_C03_BIGINT", "1") != "0"     # on by default: the class is open finding D53, reported as KNOWN-FINDING
INT_LIM = {8: 2.0 ** 62 if BIGINT else 2.0 ** 53, 4: 2.0 ** 30}
MF_DTYPES = [None, None, "float64", "float64", "float32", "float32", "complex128", "complex64", "int64", "int32", "cvalue"]
MF_REAL = [None, "float64", "float64", "float32", "float32", "int64", "int32"]


def draw_e10(rng, single=False):
    r = rng.random()
    if r < 0.40:
        e = rng.uniform(-15, -3)
    elif r < 0.65:
        e = rng.uniform(3, 12)
    elif r < 0.85:
        e = rng.uniform(-3, 3)
    elif r < 0.93:
        e = rng.uniform(-60, -15)
    else:
        e = rng.uniform(12, 60)
    return max(-11.0, min(11.0, e)) if single else e


def mf_value(rng, e10, single, zeros=0.03):
    if rng.random() < zeros:
        return 0.0
    v = rng.uniform(1, 2) * rng.choice([-1, 1]) * 2.0 ** rng.randint(-2, 2) * 10.0 ** e10
    return float(np.float32(v)) if single else v


def gen_mfield(rng, ncells, ndim, dims, nv, dtype, e10):
    fs = gen_field_spec(rng, 0, ncells, ndim, dims, nv=nv, cls="int", dtype=dtype or "float64")
    fs["dtype"] = dtype   # None: the constructor infers the dtype from the values
    count = ncells * nv
    single = dtype in ("float32", "complex64")
    if dtype in ("int64", "int32"):
        top = rng.choice(([8, 20, 30, 45, 55, 61] if BIGINT else [8, 20, 30, 40, 45, 52]) if dtype == "int64" else [8, 15, 24, 30])
        fs["re"], fs["im"] = [Q(rng.randint(-2 ** top, 2 ** top)) for _ in range(count)], None
        fs["e10"] = top * 0.30103
    else:
        zeros = rng.choice([0.0, 0.0, 0.03, 0.1])
        fs["re"] = [Q(mf_value(rng, e10, single, zeros)) for _ in range(count)]
        fs["im"] = [Q(mf_value(rng, e10, single, zeros)) for _ in range(count)] if dtype in ("complex128", "complex64", "cvalue") else None
        fs["e10"] = e10
    fs["cls"] = "mfloat"
    return fs


class MGen:
    """small trees (depth <= 3) over full-significand operands; every subtree is a dict(node, nv, cplx, int, mg)
    with mg ~ log10 of its magnitude (used to place the next operand near or far)"""

    def __init__(self, rng, fields, n):
        self.rng, self.fields, self.n = rng, fields, list(n)

    def leaf(self, nv=None, real=False):
        c = [k for k, fs in enumerate(self.fields) if (nv is None or fs["nvdim"] in nv) and not (real and fs["im"] is not None)]
        if not c:
            return None
        k = self.rng.choice(c)
        fs = self.fields[k]
        return dict(node=dict(t="leaf", k=k), nv=fs["nvdim"], cplx=fs["im"] is not None, int=fs["dtype"] in ("int64", "int32"),
                    mg=fs["e10"])

    def place(self, mg):
        r = self.rng.random()
        if r < 0.6:
            return mg + self.rng.uniform(-1.5, 1.5)
        if r < 0.8:
            return mg + self.rng.choice([-1, 1]) * self.rng.uniform(3, 14)
        return draw_e10(self.rng)

    def num(self, mg, real=False, small_int=False, near=None):
        rng = self.rng
        py = rng.choice(["float", "float", "int", "complex", "np.float64", "np.float32", "np.int64", "np.complex128"])
        if real and "complex" in py:
            py = "float"
        if small_int:
            py = rng.choice(["int", "np.int64"])
        if "int" in py:
            v = Fraction(rng.choice([-7, -3, -2, -1, 2, 3, 5, 10, 1000, 10 ** 6, 2 ** 20 + 1]) if not small_int else rng.choice([-3, -2, -1, 2, 3]))
            im = Fraction(0)
            e = float(np.log10(float(abs(v))))
        else:
            e = self.place(mg)
            single = py == "np.float32"
            if single:
                e = max(-30.0, min(30.0, e))
            x = None
            if near is not None and rng.random() < 0.35:
                # next to the neutral element of the operation
                d = rng.choice([-1, 1]) * 10.0 ** rng.uniform(-14, -6)
                x = near + d if near else d * 10.0 ** mg
                x = float(np.float32(x)) if single else x
            if x is not None and np.isfinite(x) and x != 0:
                v, e = Fraction(x), (0.0 if near else float(np.log10(abs(x))))
            else:
                v = Fraction(mf_value(rng, e, single, zeros=0.0))
            im = Fraction(mf_value(rng, e, False, zeros=0.0)) if "complex" in py else Fraction(0)
        return dict(node=dict(t="num", v=[Q(v), Q(im)], py=py), nv="num", cplx="complex" in py, int="int" in py, mg=e)

    def arr(self, shape, mg, real=False):
        rng = self.rng
        py = rng.choice(["list", "tuple", "ndarray", "ndarray"]) if len(shape) == 1 else "ndarray"
        dtype = rng.choice(["float64", "float64", "float64", "float32", "complex128", "int64"] if py == "ndarray" else
                           ["float64", "float64", "complex128", "int64"])
        if real and dtype == "complex128":
            dtype = "float64"
        count = int(np.prod(shape))
        e = self.place(mg)
        single = dtype == "float32"
        if single:
            e = max(-30.0, min(30.0, e))
        if dtype == "int64":
            top = rng.choice([3, 10, 20, 31])
            re, im, e = [Q(rng.randint(-2 ** top, 2 ** top) or 1) for _ in range(count)], None, top * 0.30103
        else:
            re = [Q(mf_value(rng, e, single, zeros=0.0)) for _ in range(count)]
            im = [Q(mf_value(rng, e, False, zeros=0.0)) for _ in range(count)] if dtype == "complex128" else None
        return dict(node=dict(t="arr", shape=list(shape), re=re, im=im, py=py, dtype=dtype), nv=("arr", shape[-1]),
                    cplx=dtype == "complex128", int=dtype == "int64", mg=e)

    def operand(self, L, real=False, near=None):
        """number / constant vector / per-cell array that fits subtree L"""
        rng = self.rng
        r = rng.random()
        if r < 0.4:
            return self.num(L["mg"], real=real, near=near)
        k = L["nv"] if L["nv"] != 1 else rng.choice([1, 1, 2, 3])
        if r < 0.75:
            return self.arr([k], L["mg"], real=real)
        return self.arr(self.n + [k], L["mg"], real=real)

    def partner(self, L, depth, real=False, same_nv=False, near=None, fields_only=False):
        rng = self.rng
        if fields_only or rng.random() < 0.6:
            for _ in range(5):
                c = self.gen(depth, real=real)
                if c["nv"] == L["nv"] or (not same_nv and (c["nv"] == 1 or L["nv"] == 1)):
                    return c
            if fields_only:
                return None
        return self.operand(L, real=real, near=near)

    def gen(self, depth, real=False, nv=None):
        rng = self.rng
        if depth <= 0 or rng.random() < 0.2:
            lf = self.leaf(nv=nv, real=real) or self.leaf(real=real) or self.leaf()
            return lf
        r = rng.random()
        if r < 0.15:
            e = self.gen(depth - 1, real=real)
            op = rng.choice(["pos", "neg", "neg", "abs", "real", "imag", "conj", "absP", "unegative", "uabsolute", "usquare",
                             "uconjugate", "upositive"])
            if e["cplx"] and op in ("abs", "absP", "uabsolute"):
                op = "conj"   # the modulus of a complex value needs a square root: a parameter of the model
            mg = e["mg"] * (2 if op == "usquare" else 1)
            cplx = e["cplx"] and op not in ("abs", "absP", "uabsolute", "real", "imag")
            return dict(node=dict(t="un", op=op, e=e["node"]), nv=e["nv"], cplx=cplx,
                        int=e["int"] and op not in (), mg=mg)
        L = self.gen(depth - 1, real=real)
        if r < 0.62:
            op = rng.choice(["add", "add", "sub", "sub", "mul", "mul", "div", "div", "pow", "uadd", "usub", "umul", "udiv", "umax", "umin"])
            if op in ("umax", "umin") and L["cplx"]:
                op = "uadd"
            if op == "pow":
                k = rng.choice([2, 2, 3, 1, 0, -1, -2]) if not L["int"] else rng.choice([2, 2, 3, 1, 0])
                R = dict(node=dict(t="num", v=[Q(k), "0"], py=rng.choice(["int", "int", "float", "np.float64", "np.int64"]) if k >= 0 or not L["int"] else "int"),
                         nv="num", cplx=False, int=True, mg=0.0)
                if k < 0 and R["node"]["py"] in ("int", "np.int64") and L["int"]:
                    R["node"]["py"] = "float"
                return self.bin(op, L, R, L["mg"] * k)
            near = {"add": 0.0, "sub": 0.0, "uadd": 0.0, "usub": 0.0, "mul": 1.0, "div": 1.0, "umul": 1.0, "udiv": 1.0}.get(op)
            R = self.partner(L, depth - 1, real=real or op in ("umax", "umin"), near=near)
            if op in ("umax", "umin") and (R["cplx"] or L["cplx"]):
                op = "usub"
            if op.startswith("u") and R["node"]["t"] == "arr" and R["node"]["py"] != "ndarray":
                R["node"]["py"] = "ndarray"   # lists into ufuncs: the malformed stream has them
            mg = {"mul": L["mg"] + R["mg"], "umul": L["mg"] + R["mg"], "div": L["mg"] - R["mg"],
                  "udiv": L["mg"] - R["mg"]}.get(op, max(L["mg"], R["mg"]))
            a, b = L, R
            if rng.random() < 0.4:
                a, b = R, L
                if op in ("div", "udiv"):
                    mg = -mg
            return self.bin(op, a, b, mg)
        if r < 0.76:
            R = self.partner(L, depth - 1, real=real, same_nv=True)
            if R["nv"] == "num" or (R["nv"] != L["nv"] and not (isinstance(R["nv"], tuple) and R["nv"][1] == L["nv"])):
                R = self.arr([L["nv"]], L["mg"], real=real)
            a, b, form = L, R, rng.choice(["op", "method"])
            if R["node"]["t"] == "arr" and R["node"]["py"] != "ndarray" and len(R["node"]["shape"]) == 1 and rng.random() < 0.35:
                a, b, form = R, L, "op"
            g = self.bin("dot", a, b, L["mg"] + R["mg"], nv=1)
            g["node"]["form"] = form
            return g
        if r < 0.86:
            L3 = L if L["nv"] == 3 else None
            for _ in range(4):
                if L3 is not None:
                    break
                c = self.gen(depth - 1, real=real)
                L3 = c if c["nv"] == 3 else None
            if L3 is None:
                return L
            R = None
            if rng.random() < 0.55:
                for _ in range(4):
                    c = self.gen(depth - 1, real=real)
                    if c["nv"] == 3:
                        R = c
                        break
            if R is None:
                R = self.arr([3], L3["mg"], real=real)
            a, b, form = L3, R, rng.choice(["op", "method"])
            if R["node"]["t"] == "arr" and R["node"]["py"] != "ndarray" and rng.random() < 0.35:
                a, b, form = R, L3, "op"
            g = self.bin("cross", a, b, L3["mg"] + R["mg"], nv=3)
            g["node"]["form"] = form
            return g
        # stacking
        rr = rng.random()
        if rr < 0.55:
            R = self.gen(depth - 1, real=real)
        elif rr < 0.8:
            R = self.num(L["mg"], real=real)
        else:
            R = self.arr([rng.choice([1, 2, 3])], L["mg"], real=real)
        a, b = L, R
        if R["node"]["t"] != "leaf" and R["nv"] in ("num",) and R["node"]["py"] in ("int", "float", "complex") and rng.random() < 0.35:
            a, b = R, L
        cnt = lambda g: g["nv"] if isinstance(g["nv"], int) else (1 if g["nv"] == "num" else g["nv"][1])
        return self.bin("shl", a, b, max(L["mg"], R["mg"]), nv=cnt(L) + cnt(R))

    def bin(self, op, a, b, mg, nv=None):
        cnt = lambda g: g["nv"] if isinstance(g["nv"], int) else (1 if g["nv"] == "num" else g["nv"][1])
        return dict(node=dict(t="bin", op=op, l=a["node"], r=b["node"]), nv=nv if nv is not None else max(cnt(a), cnt(b)),
                    cplx=a["cplx"] or b["cplx"], int=a["int"] and b["int"] and op not in ("div", "udiv"), mg=mg)


def leaf_array(fs, n):
    """the array handed to the Field constructor for leaf spec fs"""
    nv = fs["nvdim"]
    if fs["dtype"] in ("int64", "int32") and all(F(x).denominator == 1 for x in fs["re"]):
        return np.array([int(F(x)) for x in fs["re"]], dtype=DTYPES[fs["dtype"]]).reshape(*n, nv)
    re = np.array([float(F(x)) for x in fs["re"]], dtype=float)
    arr = re + 1j * np.array([float(F(x)) for x in fs["im"]], dtype=float) if fs["im"] is not None else re
    arr = arr.reshape(*n, nv)
    if fs["dtype"] not in (None, "cvalue"):
        arr = arr.astype(DTYPES[fs["dtype"]])
    return arr


def _dt(x):
    return np.asarray(x).dtype if isinstance(x, (list, tuple)) else np.result_type(x)


def _unit(val):
    dt = _dt(val)
    if dt.kind in "iub":
        return 0.0, 0.0
    return (2.0 ** -23, 2.0 ** -149) if dt in (np.dtype(np.float32), np.dtype(np.complex64)) else (2.0 ** -52, 2.0 ** -1074)


def _mag(x):
    a = np.abs(np.asarray(x))
    return a.astype(np.float64) if a.dtype != np.float64 else a


class Ref:
    """the expression evaluated by NumPy on the whole arrays (numbers, constant vectors and per-cell arrays as they are,
    broadcasting left to NumPy), with a running bound `err` of |computed - exact| for every entry (first-order rounding
    analysis with a factor-4 margin per operation; conversions between dtypes, underflow granularity included).
    `overflow` is set when an integer-typed intermediate may leave its range (then nothing is exact anywhere)."""

    def __init__(self, arrays, n):
        self.arrays, self.n, self.overflow, self.cos = arrays, tuple(int(k) for k in n), False, None

    def conv(self, x, ex, val):
        """operand x enters an operation whose result has the dtype of val: a narrower result type rounds it first"""
        if _dt(x) != _dt(val) and _dt(val).kind in "fc":
            return ex + _unit(val)[0] * _mag(x)
        return ex

    def rnd(self, val, c=4.0):
        u, tiny = _unit(val)
        if np.result_type(val).kind in "iu":
            lim = INT_LIM.get(np.result_type(val).itemsize, 2.0 ** 14)
            if np.any(_mag(val) >= lim):
                self.overflow = True
            return 0.0
        if np.result_type(val).kind == "c":
            c *= 2
        return c * u * _mag(val) + 4 * tiny

    def intguard(self, val, bound):
        if np.result_type(val).kind in "iu":
            lim = INT_LIM.get(np.result_type(val).itemsize, 2.0 ** 14)
            if np.any(bound >= lim):
                self.overflow = True

    def lift(self, x, ex):
        """an operand of << / angle as the constructor sees it: one component for a number, len(x) for a vector"""
        a = np.asarray(x)
        if a.ndim == 0:
            a = a.reshape(1)
        full = np.broadcast_to(a, self.n + (a.shape[-1],))
        return full, np.broadcast_to(np.asarray(ex, dtype=float), full.shape) if np.ndim(ex) else np.zeros(full.shape)

    def mul(self, x, ex, y, ey):
        val = np.multiply(x, y)
        ex, ey = self.conv(x, ex, val), self.conv(y, ey, val)
        ax, ay = _mag(x), _mag(y)
        self.intguard(val, ax * ay)
        return val, ax * ey + ay * ex + ex * ey + self.rnd(val)

    def div(self, x, ex, y, ey):
        val = np.divide(x, y)
        ex, ey = self.conv(x, ex, val), self.conv(y, ey, val)
        den = _mag(y) - ey
        return val, np.where(den > 0, (ex + _mag(val) * ey) / np.where(den > 0, den, 1.0), np.inf) + self.rnd(val)

    def dot(self, x, ex, y, ey):
        p, ep = self.mul(x, ex, y, ey)
        val = np.sum(p, axis=-1, keepdims=True)
        u, tiny = _unit(val)
        sp = np.sum(_mag(p), axis=-1, keepdims=True)
        self.intguard(p, sp)   # einsum accumulates in the operands' integer type
        return val, np.sum(np.broadcast_to(ep, p.shape), axis=-1, keepdims=True) + (p.shape[-1] + 2) * 2 * u * sp + 4 * tiny

    def ev(self, node):
        t = node["t"]
        if t == "leaf":
            a = self.arrays[node["k"]]
            return a, np.zeros(a.shape)
        if t in ("num", "arr"):
            return build_opd(node), 0.0
        if t == "un":
            x, ex = self.ev(node["e"])
            op = node["op"]
            if op in ("pos", "upositive"):
                return x, ex
            if op in ("neg", "unegative"):
                return np.negative(x), ex
            if op in ("abs", "absP", "uabsolute"):
                val = np.abs(x)
                return val, ex + (self.rnd(val) if np.iscomplexobj(x) else 0.0)
            if op == "real":
                return np.real(x), ex
            if op == "imag":
                return np.imag(x), ex
            if op in ("conj", "uconjugate"):
                return np.conjugate(x), ex
            if op == "usquare":
                val = np.square(x)
                ax = _mag(x)
                self.intguard(val, ax * ax)
                return val, 2 * ax * ex + ex * ex + self.rnd(val)
            raise Refused(op)
        x, ex = self.ev(node["l"])
        y, ey = self.ev(node["r"])
        op = node["op"]
        if op in ("add", "sub", "uadd", "usub"):
            val = (np.add if op in ("add", "uadd") else np.subtract)(x, y)
            ex, ey = self.conv(x, ex, val), self.conv(y, ey, val)
            self.intguard(val, _mag(x) + _mag(y))
            return val, ex + ey + self.rnd(val)
        if op in ("mul", "umul"):
            return self.mul(x, ex, y, ey)
        if op in ("div", "udiv"):
            return self.div(x, ex, y, ey)
        if op in ("umax", "umin"):
            val = (np.maximum if op == "umax" else np.minimum)(x, y)
            ex, ey = self.conv(x, ex, val), self.conv(y, ey, val)
            return val, np.maximum(ex, ey) + np.zeros(np.shape(val))
        if op in ("pow", "upow"):
            k = float(np.real(y))
            val = np.power(x, y)
            ex = self.conv(x, ex, val)
            ax = _mag(x)
            self.intguard(val, ax ** abs(k))
            if k == 0:
                return val, np.zeros(np.shape(val))
            den = ax - ex
            rel = np.where(den > 0, ex / np.where(den > 0, den, 1.0), np.inf)
            return val, abs(k) * _mag(val) * rel * (1 + rel) ** max(abs(k) - 1, 0) + (abs(k) + 2) * self.rnd(val)
        if op == "dot":
            return self.dot(x, ex, y, ey)
        if op == "cross":
            val = np.cross(x, y)
            shp = val.shape
            ex, ey = self.conv(x, ex, val), self.conv(y, ey, val)
            ax, ay = np.broadcast_to(_mag(x), shp), np.broadcast_to(_mag(y), shp)
            ex, ey = np.broadcast_to(ex, shp), np.broadcast_to(ey, shp)
            j, k = [1, 2, 0], [2, 0, 1]
            u, tiny = _unit(val)
            if np.result_type(val).kind == "c":
                u *= 2
            pr = ax[..., j] * ay[..., k] + ax[..., k] * ay[..., j]
            self.intguard(val, pr)
            e = (ax[..., j] * ey[..., k] + ay[..., k] * ex[..., j] + ex[..., j] * ey[..., k]
                 + ax[..., k] * ey[..., j] + ay[..., j] * ex[..., k] + ex[..., k] * ey[..., j])
            return val, e + 12 * u * pr + 4 * tiny
        if op == "shl":
            X, eX = self.lift(x, ex)
            Y, eY = self.lift(y, ey)
            return np.concatenate([X, Y], axis=-1), np.concatenate([eX, eY], axis=-1)
        if op == "angle":
            X, eX = self.lift(x, ex)
            Y, eY = self.lift(y, ey)
            if np.iscomplexobj(X) or np.iscomplexobj(Y):
                raise Refused("complex angle")
            d, ed = self.dot(X, eX, Y, eY)
            norms = []
            for V, eV in ((X, eX), (Y, eY)):
                nrm = np.linalg.norm(V, axis=-1, keepdims=True)
                u, tiny = _unit(nrm)
                aV = _mag(V)
                S = np.sum(aV * aV, axis=-1, keepdims=True)
                eS = np.sum(2 * aV * eV + eV * eV, axis=-1, keepdims=True) + (V.shape[-1] + 4) * 2 * u * S + (V.shape[-1] + 1) * 2 * tiny
                an = _mag(nrm)
                norms.append((nrm, np.where(an > 0, eS / np.where(an > 0, 2 * an, 1.0), np.inf) + 4 * u * an + 4 * tiny))
            nn, enn = self.mul(norms[0][0], norms[0][1], norms[1][0], norms[1][1])
            c, ec = self.div(d, ed, nn, enn)
            self.cos = (c, ec)
            return np.arccos(c), np.full(np.shape(c), np.nan)
        raise Refused(op)


def gen_mcase(rng, tier):
    spec, dims, _ = gen_env(rng, tier, nfields=1)
    n = spec["n"]
    ndim, ncells = len(n), int(np.prod(n))
    angle = rng.random() < 0.3
    K = rng.choice([1, 2, 3, 3, 3, 4])
    fields = []
    for _ in range(rng.choice([1, 2, 2, 3, 3])):
        dtype = rng.choice(MF_REAL if angle else MF_DTYPES)
        nv = K if (angle or rng.random() < 0.6) else rng.choice([1, 1, 2, 3, 4])
        fields.append(gen_mfield(rng, ncells, ndim, dims, nv, dtype, draw_e10(rng, single=dtype in ("float32", "complex64"))))
    mg = MGen(rng, fields, n)
    if angle:
        L = mg.gen(rng.randint(0, 2), real=True)
        how = rng.choice(["field", "field", "parallel", "antiparallel", "sumdiff", "vector", "array", "number"])
        if how == "number" and L["nv"] != 1:
            how = "vector"
        if how == "field":
            R = mg.partner(L, rng.randint(0, 2), real=True, same_nv=True, fields_only=True) or mg.arr([L["nv"]], L["mg"], real=True)
        elif how in ("parallel", "antiparallel"):
            # the angle of a vector with a multiple of itself: cos = +-1 up to rounding
            c = mg.num(0.0, real=True)
            c["node"]["v"][0] = Q(abs(F(c["node"]["v"][0])) * (1 if how == "parallel" else -1))
            R = mg.bin(rng.choice(["mul", "div"]), L, c, L["mg"])
            if F(c["node"]["v"][0]) == 0:
                R = L
        elif how == "sumdiff":
            P = mg.partner(L, 0, real=True, same_nv=True, fields_only=True) or L
            L, R = mg.bin("add", L, P, L["mg"]), mg.bin("sub", L, P, L["mg"])
        elif how == "vector":
            R = mg.arr([L["nv"]], L["mg"], real=True)
        elif how == "array":
            R = mg.arr(n + [L["nv"]], L["mg"], real=True)
        else:
            R = mg.num(L["mg"], real=True)
        return dict(kind="mangle", how=how, meshes=[spec], fields=fields, expr=dict(t="bin", op="angle", l=L["node"], r=R["node"]))
    g = mg.gen(rng.randint(1, 3))
    for _ in range(3):
        if g["node"]["t"] != "leaf":
            break
        g = mg.gen(rng.randint(1, 3))
    return dict(kind="mtree", meshes=[spec], fields=fields, expr=g["node"])


def stream_mfloat(rng, tier, count):
    for _ in range(count):
        for _ in range(8):
            case = gen_mcase(rng, tier)
            if case["expr"]["t"] == "leaf":
                continue
            # integer-typed intermediates must stay in range (wrap-around is outside the model)
            n = case["meshes"][0]["n"]
            ref = Ref([leaf_array(fs, n) for fs in case["fields"]], n)
            try:
                with np.errstate(all="ignore"):
                    ref.ev(case["expr"])
            except Exception:
                pass  # refused combinations stay in: code and model have to refuse alike
            if not ref.overflow:
                break
        else:
            continue
        yield case


def long_mesh_spec(rng, tier):
    """thousands of cells along one axis (the other axes short), exact dyadic geometry"""
    N = rng.choice([257, 1000, 1024, 2049, 4096] if tier == "quick" else [1000, 4096, 5000, 8191])
    ndim = rng.choice([1, 1, 2, 3])
    ax = rng.randrange(ndim)
    n = [N if a == ax else rng.choice([1, 1, 2]) for a in range(ndim)]
    cell = [Fraction(rng.choice([1, 3, 5]), 2 ** rng.randint(0, 3)) for _ in range(ndim)]
    pmin = [Fraction(rng.randint(-40, 40), 4) for _ in range(ndim)]
    spec = dict(p1=[float(x) for x in pmin], p2=[float(a + k * c) for a, k, c in zip(pmin, n, cell)], n=n, dims=None, bc="",
                intcorners=False)
    return magnify_mesh(rng, spec) if rng.random() < 0.4 else spec


def stream_long(rng, tier, count):
    """shallow trees on meshes with thousands of cells along one axis: exact regime (as generated and rescaled) and
    full-significand data"""
    for i in range(count):
        spec = long_mesh_spec(rng, tier)
        n = spec["n"]
        ndim, ncells = len(n), int(np.prod(n))
        dims = ["x", "y", "z"][:ndim]
        if i % 2:
            K = rng.choice([1, 2, 3])
            fields = [gen_mfield(rng, ncells, ndim, dims, K if rng.random() < 0.7 else 1, rng.choice(MF_DTYPES), draw_e10(rng, single=True))
                      for _ in range(rng.choice([1, 2]))]
            mg = MGen(rng, fields, n)
            for _ in range(6):
                g = mg.gen(rng.randint(1, 2))
                if g["node"]["t"] != "leaf":
                    break
            yield dict(kind="mtree", long=True, meshes=[spec], fields=fields, expr=g["node"])
            continue
        K = rng.choice([1, 2, 3])
        fields = [gen_field_spec(rng, 0, ncells, ndim, dims, nv=K if rng.random() < 0.7 else 1) for _ in range(rng.choice([1, 2]))]
        fields.append(gen_field_spec(rng, 0, ncells, ndim, dims, nv=rng.choice([1, K]), cls="pow2", dtype=rng.choice([None, "float64", "complex128"])))
        tg = TreeGen(rng, fields, n, 2)
        for _ in range(6):
            g = tg.gen(rng.randint(1, 2))
            if g.node["t"] != "leaf":
                break
        case = dict(kind="tree", long=True, meshes=[spec], fields=fields, expr=g.node)
        yield (rescale_case(case, rng) if rng.random() < 0.5 else None) or case


def cases(rng, tier):
    """all streams interleaved (deterministically, by the run's PRNG), so a run cut short by the time budget still
    exercises every stream"""
    quick = tier == "quick"
    plan = [(stream_main, 4600 if quick else 24000), (stream_route3, 450 if quick else 2000),
            (stream_malformed, 1000 if quick else 5000), (stream_mismatch, 550 if quick else 2500),
            (stream_meta, 550 if quick else 2500), (stream_stack, 250 if quick else 1200),
            (stream_pair, 450 if quick else 2000), (stream_umethod, 450 if quick else 2200),
            (stream_scaled, 1500 if quick else 8000),
            (stream_mfloat, 900 if quick else 5000), (stream_long, 10 if quick else 60)]
    gens = [fn(rng, tier, cnt) for fn, cnt in plan]
    schedule = [k for k, (_, cnt) in enumerate(plan) for _ in range(cnt)]
    rng.shuffle(schedule)
    for k in schedule:
        try:
            yield next(gens[k])
        except StopIteration:
            continue


# ====================================================================== real code
def build_field(fs, meshes):
    mesh = meshes[fs["mesh"]]
    nv = fs["nvdim"]
    arr = leaf_array(fs, [int(k) for k in mesh.n])
    dtype = fs["dtype"]
    kw = {}
    if dtype not in (None, "cvalue"):
        kw["dtype"] = DTYPES[dtype]
    if fs["vdims"] is not None:
        kw["vdims"] = list(fs["vdims"])
    if fs["vmap"] is not None:
        kw["vdim_mapping"] = {k: v for k, v in fs["vmap"]}
    return df.Field(mesh, nvdim=nv, value=arr, valid=np.array(fs["valid"], dtype=bool).reshape(*mesh.n),
                    unit=fs["unit"], **kw)


def build_opd(node):
    if node["t"] == "num":
        re, im = F(node["v"][0]), F(node["v"][1])
        py = node["py"]
        if py == "int":
            return int(re)
        if py == "float":
            return float(re)
        if py == "complex":
            return complex(float(re), float(im))
        if py == "np.float64":
            return np.float64(float(re))
        if py == "np.int64":
            return np.int64(int(re))
        if py == "np.float32":
            return np.float32(float(re))
        return np.complex128(complex(float(re), float(im)))
    dt = DTYPES[node["dtype"]]
    if np.dtype(dt).kind == "i" and all(F(x).denominator == 1 for x in node["re"]):
        a = np.array([int(F(x)) for x in node["re"]], dtype=dt)
    else:
        a = np.array([float(F(x)) for x in node["re"]], dtype=float)
    if node["im"] is not None:
        a = a + 1j * np.array([float(F(x)) for x in node["im"]], dtype=float)
    a = a.astype(dt).reshape(node["shape"])
    if node["py"] == "ndarray":
        return a
    lst = a.tolist()

    def tup(x):
        return tuple(tup(y) for y in x) if isinstance(x, list) else x
    return lst if node["py"] == "list" else tup(lst)


def mesh_state(m):
    r = m.region
    return (np.asarray(r.pmin).tobytes(), np.asarray(r.pmax).tobytes(), tuple(r.dims), tuple(r.units),
            float(r.tolerance_factor), np.asarray(m.n).tobytes(), m.bc,
            tuple((k, np.asarray(s.pmin).tobytes(), np.asarray(s.pmax).tobytes()) for k, s in m.subregions.items()))


def snap(x):
    if isinstance(x, df.Field):
        return ("F", x.array.tobytes(), str(x.array.dtype), x.array.shape, np.asarray(x.valid).tobytes(),
                str(np.asarray(x.valid).dtype), np.asarray(x.valid).shape,
                None if x.vdims is None else tuple(x.vdims), tuple(x.vdim_mapping.items()), x.unit, x.nvdim,
                repr(x.dtype), mesh_state(x.mesh))
    if isinstance(x, np.ndarray):
        return ("A", x.tobytes(), str(x.dtype), x.shape)
    return ("P", repr(x), type(x).__name__)


SNAP_NAMES = ["type", "array bytes", "array dtype", "array shape", "valid bytes", "valid dtype", "valid shape", "vdims",
              "vdim_mapping", "unit", "nvdim", "dtype attribute", "mesh"]


def snap_diff(a, b):
    return [SNAP_NAMES[i] if a[0] == "F" else f"item {i}" for i, (x, y) in enumerate(zip(a, b)) if x != y]


def really_different(m1, m2):
    """meshes that no tolerance could identify: different counts, axis names, or corners apart by a quarter cell or more"""
    if len(m1.n) != len(m2.n) or list(m1.n) != list(m2.n) or list(m1.region.dims) != list(m2.region.dims):
        return True
    c = float(min(m1.cell))
    return bool(np.max(np.abs(np.asarray(m1.region.pmin) - np.asarray(m2.region.pmin))) >= c / 4
                or np.max(np.abs(np.asarray(m1.region.pmax) - np.asarray(m2.region.pmax))) >= c / 4)


def apply_bin(node, lv, rv):
    op = node["op"]
    if op in UFUNC2:
        return UFUNC2[op](lv, rv)
    if op == "angle":
        return lv.angle(rv)
    if op in ("dot", "cross") and node.get("form") == "method" and isinstance(lv, df.Field):
        return lv.dot(rv) if op == "dot" else lv.cross(rv)
    return PYOP[op](lv, rv)


def apply_un(op, v):
    if op in UFUNC1:
        return UFUNC1[op](v)
    if op == "pos":
        return +v
    if op == "neg":
        return -v
    if op == "abs":
        return abs(v)
    return {"real": lambda f: f.real, "imag": lambda f: f.imag, "conj": lambda f: f.conjugate,
            "absP": lambda f: f.abs, "phase": lambda f: f.phase}[op](v)


class Refused(Exception):
    pass


def same_field(a, b, rtol=None):
    """list of aspects in which two results differ ([] = same field); rtol: full-significand data, where the two operand
    orders may round differently (fused multiply-add in complex products)"""
    d = []
    if not (a.mesh == b.mesh and mesh_state(a.mesh)[:6] == mesh_state(b.mesh)[:6]):
        d.append("mesh")
    if a.nvdim != b.nvdim:
        d.append("nvdim")
    elif not (np.array_equal(a.array, b.array) if rtol is None else
              (a.array.dtype == b.array.dtype and np.allclose(a.array, b.array, rtol=rtol, atol=0, equal_nan=True))):
        d.append("array")
    if not np.array_equal(a.valid, b.valid):
        d.append("valid")
    if (None if a.vdims is None else list(a.vdims)) != (None if b.vdims is None else list(b.vdims)):
        d.append("vdims")
    if dict(a.vdim_mapping) != dict(b.vdim_mapping):
        d.append("vdim_mapping")
    return d


def is_np_obj(x):
    return isinstance(x, (np.ndarray, np.generic))


class Evaluator:
    """evaluates a tree through the public API with the property's checks around every step"""

    def __init__(self, fields, fail, tags, rtol=None):
        self.fields, self.fail, self.tags, self.rtol = fields, fail, tags, rtol
        self.steps = 0

    def ev(self, node):
        t = node["t"]
        if t == "leaf":
            return self.fields[node["k"]]
        if t in ("num", "arr"):
            return build_opd(node)
        if t == "un":
            v = self.ev(node["e"])
            before = snap(v)
            try:
                r = apply_un(node["op"], v)
            except Exception as e:
                self.after(node["op"], [v], [before])
                raise Refused(type(e).__name__) from e
            self.after(node["op"], [v], [before])
            self.steps += 1
            return r
        lv = self.ev(node["l"])
        rv = self.ev(node["r"])
        before = [snap(lv), snap(rv)]
        op = node["op"]
        err = None
        try:
            r = apply_bin(node, lv, rv)
        except Exception as e:
            err = e
            r = None
        self.after(op, [lv, rv], before)
        self.steps += 1
        lf, rf = isinstance(lv, df.Field), isinstance(rv, df.Field)
        # ---- refusal of fields that do not fit together
        if lf and rf and err is None:
            if really_different(lv.mesh, rv.mesh):
                self.fail(f"MESH: {op} accepted two fields that live on different meshes "
                          f"(n {[int(k) for k in lv.mesh.n]} / {[int(k) for k in rv.mesh.n]}, pmin {[float(x) for x in lv.mesh.region.pmin]} / "
                          f"{[float(x) for x in rv.mesh.region.pmin]}, "
                          f"dims {lv.mesh.region.dims} / {rv.mesh.region.dims})")
            k, l = lv.nvdim, rv.nvdim
            if op != "shl" and k != l and k > 1 and l > 1:
                self.fail(f"NVDIM: {op} accepted fields with {k} and {l} components")
            if op == "cross" and not (k == 3 and l == 3):
                self.fail(f"NVDIM: cross accepted fields with {k} and {l} components")
        # ---- a∘b and b∘a are the same field
        if op in ("add", "mul") and (lf or rf) and not (lf and rf and mesh_state(lv.mesh)[:6] != mesh_state(rv.mesh)[:6]):
            try:
                r2 = PYOP[op](rv, lv)
                err2 = None
            except Exception as e:
                r2, err2 = None, e
            self.after(op + " (swapped)", [lv, rv], before)
            self.comm(op, lv, rv, r, err, r2, err2)
        if err is not None:
            raise Refused(type(err).__name__) from err
        return r

    def after(self, op, vals, before):
        for v, b in zip(vals, before):
            a = snap(v)
            if a != b:
                self.fail(f"PURE: evaluating {op} modified its operand: {snap_diff(b, a)} changed")

    def comm(self, op, lv, rv, r, err, r2, err2):
        lf, rf = isinstance(lv, df.Field), isinstance(rv, df.Field)
        sym = {"add": "+", "mul": "*"}[op]
        # input class (for the known findings)
        cls = ""
        if lf and rf:
            lab = (lv.vdims != rv.vdims) or (dict(lv.vdim_mapping) != dict(rv.vdim_mapping))
            if lab and lv.nvdim > 1 and rv.nvdim > 1:
                cls = "[D10]"
            elif lab and lv.nvdim == 1 and rv.nvdim == 1:
                cls = "[D51]"
        if (err is None) != (err2 is None):
            # input class of finding D52: exactly one operand is a NumPy object (ndarray / NumPy scalar), the other a Field:
            # `ndarray ∘ field` dispatches to __array_ufunc__ (NumPy broadcasting, labels kept unconditionally) while
            # `field ∘ ndarray` goes through _apply_operator (shape test, labels dropped when the count changes), so one
            # order can be accepted and the other refused
            cls = "[D52]" if (lf != rf) and is_np_obj(rv if lf else lv) else ""
            self.fail(f"COMM{cls}: a{sym}b {'raises ' + type(err).__name__ if err else 'is accepted'} but b{sym}a "
                      f"{'raises ' + type(err2).__name__ if err2 else 'is accepted'} "
                      f"(a: {describe(lv)}, b: {describe(rv)})")
            return
        if err is not None:
            return
        d = same_field(r, r2, self.rtol)
        if d:
            only_meta = set(d) <= {"vdims", "vdim_mapping"}
            c = cls if (cls in ("[D10]", "[D51]") and only_meta) else ""
            self.fail(f"COMM{c}: a{sym}b and b{sym}a differ in {d}: a{sym}b has vdims {r.vdims} mapping {dict(r.vdim_mapping)} "
                      f"valid-count {int(np.sum(r.valid))}, b{sym}a has vdims {r2.vdims} mapping {dict(r2.vdim_mapping)} "
                      f"valid-count {int(np.sum(r2.valid))} (a: {describe(lv)}, b: {describe(rv)})")
            self.tags.append("comm:differs" + c)
        else:
            self.tags.append("comm:same")


def describe(v):
    if isinstance(v, df.Field):
        return f"Field(nvdim={v.nvdim}, vdims={v.vdims}, mapping={dict(v.vdim_mapping)}, dtype={v.array.dtype})"
    if isinstance(v, np.ndarray):
        return f"ndarray{v.shape}"
    return f"{type(v).__name__}"


# ---------------------------------------------------------------- cell-by-cell oracle
INEXACT_OPS = {"div", "udiv", "angle", "phase"}


def tree_ops(node, acc=None):
    acc = acc if acc is not None else []
    if node["t"] == "un":
        acc.append(node["op"])
        tree_ops(node["e"], acc)
    elif node["t"] == "bin":
        acc.append(node["op"])
        tree_ops(node["l"], acc)
        tree_ops(node["r"], acc)
    return acc


_OPD_CACHE = {}


def cell_eval(node, fields, n, idx):
    """the same expression on one cell: 1-d component vectors, numbers, constant vectors, the cell's row"""
    t = node["t"]
    if t == "leaf":
        return np.array(fields[node["k"]].array[idx])
    if t == "num":
        return build_opd(node)
    if t == "arr":
        a = _OPD_CACHE.get(id(node))
        if a is None:
            a = _OPD_CACHE[id(node)] = np.asarray(build_opd(node))   # built once per check, not once per cell
        d = len(n)
        if a.ndim == 0:
            return a
        if a.ndim <= d + 1:
            full = np.broadcast_to(a, np.broadcast_shapes(a.shape, tuple(n) + (1,))[:-1] + (a.shape[-1],))
            if full.shape[:-1] == tuple(n):
                return np.array(full[idx])
        raise Refused("shape")
    if t == "un":
        v = cell_eval(node["e"], fields, n, idx)
        op = node["op"]
        if op in UFUNC1:
            return UFUNC1[op](v)
        return {"pos": lambda x: x, "neg": np.negative, "abs": np.abs, "absP": np.abs, "real": np.real, "imag": np.imag,
                "conj": np.conjugate, "phase": np.angle}[op](v)
    x = cell_eval(node["l"], fields, n, idx)
    y = cell_eval(node["r"], fields, n, idx)
    op = node["op"]
    if op in UFUNC2:
        return UFUNC2[op](x, y)
    if op == "dot":
        return np.sum(np.multiply(x, y))
    if op == "cross":
        return np.cross(x, y)
    if op == "shl":
        return np.concatenate([np.atleast_1d(x), np.atleast_1d(y)])
    if op == "angle":
        y = np.atleast_1d(y)
        return np.arccos(np.sum(np.multiply(x, y)) / (np.sqrt(np.sum(np.abs(x) ** 2)) * np.sqrt(np.sum(np.abs(y) ** 2))))
    return {"add": np.add, "sub": np.subtract, "mul": np.multiply, "div": np.divide, "pow": np.power}[op](x, y)


def lift_ok(node, n):
    """the side condition `LiftOk` of the theorems: no mesh-shaped array-like directly under `<<` / `.angle()`
    (the constructor reads such an operand as per-cell scalar values, not through trailing-axis broadcasting)"""
    if node["t"] == "un":
        return lift_ok(node["e"], n)
    if node["t"] != "bin":
        return True
    if node["op"] in ("shl", "angle"):
        for side in (node["l"], node["r"]):
            if side["t"] == "arr" and list(side["shape"]) == list(n):
                return False
    return lift_ok(node["l"], n) and lift_ok(node["r"], n)


def check_cellwise(case, res, fields, fail):
    n = tuple(int(k) for k in res.mesh.n)
    ops = set(tree_ops(case["expr"]))
    loose = bool(ops & INEXACT_OPS) or case["kind"] in ("angle", "phase", "tdiv")
    single = any(fs["dtype"] in ("float32", "complex64") for fs in case["fields"])
    _OPD_CACHE.clear()
    with np.errstate(all="ignore"):
        for idx in np.ndindex(*n):
            try:
                if case["kind"] == "angle":
                    # the cosine itself: arccos is ill-conditioned at +-1 and gives nan when rounding pushes |cos| above 1
                    x = np.atleast_1d(cell_eval(case["expr"]["l"], fields, n, idx))
                    y = np.atleast_1d(cell_eval(case["expr"]["r"], fields, n, idx))
                    cosv = np.sum(np.multiply(x, y)) / (np.sqrt(np.sum(np.abs(x) ** 2)) * np.sqrt(np.sum(np.abs(y) ** 2)))
                    exp = np.atleast_1d(np.arccos(cosv))
                else:
                    exp = np.atleast_1d(np.asarray(cell_eval(case["expr"], fields, n, idx)))
            except Refused:
                return
            except Exception as e:
                fail(f"CELL: the expression is accepted on the fields but NumPy refuses it at cell {idx}: {type(e).__name__}: {e}")
                return
            got = res.array[idx]
            if exp.shape != got.shape:
                fail(f"CELL: cell {idx} has {got.shape[0]} components, the expression evaluated at that cell has shape {exp.shape}")
                return
            if case["kind"] == "angle":
                # compare cosines; a zero vector (cosine 0/0) is outside the property; nan is the answer only where the
                # cosine is +-1 up to rounding
                tol = 1e-5 if single else 1e-9
                if np.iscomplexobj(cosv) or not np.isfinite(cosv):
                    ok = True
                elif np.isnan(got[0]):
                    ok = abs(cosv) >= 1 - tol
                else:
                    ok = abs(np.cos(float(got[0])) - min(1.0, max(-1.0, float(cosv)))) <= tol
            elif case["kind"] == "phase":
                # transcendental leaf: signed zeros / |cos| rounding above 1 give +-pi or nan on either side (IEEE, outside the property)
                ok = np.all(np.isnan(got) | np.isnan(exp) | np.isclose(got, exp, rtol=1e-5 if single else 1e-9, atol=1e-5 if single else 1e-7)
                            | np.isclose(np.abs(got - exp), 2 * np.pi, atol=1e-5) | np.isclose(np.abs(got - exp), np.pi, atol=1e-5))
            elif loose:
                # division by an exact zero gives inf/nan whose sign follows the sign of the zero (IEEE, outside the property)
                fin = np.isfinite(got) & np.isfinite(exp)
                ok = bool(np.all(np.isfinite(got) == np.isfinite(exp))) and \
                    np.allclose(got[fin], exp[fin], rtol=1e-5 if single else 1e-12, atol=1e-300)
            else:
                ok = np.array_equal(got, exp)
            if not ok:
                fail(f"CELL: cell {idx} of the result is {got.tolist()}, the same expression evaluated at that cell gives {exp.tolist()}")
                return


def check_ref(case, res, fields, fail, obs):
    """tolerance regime: the result against the expression evaluated by NumPy on the whole arrays, within the running
    rounding bound; the bound travels in obs for the comparison with the exact model value"""
    n = [int(k) for k in res.mesh.n]
    ref = Ref([f.array for f in fields], n)
    with np.errstate(all="ignore"):
        try:
            val, err = ref.ev(case["expr"])
        except Refused:
            return
        except Exception as e:
            fail(f"CELL: the expression is accepted on the fields but NumPy refuses it on the arrays: {type(e).__name__}: {e}")
            return
    got = res.array
    if np.shape(val) != got.shape:
        fail(f"CELL: the result array has shape {got.shape}, the expression evaluated by NumPy on the arrays has shape {np.shape(val)}")
        return
    if ref.overflow:
        obs["tags"].append("integer-range-left")
        obs["skip_model"] = True
    with np.errstate(all="ignore"):
        if case["kind"] == "mangle":
            c, ec = ref.cos
            u = _unit(got)[0]
            tol = 4 * ec + 16 * u
            cg = np.cos(got.astype(np.float64))
            cc = np.clip(c.astype(np.float64), -1, 1)
            decided = np.isfinite(c) & np.isfinite(tol)
            bad = decided & np.where(np.isnan(got), np.abs(c) < 1 - tol, ~(np.abs(cg - cc) <= tol))
            obs["tol"] = [float(t) if d else None for t, d in zip(tol.reshape(-1), decided.reshape(-1))]
            obs["tags"].append("angle:" + case.get("how", "?"))
            if np.any(np.isfinite(c) & (np.abs(c) >= 1 - 1e-9)):
                obs["tags"].append("angle:(anti)parallel-cells")
        else:
            err = np.broadcast_to(np.asarray(err, dtype=float), got.shape)
            decided = np.isfinite(val) & np.isfinite(err)
            wide = lambda a: a.astype(np.clongdouble if np.iscomplexobj(a) else np.longdouble)  # exact for int64
            bad = decided & ~(np.abs(wide(got) - wide(np.asarray(val))) <= 4 * err)
            obs["tol"] = [float(t) if d else None for t, d in zip((4 * err).reshape(-1), decided.reshape(-1))]
            m = _mag(val)[decided & (_mag(val) > 0)]
            if m.size:
                obs["tags"].append("result-magnitude:" + mag_bucket(float(np.log2(np.max(m)))))
        if not np.all(decided):
            obs["tags"].append("undecided-cells(non-finite / unbounded error)")
    if np.any(bad):
        idx = tuple(int(i) for i in np.argwhere(bad)[0])
        fail(f"CELL: entry {idx} of the result is {got[idx]!r}, the same expression evaluated by NumPy on the arrays gives "
             f"{(np.arccos(ref.cos[0]) if case['kind'] == 'mangle' else val)[idx]!r} (rounding bound {obs['tol'][int(np.ravel_multi_index(idx, got.shape))]:.3g}"
             f"{' on the cosine' if case['kind'] == 'mangle' else ''})")


def check_stack(f, fail, what):
    if f.vdims is None or f.nvdim < 1:
        return None
    before = snap(f)
    try:
        comps = [getattr(f, l) for l in f.vdims]
        st = reduce(operator.lshift, comps)
    except Exception as e:
        fail(f"STACK: stacking the components of {what} raises {type(e).__name__}: {e}")
        return None
    if snap(f) != before:
        fail(f"PURE: stacking the components of {what} modified it: {snap_diff(before, snap(f))}")
    bad = [x for x in same_field(st, f) if x in ("mesh", "nvdim", "array", "valid")]
    if bad:
        fail(f"STACK: stacking the components of {what} (vdims {f.vdims}) does not reproduce its {bad}")
    return st


def run_pair(case, obs, fields, fail):
    """two-output ufunc call on the real code: np.divmod(l, r) / np.modf(l), with the property's checks (cell by cell,
    one mesh, validity, operands untouched, refusals)"""
    def opd(node):
        return fields[node["k"]] if node["t"] == "leaf" else build_opd(node)
    obs["tags"].append("pair:" + case["how"])
    lv = opd(case["l"])
    rv = lv if case["r"] is case["l"] or case["r"] == case["l"] else opd(case["r"])
    before = [snap(lv), snap(rv)]
    err = None
    with np.errstate(all="ignore"):
        try:
            res = np.modf(lv) if case["fn"] == "modf" else np.divmod(lv, rv)
        except Exception as e:
            res, err = None, e
    for v, b in zip([lv, rv], before):
        if snap(v) != b:
            fail(f"PURE: evaluating {case['fn']} modified its operand: {snap_diff(b, snap(v))} changed")
    obs["nontrivial"] = False
    if err is not None:
        obs["res"] = "err"
        obs["tags"].append("refused:" + type(err).__name__)
        return
    if not (isinstance(res, tuple) and len(res) == 2 and all(isinstance(x, df.Field) for x in res)):
        obs["res"] = "raw"
        fail(f"RESULT: {case['fn']} evaluates to {type(res).__name__}, not a pair of Fields")
        return
    obs["res"] = [field_obs(x) for x in res]
    obs["tags"].append(f"ok-nvdim:{res[0].nvdim}")
    lf, rf = isinstance(lv, df.Field), isinstance(rv, df.Field)
    if lf and rf:
        if really_different(lv.mesh, rv.mesh):
            fail(f"MESH: {case['fn']} accepted two fields that live on different meshes")
        if lv.nvdim != rv.nvdim and lv.nvdim > 1 and rv.nvdim > 1:
            fail(f"NVDIM: {case['fn']} accepted fields with {lv.nvdim} and {rv.nvdim} components")
    src = [v for v in (lv, rv) if isinstance(v, df.Field)]
    valid = reduce(np.logical_and, [np.asarray(v.valid) for v in src])
    n = tuple(int(k) for k in src[0].mesh.n)
    fns = (np.floor_divide, np.remainder)
    with np.errstate(all="ignore"):
        for j, g in enumerate(res):
            if not (g.mesh == src[0].mesh and mesh_state(g.mesh)[:6] == mesh_state(src[0].mesh)[:6]):
                fail(f"MESHKEPT: result {j} of {case['fn']} does not live on the mesh of its operands")
            if not np.array_equal(np.asarray(g.valid), valid):
                fail(f"VALID: result {j} of {case['fn']} is not valid exactly where all field operands are")
            for idx in np.ndindex(*n):
                x = np.array(lv.array[idx]) if lf else np.asarray(lv)
                y = np.array(rv.array[idx]) if rf else np.asarray(rv)
                exp = np.atleast_1d(fns[j](x, y))
                got = g.array[idx]
                if exp.shape != got.shape or not np.array_equal(got, exp, equal_nan=True):
                    fail(f"CELL: cell {idx} of result {j} of {case['fn']} is {got.tolist()}, the same expression evaluated at "
                         f"that cell gives {exp.tolist()}")
                    break
    obs["nontrivial"] = bool(res[0].array.size > 1 and not np.all(res[0].array == res[0].array.reshape(-1)[0]))


def run_umethod(case, obs, fields, fail):
    """np.<ufunc>.reduce / .accumulate / .outer on fields and binary ufunc calls with out=<Field> on the real code.  Property-level
    checks: an accepted call yields a field on the mesh of its field inputs whose array is the same NumPy expression on the
    arrays and which is valid where all field inputs are; the inputs stay untouched (the `out` field may change in its array
    only); inputs on different meshes are refused."""
    def opd(node):
        return fields[node["k"]] if node["t"] == "leaf" else build_opd(node)
    how, fnname = case["how"], case["fn"]
    uf = UMETHOD_FN[fnname]
    obs["tags"].append(f"umethod:{how}:{case['sub']}")
    lv = opd(case["l"])
    rv = opd(case["r"]) if case["r"] is not None else None
    outf = fields[case["out"]] if case["out"] is not None else None
    ndim = len(fields[0].mesh.n)
    axis = case["axis"]
    if axis is not None and case.get("neg") and axis <= ndim:
        axis_arg = axis - (ndim + 1)      # the same axis counted from the end
    else:
        axis_arg = axis
    ins = [v for v in (lv, rv) if v is not None]
    before = [snap(v) for v in ins]
    out_before = snap(outf) if outf is not None else None
    out_arr0 = outf.array.copy() if outf is not None else None
    if outf is not None:
        # the out field has been USED before the call (anything it might keep from its old values is in place now)
        with np.errstate(all="ignore"):
            for nm in ("norm", "orientation"):
                try:
                    getattr(outf, nm).array
                except Exception:
                    pass
    err = None
    with np.errstate(all="ignore"):
        try:
            if how == "reduce":
                res = uf.reduce(lv, axis=axis_arg, keepdims=case["keep"])
            elif how == "accumulate":
                res = uf.accumulate(lv, axis=axis_arg)
            elif how == "outer":
                res = uf.outer(lv, rv)
            else:
                res = uf(lv, rv, out=outf)
        except Exception as e:
            res, err = None, e
    for v, b in zip(ins, before):
        if v is outf:
            continue
        if snap(v) != b:
            fail(f"PURE: np.{uf.__name__}.{how if how != 'out' else '__call__(out=)'} modified an input: {snap_diff(b, snap(v))} changed")
    obs["nontrivial"] = False
    if outf is not None:
        a = snap(outf)
        changed = snap_diff(out_before, a)
        if [c for c in changed if c != "array bytes"]:
            fail(f"OUT: the call changed more than the array of its out= field: {changed}")
        obs["out"] = field_obs(outf)
        obs["mutable_leaf"] = case["out"]
        written = "array bytes" in changed
        obs["tags"].append("out:" + ("written" if written else "untouched") + ("-then-refused" if (written and err is not None) else ""))
        if written:
            # a field is its array: everything derived from the out field is what a fresh field with the same array gives
            with np.errstate(all="ignore"):
                try:
                    fresh = df.Field(outf.mesh, nvdim=outf.nvdim, value=outf.array.copy(), valid=outf.valid.copy(), dtype=outf.array.dtype,
                                     vdims=outf.vdims, vdim_mapping=dict(outf.vdim_mapping), unit=outf.unit)
                    for nm in ("norm", "orientation"):
                        a1, a2 = getattr(outf, nm).array, getattr(fresh, nm).array
                        if not np.array_equal(a1, a2, equal_nan=True):
                            fail(f"OUT: after np.{uf.__name__}(..., out=h), h.{nm} is not the {nm} of the values h now holds "
                                 f"(e.g. {a1.reshape(-1)[:3].tolist()} vs {a2.reshape(-1)[:3].tolist()})")
                except core.SkipCase:
                    raise
                except Exception:
                    pass
    if err is not None:
        obs["res"] = "err"
        obs["tags"].append("refused:" + type(err).__name__)
        return
    if not isinstance(res, df.Field):
        obs["res"] = "raw"
        fail(f"RESULT: np.{uf.__name__}.{how} evaluates to {type(res).__name__}, not a Field")
        return
    obs["res"] = field_obs(res)
    obs["tags"].append(f"ok-nvdim:{res.nvdim}")
    src = [v for v in ins if isinstance(v, df.Field)]
    if len(src) == 2 and really_different(src[0].mesh, src[1].mesh):
        fail(f"MESH: np.{uf.__name__} accepted two input fields that live on different meshes")
    if outf is not None and src and really_different(src[0].mesh, outf.mesh):
        obs["tags"].append("out:on-another-mesh-accepted")
    if src:
        if not (res.mesh == src[0].mesh and mesh_state(res.mesh)[:6] == mesh_state(src[0].mesh)[:6]):
            fail(f"MESHKEPT: the result of np.{uf.__name__}.{how} does not live on the mesh of its field inputs")
        valid = reduce(np.logical_and, [np.asarray(v.valid) for v in src])
        if not np.array_equal(np.asarray(res.valid), valid):
            fail(f"VALID: the result of np.{uf.__name__}.{how} is not valid exactly where all field inputs are")
    # the same NumPy expression on the arrays (inputs as they were before the call)
    arrs = []
    for v, b in zip(ins, before):
        if isinstance(v, df.Field):
            arrs.append(np.frombuffer(b[1], dtype=b[2]).reshape(b[3]))
        else:
            arrs.append(v)
    with np.errstate(all="ignore"):
        if how == "reduce":
            exp = uf.reduce(arrs[0], axis=axis_arg, keepdims=case["keep"])
        elif how == "accumulate":
            exp = uf.accumulate(arrs[0], axis=axis_arg)
        elif how == "outer":
            exp = uf.outer(arrs[0], arrs[1])
        else:
            exp = uf(arrs[0], arrs[1], out=out_arr0)
    exp = np.asarray(exp)
    if exp.shape != res.array.shape or not np.array_equal(res.array, exp, equal_nan=True):
        fail(f"NUMPY: the array of np.{uf.__name__}.{how}(...) on fields differs from the same call on the arrays "
             f"(shape {res.array.shape} vs {exp.shape})")
    if outf is not None and not np.array_equal(outf.array, exp, equal_nan=True):
        fail(f"OUT: after np.{uf.__name__}(..., out=h) the array of h is not the result")
    obs["nontrivial"] = bool(res.array.size > 1 and not np.all(res.array == res.array.reshape(-1)[0]))


def field_obs(f):
    arr = np.asarray(f.array).reshape(-1)
    if np.iscomplexobj(arr):
        data = [[Q(float(z.real)), Q(float(z.imag))] if np.isfinite(z) else None for z in arr.tolist()]
    else:
        data = [[Q(z) if isinstance(z, int) else Q(float(z)), "0"] if np.isfinite(z) else None for z in arr.tolist()]
    return dict(mesh=fieldio.mesh_json(f.mesh), nvdim=int(f.nvdim), data=data,
                valid=[bool(v) for v in np.asarray(f.valid).reshape(-1).tolist()],
                vdims=(list(f.vdims) if f.vdims is not None else None),
                vmap=sorted([[k, v] for k, v in f.vdim_mapping.items()], key=lambda p: p[0]),
                unit=f.unit, kind=kind_of_dtype(f.array.dtype), shape=list(f.array.shape), vshape=list(np.asarray(f.valid).shape))


def run_impl(case):
    obs = {"oracle": [], "tags": ["kind:" + case["kind"]]}
    fail = obs["oracle"].append
    meshes = [fieldio.build_mesh(s) for s in case["meshes"]]
    fields = [build_field(fs, meshes) for fs in case["fields"]]
    obs["leaf_kinds"] = [kind_of_dtype(f.array.dtype) for f in fields]
    leaf_snaps = [snap(f) for f in fields]
    obs["leaves"] = [leaf_json(f) for f in fields]
    for fs in case["fields"]:
        obs["tags"].append("dtype:" + str(fs["dtype"]))
    obs["tags"].append(f"ndim:{len(meshes[0].n)}")
    obs["tags"].append("cells-along-longest-axis:" + next(f"<={b}" for b in (4, 8, 64, 512, 4096, 10 ** 9) if max(meshes[0].n) <= b))
    mm = case["meshes"][0].get("mag")
    obs["tags"].append("mesh-scale:2^j:" + (mag_bucket(mm[0]) if mm else "as-generated") + ("+far-from-origin" if mm and mm[1] else ""))
    for k in case.get("scaled", []):
        obs["tags"].append("scaled:2^k:" + mag_bucket(k))
    if case["kind"] == "stack":
        f = fields[0]
        st = check_stack(f, fail, "a leaf field")
        obs["res"] = field_obs(st) if st is not None else "err"
        obs["nontrivial"] = f.nvdim > 1
        obs["tags"].append(f"stack-nvdim:{f.nvdim}")
    elif case["kind"] == "pair":
        run_pair(case, obs, fields, fail)
    elif case["kind"] == "umethod":
        run_umethod(case, obs, fields, fail)
    else:
        mf = case["kind"] in ("mtree", "mangle")
        single = any(fs["dtype"] in ("float32", "complex64") for fs in case["fields"])
        ev = Evaluator(fields, fail, obs["tags"], rtol=(1e-5 if single else 1e-13) if mf else None)
        with np.errstate(all="ignore"):
            try:
                res = ev.ev(case["expr"])
            except Refused as e:
                res = None
                obs["tags"].append("refused:" + str(e))
        ops = tree_ops(case["expr"])
        for o in set(ops):
            obs["tags"].append("op:" + o)
        if res is None:
            obs["res"] = "err"
        elif not isinstance(res, df.Field):
            obs["res"] = "raw"
            fail(f"RESULT: the expression evaluates to {type(res).__name__}, not a Field")
        else:
            obs["res"] = field_obs(res)
            obs["tags"].append(f"ok-nvdim:{res.nvdim}")
            # on that mesh
            first = first_leaf(case["expr"])
            if first is not None and not (res.mesh == fields[first].mesh and mesh_state(res.mesh)[:6] == mesh_state(fields[first].mesh)[:6]):
                fail("MESHKEPT: the result does not live on the mesh of its operands")
            obs["lift_ok"] = lift_ok(case["expr"], [int(k) for k in res.mesh.n])
            if not obs["lift_ok"]:
                obs["tags"].append("mesh-shaped-operand-under-shl/angle")
            if mf and obs["lift_ok"]:
                check_ref(case, res, fields, fail, obs)
                if res.nvdim >= 2 and not np.isnan(res.array).any():
                    check_stack(res, fail, "the result")
            elif len(case["meshes"]) == 1 and obs["lift_ok"] and not mf:
                check_cellwise(case, res, fields, fail)
                if res.nvdim >= 2 and not np.isnan(res.array).any():
                    check_stack(res, fail, "the result")
        obs["nontrivial"] = bool(isinstance(res, df.Field) and ops and (res.array.size > 1)
                                 and not np.all(res.array == res.array.reshape(-1)[0]))
        obs["tags"].append("depth:" + str(depth(case["expr"])))
    for k, (f, b) in enumerate(zip(fields, leaf_snaps)):
        a = snap(f)
        if a != b and not (k == obs.get("mutable_leaf") and snap_diff(b, a) == ["array bytes"]):
            fail(f"PURE: leaf field {k} changed during the evaluation: {snap_diff(b, a)}")
    return obs


def first_leaf(node):
    if node["t"] == "leaf":
        return node["k"]
    if node["t"] == "un":
        return first_leaf(node["e"])
    if node["t"] == "bin":
        a = first_leaf(node["l"])
        return a if a is not None else first_leaf(node["r"])
    return None


def depth(node):
    if node["t"] == "un":
        return 1 + depth(node["e"])
    if node["t"] == "bin":
        return 1 + max(depth(node["l"]), depth(node["r"]))
    return 0


# ====================================================================== model side
def gq(re, im="0"):
    return re if F(im) == 0 else f"{re}|{im}"


def leaf_json(f):
    o = field_obs(f)
    return dict(mesh=o["mesh"], nvdim=o["nvdim"], data=[gq(*z) for z in o["data"]], valid=o["valid"], vdims=o["vdims"],
                vmap=[[k, v] for k, v in f.vdim_mapping.items()], unit=o["unit"], kind=o["kind"])


NUMKIND = {"int": "int", "float": "float", "complex": "complex", "np.float64": "float", "np.int64": "int", "np.complex128": "complex",
           "np.float32": "float"}


def expr_json(node):
    t = node["t"]
    if t == "leaf":
        return dict(t="leaf", k=node["k"])
    if t == "num":
        return dict(t="num", z=gq(*node["v"]), kind=NUMKIND[node["py"]], np=node["py"].startswith("np."))
    if t == "arr":
        im = node["im"] or ["0"] * len(node["re"])
        return dict(t="arr", shape=node["shape"], data=[gq(a, b) for a, b in zip(node["re"], im)],
                    kind=kind_of_dtype(DTYPES[node["dtype"]]), np=node["py"] == "ndarray")
    if t == "un":
        return dict(t="un", op=node["op"], e=expr_json(node["e"]))
    return dict(t="bin", op=node["op"], l=expr_json(node["l"]), r=expr_json(node["r"]))


def model_requests(case, obs):
    fields = obs["leaves"]
    if case["kind"] == "stack":
        return [dict(op="stack", field=fields[0])]
    if case["kind"] == "pair":
        if case["fn"] == "modf":
            return [dict(op="pair1", field=fields[case["l"]["k"]])]
        return [dict(op="pair", fields=fields, l=expr_json(case["l"]), r=expr_json(case["r"]))]
    if case["kind"] == "umethod":
        req = dict(op="umethod", how=case["how"], fn=case["fn"], fields=fields, l=expr_json(case["l"]), keep=bool(case["keep"]),
                   axis=case["axis"])
        if case["r"] is not None:
            req["r"] = expr_json(case["r"])
        if case["out"] is not None:
            req["out"] = case["out"]
        return [req]
    e = expr_json(case["expr"])
    if case["kind"] in ("angle", "mangle"):
        return [dict(op="eval", fields=fields, expr=e, sq="id"), dict(op="eval", fields=fields, expr=e, sq="one")]
    if case["kind"] == "phase":
        return [dict(op="eval", fields=fields, expr=e), dict(op="eval", fields=fields, expr=e["e"])]
    return [dict(op="eval", fields=fields, expr=e)]


def cmp_meta(name, got, mj, dis):
    if got["mesh"]["n"] != mj["mesh"]["n"]:
        dis.append(f"{name}: n impl {got['mesh']['n']} vs model {mj['mesh']['n']}")
        return False
    for key in ("pmin", "pmax"):
        if [F(x) for x in got["mesh"]["region"][key]] != [F(x) for x in mj["mesh"]["region"][key]]:
            dis.append(f"{name}: region {key} impl {got['mesh']['region'][key]} vs model {mj['mesh']['region'][key]}")
    for key in ("dims", "units"):
        if got["mesh"]["region"][key] != mj["mesh"]["region"][key]:
            dis.append(f"{name}: region {key} impl {got['mesh']['region'][key]} vs model {mj['mesh']['region'][key]}")
    if got["mesh"]["bc"] != mj["mesh"]["bc"]:
        dis.append(f"{name}: bc impl {got['mesh']['bc']} vs model {mj['mesh']['bc']}")
    if got["nvdim"] != mj["nvdim"]:
        dis.append(f"{name}: nvdim impl {got['nvdim']} vs model {mj['nvdim']}")
        return False
    if got["shape"] != mj["shape"] or got["vshape"] != mj["vshape"]:
        dis.append(f"{name}: array/valid shape impl {got['shape']}/{got['vshape']} vs model {mj['shape']}/{mj['vshape']}")
        return False
    if got["vdims"] != mj["vdims"]:
        dis.append(f"{name}: vdims impl {got['vdims']} vs model {mj['vdims']}")
    if got["vmap"] != sorted(mj["vmap"], key=lambda p: p[0]):
        dis.append(f"{name}: vdim_mapping impl {got['vmap']} vs model {mj['vmap']}")
    if got["unit"] != mj["unit"]:
        dis.append(f"{name}: unit impl {got['unit']} vs model {mj['unit']}")
    if got["kind"] != mj["kind"]:
        dis.append(f"{name}: dtype kind impl {got['kind']} vs model {mj['kind']}")
    if got["valid"] != mj["valid"]:
        k = next(i for i, (a, b) in enumerate(zip(got["valid"], mj["valid"])) if a != b)
        dis.append(f"{name}: validity differs (first at flat cell {k}: impl {got['valid'][k]})")
    if mj.get("scalar") is False:
        dis.append(f"{name}: MODEL-INTERNAL an entry of the code-shaped model result is not the tree of scalars at that entry "
                   "(theorem eval_scalar_tree contradicted?)")
    if mj.get("spec") is False and LIFT_OK[0]:
        dis.append(f"{name}: MODEL-INTERNAL the code-shaped model result is not the per-cell specification (theorem eval_cellwise contradicted?)")
    return True


def parse_gq(s):
    if "|" in s:
        a, b = s.split("|")
        return F(a), F(b)
    return F(s), Fraction(0)


def cmp_data_exact(name, got, mj, dis):
    for k, (z, s) in enumerate(zip(got["data"], mj["data"])):
        if z is None:
            dis.append(f"{name}: impl value at flat position {k} is not finite (model {s})")
            return
        a, b = parse_gq(s)
        if F(z[0]) != a or F(z[1]) != b:
            dis.append(f"{name}: value at flat position {k}: impl {z} vs model {s}")
            return


LIFT_OK = [True]


def compare(case, obs, rs):
    dis = []
    LIFT_OK[0] = obs.get("lift_ok", True)
    r = rs[0]
    name = case["kind"]
    if case["kind"] == "umethod" and case["how"] == "out":
        # the state of the out= field after the call (whether or not the call was refused), then the returned field
        if "ok" not in r:
            dis.append(f"umethod out: model driver error {r}")
            return dis
        if cmp_meta("out= field after the call", obs["out"], r["ok"]["out"], dis):
            cmp_data_exact("out= field after the call", obs["out"], r["ok"]["out"], dis)
        if r["ok"].get("spec") is False:
            dis.append("umethod out: MODEL-INTERNAL the returned field does not hold the array written to out (theorem out_entries contradicted?)")
        r = r["ok"]["res"]
        name = "umethod out"
    if obs["res"] == "err":
        if "err" not in r:
            dis.append(f"{name}: impl refuses, model accepts")
        return dis
    if obs["res"] == "raw":
        if not (isinstance(r.get("ok"), dict) and r["ok"].get("raw")):
            dis.append(f"{name}: impl gives a non-field, model {list(r)}")
        return dis
    if case["kind"] == "pair":
        if "ok" not in r:
            dis.append(f"pair: impl accepts, model {r}")
            return dis
        for j, key in enumerate(("a", "b")):
            got, mj = obs["res"][j], r["ok"][key]
            if cmp_meta(f"pair[{j}]", got, mj, dis):
                cmp_data_exact(f"pair[{j}]", got, mj, dis)
        if r["ok"].get("spec") is False:
            dis.append("pair: MODEL-INTERNAL the code-shaped model result is not the per-cell specification "
                       "(theorem pair_cellwise contradicted?)")
        return dis
    if "ok" not in r or r["ok"].get("raw"):
        dis.append(f"{name}: impl accepts (nvdim {obs['res']['nvdim']}), model {r if 'err' in r else 'raw'}")
        return dis
    got, mj = obs["res"], r["ok"]
    if not cmp_meta(name, got, mj, dis):
        return dis
    single = any(fs["dtype"] in ("float32", "complex64") for fs in case["fields"])
    if case["kind"] in ("mtree", "mangle") and obs.get("skip_model"):
        return dis
    if case["kind"] == "mangle":
        # as for `angle` below, with the running rounding bound of the reference evaluation as tolerance on the cosine
        if "ok" not in rs[1]:
            dis.append("mangle: model refuses the second evaluation")
            return dis
        for k, (z, s1, s2, tol) in enumerate(zip(got["data"], mj["data"], rs[1]["ok"]["data"], obs.get("tol", []))):
            if tol is None:
                continue
            v1, d = parse_gq(s1)[0], parse_gq(s2)[0]
            c2 = v1 * d
            cosm = (1.0 if d > 0 else -1.0 if d < 0 else 0.0) * (float(max(c2, Fraction(0))) ** 0.5)
            if z is None:
                if not ((d == 0 and v1 == 0) or abs(cosm) >= 1 - tol):
                    dis.append(f"mangle: cell {k}: impl nan, model cos {cosm}")
                    break
                continue
            if abs(np.cos(float(F(z[0]))) - max(-1.0, min(1.0, cosm))) > tol or F(z[1]) != 0:
                dis.append(f"mangle: cell {k}: cos(impl) {np.cos(float(F(z[0])))} vs model {cosm} (rounding bound {tol:.3g})")
                break
        return dis
    if case["kind"] == "mtree":
        if mj.get("inexact"):
            obs["tags"].append("model-inexact-root-skipped")
            return dis
        for k, (z, s, tol) in enumerate(zip(got["data"], mj["data"], obs.get("tol", []))):
            if tol is None:
                continue
            a, b = parse_gq(s)
            if z is None:
                dis.append(f"mtree: position {k}: impl not finite, model {float(a)}{'+' + str(float(b)) + 'j' if b else ''}")
                break
            t = Fraction(tol)
            if abs(F(z[0]) - a) > t or abs(F(z[1]) - b) > t:
                dis.append(f"mtree: position {k}: impl {float(F(z[0]))}{'+' + str(float(F(z[1]))) + 'j' if b else ''} vs model "
                           f"{float(a)}{'+' + str(float(b)) + 'j' if b else ''} (rounding bound {tol:.3g})")
                break
        return dis
    if case["kind"] == "angle":
        # model with sq=id, acos=id gives d/(A*B); with sq=1 gives d; cos = sign(d) * sqrt(d/(A*B) * d)
        m1, m2 = mj["data"], rs[1]["ok"]["data"]
        for k, (z, s1, s2) in enumerate(zip(got["data"], m1, m2)):
            v1, d = parse_gq(s1)[0], parse_gq(s2)[0]
            zero_vec = (v1 == 0 and d != 0)  # Rat division by a zero norm gives 0 in the model
            c2 = float(v1 * d)
            cosm = (1.0 if d > 0 else -1.0 if d < 0 else 0.0) * (max(c2, 0.0) ** 0.5)
            if z is None:
                # nan: a zero vector (0/0), or rounding pushed |cos| above 1 for (anti)parallel vectors (IEEE, outside the model)
                if not (zero_vec or (d == 0 and v1 == 0) or abs(cosm) >= 1 - 1e-6):
                    dis.append(f"angle: cell {k}: impl nan, model cos {cosm}")
                    break
                continue
            if zero_vec:
                dis.append(f"angle: cell {k}: a zero vector is involved, impl gives {z} instead of nan")
                break
            if abs(np.cos(float(F(z[0]))) - cosm) > (1e-5 if single else 1e-9) or F(z[1]) != 0:
                dis.append(f"angle: cell {k}: cos(impl) {np.cos(float(F(z[0])))} vs model {cosm}")
                break
        return dis
    if case["kind"] == "phase":
        if "ok" not in rs[1]:
            dis.append("phase: model refuses the operand")
            return dis
        for k, (z, s) in enumerate(zip(got["data"], rs[1]["ok"]["data"])):
            a, b = parse_gq(s)
            exp = float(np.angle(complex(float(a), float(b))))
            if z is None:
                dis.append(f"phase: position {k}: impl not finite")
                break
            v = float(F(z[0]))
            tol = 1e-6 if single else 1e-12
            ok = abs(v - exp) <= tol
            if not ok and b == 0 and a <= 0:
                # signed zeros (IEEE, outside the model): -0.0 imaginary part gives -pi, -0.0 real part gives +-pi
                ok = abs(abs(v) - np.pi) <= tol or (a == 0 and abs(v) <= tol)
            if not ok:
                dis.append(f"phase: position {k}: impl {v} vs angle of model value {s} = {exp}")
                break
        return dis
    if mj.get("inexact"):
        obs["tags"].append("model-inexact-root-skipped")
        return dis
    if case["kind"] == "tdiv":
        scale = max([abs(float(x)) for s in mj["data"] for x in parse_gq(s)] + [1e-300])
        for k, (z, s) in enumerate(zip(got["data"], mj["data"])):
            a, b = parse_gq(s)
            if z is None:
                if not (a == 0 and b == 0):
                    dis.append(f"tdiv: position {k}: impl not finite, model {s}")
                    break
                continue
            tol = Fraction(2) ** (-18 if single else -40) * Fraction(scale)
            if abs(F(z[0]) - a) > tol or abs(F(z[1]) - b) > tol:
                dis.append(f"tdiv: position {k}: impl {z} vs model {s}")
                break
        return dis
    cmp_data_exact(name, got, mj, dis)
    return dis


def nontrivial(case, obs):
    return bool(obs.get("nontrivial"))


def known(case, text):
    """open known findings, by input class (the class tag is computed from the operands of the failing step)"""
    if text.startswith("COMM[D10]"):
        return "D10"   # + or * between two fields with nvdim>1 whose labels or mappings differ; only labels/mapping differ
    if text.startswith("COMM[D52]"):
        return "D52"   # Field and NumPy object under + or *: one order is accepted, the other raises
    if text.startswith("COMM[D51]"):
        return "D51"   # two one-component fields with different (explicit) labels: labels of the left operand; only labels/mapping differ
    # D53: integer fields holding values beyond 2^53 (results are rebuilt as binary64); by input class: the case has an
    # int64 leaf whose data leave the 53-bit range
    if case.get("kind") in ("mtree", "long", "scaled") and (_has_bigint(case) or _int_leaf_and_big_numbers(case, text)):
        return "D53"
    return None


def _int_leaf_and_big_numbers(case, text):
    """an int64 leaf is involved and the numbers of the failing cell are beyond 2^53 (an int64 intermediate left the
    53-bit range although the leaves did not)"""
    import re as _re
    if not any(str(f.get("dtype")).startswith(("int", "uint")) for f in case.get("fields", [])):
        return False          # an integer leaf of any width (an int32 field times a Python int is an int64 array)
    for tok in _re.findall(r"[-+]?\d+\.?\d*(?:[eE][-+]?\d+)?", text):
        try:
            if abs(float(tok)) >= 2.0 ** 53:
                return True
        except ValueError:
            pass
    return False


def _has_bigint(case):
    from fractions import Fraction as _Fr
    lim = 2 ** 53
    for f in case.get("fields", []):
        if str(f.get("dtype")) == "int64":
            for key in ("re", "im", "data"):
                for v in f.get(key) or []:
                    try:
                        if abs(_Fr(v)) > lim:
                            return True
                    except (ValueError, TypeError, ZeroDivisionError):
                        pass
    return False


def search(case, rng):
    for _ in range(150):
        spec, dims, fields = gen_env(rng, "quick")
        tg = TreeGen(rng, fields, spec["n"], 3)
        g = tg.gen(rng.randint(1, 3))
        yield dict(kind="tree", meshes=[spec], fields=fields, expr=g.node)
