"""C13 — geometric invariants and in-place == copy hold after any transformation sequence."""
import copy
import random
from fractions import Fraction

import numpy as np

from . import core, fieldio, tcommon as tc
from .core import Q, Qs, F

import discretisedfield as df

PID = "C13"
RULE = ("histories of 1-8 (quick) / 1-20 (thorough) public transformation calls (translate, scale with scalar or per-axis, "
        "positive/negative/zero factors, default/near/far reference points, rotate90 over all ordered axis pairs, k in -6..6) on "
        "regions, meshes (0-3 overlapping subregions) and fields (1-4 components, masks, permuted/partial/empty mappings), every "
        "mix of in-place and copying steps, ~8 % malformed arguments. After EVERY step on the real code: invariants, the documented "
        "affine map, in-place result is the receiver and equals what the copying form returns (lock-step on a deep copy), copying "
        "form leaves the receiver untouched, rejected steps rejected in both forms without modification, and at the end every object "
        "ever created is still in the state it was last legitimately left in (catches aliasing between copies). Model history is "
        "compared step by step (receiver and returned object). Store sessions (round 3): caller-made Region objects, meshes built from them (the "
        "same candidates for two meshes / under two names / a mesh's own region or subregions as candidates), in-place and copying steps on meshes "
        "and on the caller's Region objects, re-assigned subregions - after EVERY statement the store model must name the same objects as `is` does and "
        "give every nameable Region object the same corners; oracle: a mesh holds copies, no Region object is held twice, an in-place step changes "
        "nothing outside its mesh, a rejected statement changes nothing. non-trivial = at least 2 accepted steps incl. one non-translation")
TRUSTED = ["harness/c13.py, harness/tcommon.py + driver JSON glue (incl. the resolution of object names {res / mesh part / mesh sub} to ids in the store_session op)",
           "the matrix of k quarter turns is the exact integer matrix in model and code (repo fixes 1656fb93, d6b0640f); corners compared with a 2^-40 relative bound for the rounding of ref + M(p - ref)"]
ASSUMPTIONS = ["dyadic arguments: translate/scale steps are exact in binary64; rotation steps carry float cos/sin error"]
UNPROVED = ["receiver immutability, 'returns self' and 'a rejected step leaves the object unmodified' are now PROVED for meshes in the store model of Region/Mesh OBJECTS (Model/C13Store.lean, tied to the code by the session stream: identity via `is`, values via corners, after every statement): inplace_mesh_step_in_store (evaluates to the mesh itself, value = stepM's receiver), rejected_inplace_mesh_step_changes_nothing (although the store model moves the Region objects one after the other), inplace_step_frame, copy_mesh_step_in_store, constructor_and_setter_in_store, region_step_frame, inplace_history_in_store (= runM). Still assumed, observed by snapshots on the real code: atomicity of ONE in-place Region method (all checks before the first assignment - `updReg`), and everything about Field objects (the store model has no fields: array / validity / mapping ownership is observed by the independence probe)",
            "ownership: since repo fix 12c808de (finding D134, found by this store model: Mesh(region=R) kept R by reference, so two meshes built on one Region object shared it) the constructor copies the region object as the setter copies the subregions; the model follows (mkMeshS), exclusive ownership holds after EVERY session without any discipline of the caller (store_invariant_after_any_session, exclusive_ownership_after_any_session, region_not_shared_witness) and the session oracle now judges two meshes on one Region object. What remains the caller's business: a mesh's OWN Region objects can be moved through handles obtained from the mesh (mesh.region, mesh.subregions[name]) - that changes that object and that mesh only (region_step_frame) but can break that mesh's SubInv; such sessions are generated ('undisciplined'), judged for ownership and frame, not for SubInv",
            "mesh/field-level complete equivalence of the two forms (step_forms_mesh, inplace_eq_copy_mesh_complete, inplace_eq_copy_field, history_forms_agree_*) covers periodic bc under BcWf: bc lower-case and checked and - for periodic bc - single-character dimension names lower-case; for upper-case single-character dimension names the letter swap does not commute with the setter's str.lower - outside the generators",
            "the mesh/field-level form theorems assume SubInv in exact arithmetic; WITHOUT it the relation of the two forms is now exact too: the copying form is the constructor applied to the in-place result and is accepted iff that result passes the bc check and the setter's three tolerant tests (DFV.C14.copy_form_is_constructor_of_inplace, copy_accepted_iff_inplace_passes) - so in binary64 the copying form rejects where the in-place form succeeds exactly when rounding pushes a subregion corner off the lattice by more than the ABSOLUTE 1e-12 (D18, DFV.C14.d18_aligned_rejected_iff) - observed by the harness, the rounding itself is outside the rational model"]
BUDGET = {"quick": 90, "thorough": 900}


def cases(rng, tier):
    n = 450 if tier == "quick" else 3000
    maxlen = 8 if tier == "quick" else 20
    for k in range(n):
        kind = ("region", "mesh", "field")[k % 3]
        spec = tc.gen_object_spec(rng, kind)
        L = rng.randint(1, maxlen)
        has_subs = bool(spec.get("subs"))
        ops = [tc.gen_op(rng, spec, far=not has_subs, rot_ref_small=True) for _ in range(L)]
        yield dict(obj=spec, ops=ops)
    # nanometre-sized cells far from the origin (every length x 2^-30, exact): meshes WITH subregions under far
    # translations / far reference points, which at unit scale run into the absolute 1e-12 of the alignment test (D18)
    for k in range(60 if tier == "quick" else 500):
        kind = ("mesh", "field")[k % 2]
        spec = tc.gen_object_spec(rng, kind)
        if not spec.get("subs"):
            spec["subs"] = tc.gen_subs(rng, spec["mesh"], rng.randint(1, 3))
        nd = len(spec["mesh"]["p1"])
        ops = [dict(t="translate", v=[float(rng.choice([-1, 1]) * rng.randint(2 ** 15, 2 ** 19)) for _ in range(nd)],
                    inplace=True, form="list")]
        ops += [tc.gen_op(rng, spec, far=False, rot_ref_small=False) for _ in range(rng.randint(1, 5))]
        # every other case in decimal nanometres (nothing representable: rounding errors of the far coordinates are
        # large against the smallest edge, small against the coordinates themselves)
        spec, ops = tc.rescale_case(spec, ops, -30 if k % 4 < 2 else 1e-9)
        yield dict(obj=spec, ops=ops, stream="nm-far")
    # store sessions (round 3): who holds which Region object.  Caller-made Region objects, meshes built from them (the
    # same candidates for two meshes / under two names / the mesh's own region as a candidate), in-place and copying
    # steps on meshes and on the caller's Region objects, re-assigned subregions; compared with the store model after
    # every statement (identity via `is`, values via corners).  Two meshes on ONE Region object are part of every stream
    # (repo fix 12c808de: each gets a region object of its own; the other mesh and the caller's region must not move).
    # One in eight sessions also moves a mesh's own Region objects directly through mesh.region / mesh.subregions[..]:
    # ownership and frame are judged there as well, only SubInv of the mesh the caller moved by hand is not.
    for k in range(120 if tier == "quick" else 900):
        yield dict(session=tc.gen_session(rng, undisciplined=(k % 8 == 7)), stream="session")
    # float-extreme stream (oracle only: the rational model does not absorb): far-away vectors / reference points
    # and tiny factors, where a step can leave a zero edge length in binary64
    for k in range(40 if tier == "quick" else 400):
        nd = rng.choice([1, 2, 3])
        kind = rng.choice(["region", "region", "mesh"])
        ms = dict(p1=[float(rng.randint(-3, 3)) for _ in range(nd)], n=[rng.randint(1, 3) for _ in range(nd)], dims=None, bc="")
        ms["p2"] = [a + float(rng.choice([1, 2, 100])) for a in ms["p1"]]
        spec = dict(kind="region", p1=ms["p1"], p2=ms["p2"], dims=None) if kind == "region" else dict(kind="mesh", mesh=ms)
        big = lambda: [float(rng.choice([1e17, -3e16, 1e30, 0.0, 2.0 ** 60])) * rng.choice([1, 1, -1]) for _ in range(nd)]
        ops = []
        for _ in range(rng.randint(1, 3)):
            t = rng.choice(["translate", "scale", "rotate90"] if nd > 1 else ["translate", "scale"])
            ip = rng.random() < 0.6
            if t == "translate":
                ops.append(dict(t=t, v=big(), inplace=ip))
            elif t == "scale":
                ops.append(dict(t=t, f=float(rng.choice([0.5, 2, -1, 1e-200, 1e-320, 3])), ref=rng.choice([None, big()]), inplace=ip))
            else:
                a1, a2 = rng.sample(["x", "y", "z"][:nd], 2)
                ops.append(dict(t=t, ax1=a1, ax2=a2, k=rng.randint(-3, 3), ref=big(), inplace=ip))
        yield dict(obj=spec, ops=ops, extreme=True)
    # exhaustive: all histories of length <= 2 (quick) / 3 (thorough) over a fixed alphabet on one mesh with subregions
    alpha = [
        dict(t="translate", v=[1.5, -2.0], inplace=True), dict(t="translate", v=[-0.25, 4.0], inplace=False),
        dict(t="scale", f=2.0, ref=None, inplace=True), dict(t="scale", f=-0.5, ref=[1.0, 1.0], inplace=False),
        dict(t="scale", f=[-2.0, 4.0], ref=None, inplace=True), dict(t="scale", f=0.0, ref=None, inplace=True),
        dict(t="scale", f=[2.0, 0.0], ref=None, inplace=False),
        dict(t="rotate90", ax1="x", ax2="y", k=1, ref=None, inplace=True), dict(t="rotate90", ax1="y", ax2="x", k=-3, ref=[0.5, 0.25], inplace=False),
        dict(t="rotate90", ax1="x", ax2="y", k=2, ref=None, inplace=False), dict(t="rotate90", ax1="x", ax2="x", k=1, ref=None, inplace=True),
    ]
    base = dict(kind="mesh", mesh=dict(p1=[0.0, 0.0], p2=[4.0, 1.5], n=[4, 3], dims=None, bc="", units=["m", "s"]),
                subs=[("a", [0.0, 0.0], [2.0, 1.0]), ("b", [1.0, 0.5], [4.0, 1.5])])
    import itertools
    for L in range(1, (2 if tier == "quick" else 3) + 1):
        for combo in itertools.product(range(len(alpha)), repeat=L):
            yield dict(obj=base, ops=[alpha[i] for i in combo], _exh=True)


def expected_corners(before, op):
    """documented affine map on the corner set, exact Fractions; None if not applicable"""
    lo = [Fraction(x) for x in before["pmin"]]
    hi = [Fraction(x) for x in before["pmax"]]
    nd = len(lo)
    if op["t"] == "translate":
        v = [Fraction(x) for x in op["v"]]
        return [a + b for a, b in zip(lo, v)], [a + b for a, b in zip(hi, v)]
    if op["t"] == "scale":
        f = op["f"] if isinstance(op["f"], list) else [op["f"]] * nd
        f = [Fraction(x) for x in f]
        ref = [Fraction(x) for x in op["ref"]] if op["ref"] is not None else [(a + b) / 2 for a, b in zip(lo, hi)]
        c1 = [r + s * (a - r) for r, s, a in zip(ref, f, lo)]
        c2 = [r + s * (a - r) for r, s, a in zip(ref, f, hi)]
        return [min(a, b) for a, b in zip(c1, c2)], [max(a, b) for a, b in zip(c1, c2)]
    return None


def same_state(a, b, rel=2**-40):
    """two snapshots equal (floats within rel of magnitude)"""
    def reg(x, y):
        sc = max([abs(v) for v in x["pmin"] + x["pmax"] + y["pmin"] + y["pmax"]] + [1e-300])
        return (x["dims"] == y["dims"] and x["units"] == y["units"] and x["tol"] == y["tol"]
                and len(x["pmin"]) == len(y["pmin"])
                and all(abs(p - q) <= rel * sc for p, q in zip(x["pmin"] + x["pmax"], y["pmin"] + y["pmax"])))
    if "mesh" in a:
        if not same_state(a["mesh"], b["mesh"], rel):
            return False
        if (a["shape"], a["vshape"], a["vdtype"], a["vdims"], a["vmap"], a["unit"], a["nvdim"], a["valid"]) != \
           (b["shape"], b["vshape"], b["vdtype"], b["vdims"], b["vmap"], b["unit"], b["nvdim"], b["valid"]):
            return False
        x = np.frombuffer(a["data"], dtype=a["dtype"])
        y = np.frombuffer(b["data"], dtype=b["dtype"])
        return x.shape == y.shape and bool(np.allclose(x, y, rtol=0, atol=1e-9 * float(np.abs(x).max(initial=0))))   # relative to the data's own magnitude
    if "region" in a:
        return (reg(a["region"], b["region"]) and a["n"] == b["n"] and a["bc"] == b["bc"]
                and [k for k, _ in a["subs"]] == [k for k, _ in b["subs"]]
                and all(reg(s, t) for (_, s), (_, t) in zip(a["subs"], b["subs"])))
    return reg(a, b)


def run_session_case(case):
    del tc.ARG_CHANGED[:]
    sess = case["session"]
    obs = {"oracle": [], "tags": ["kind:session", "undisciplined" if sess.get("undisciplined") else "disciplined",
                                  f"len:{min(len(sess['stmts']), 12)}"]}
    r = tc.run_session(sess, obs["oracle"].append)
    obs.update(r)
    kinds = [s["t"] for s in r["sent"]]
    obs["tags"] += sorted({"stmt:" + k for k in kinds})
    obs["nontrivial"] = sum(s is not None and s["kind"] == "mesh" for s in r["steps"]) >= 2
    for text in tc.ARG_CHANGED:
        obs["oracle"].append(text)
    del tc.ARG_CHANGED[:]
    return obs


def run_impl(case):
    if "session" in case:
        return run_session_case(case)
    del tc.ARG_CHANGED[:]
    obs = {"oracle": [], "tags": [f"kind:{case['obj']['kind']}", f"len:{len(case['ops'])}"] + (["extreme"] if case.get("extreme") else [])}
    fail = obs["oracle"].append
    cur = tc.build_object(case["obj"])
    obs["start"] = tc.to_json(cur)
    tc.check_inv(cur, fail, "initial object")
    tracked = [(cur, tc.snap(cur))]  # every object ever created, with the state it should still be in
    steps = []
    accepted = 0
    nontransl = 0
    for si, op in enumerate(case["ops"]):
        where = f"step {si} {op}"
        before = tc.snap(cur)
        # --- lock-step: both forms on equal objects.  The form the history asks for acts on the real current
        # object (so aliasing between an object and its copies is exercised); the other form on an equal clone.
        twin = tc.clone(cur)
        mesh_step = isinstance(cur, df.Field) and op["t"] != "rotate90"  # only an in-place form exists
        obj_of = {"inplace": cur, "copy": twin} if op["inplace"] else {"inplace": twin, "copy": cur}
        res = {}
        for form in ("copy", "inplace"):
            if mesh_step and form == "copy":
                continue
            try:
                res[form] = ("ok", tc.apply_op(obj_of[form], op, inplace=(form == "inplace")))
            except Exception as e:
                res[form] = ("err", f"{type(e).__name__}: {str(e)[:120]}")
        if mesh_step:
            res["copy"] = ("skip", None)
        elif res["copy"][0] != res["inplace"][0]:
            why = res["copy"][1] if res["copy"][0] == "err" else res["inplace"][1]
            fail(f"{where}: copying form {res['copy'][0]} but in-place form {res['inplace'][0]} ({why})")
        if not mesh_step and not same_state(tc.snap(obj_of["copy"]), before, rel=0):
            fail(f"{where}: the copying form modified the receiver")
        ip_obj = obj_of["inplace"]
        if res["inplace"][0] == "err" and not same_state(tc.snap(ip_obj), before, rel=0):
            fail(f"{where}: rejected in-place step modified the object")
        if res["inplace"][0] == "ok":
            if res["inplace"][1] is not ip_obj:
                fail(f"{where}: in-place form did not return the object itself")
            tc.check_inv(ip_obj, fail, where + " (in place)")
        if res["copy"][0] == "ok":
            if res["copy"][1] is obj_of["copy"]:
                fail(f"{where}: copying form returned the receiver itself")
            tc.check_inv(res["copy"][1], fail, where + " (copy)")
            if res["inplace"][0] == "ok" and not same_state(tc.snap(res["copy"][1]), tc.snap(ip_obj)):
                a, b = tc.snap(res["copy"][1]), tc.snap(ip_obj)
                ra = a["mesh"]["region"] if "mesh" in a else a.get("region", a)
                rb = b["mesh"]["region"] if "mesh" in b else b.get("region", b)
                fail(f"{where}: in-place result differs from copy: copy {ra} n={a.get('n')}, in place {rb} n={b.get('n')}")
        okres = res["copy"][1] if res["copy"][0] == "ok" else (ip_obj if res["inplace"][0] == "ok" else None)
        if okres is not None:
            # documented affine map (exact in the dyadic regime for translate / scale)
            exp = expected_corners(before["mesh"]["region"] if "mesh" in before else before.get("region", before), op)
            if exp is not None:
                r = tc.region_of(okres)
                got = ([Fraction(float(x)) for x in r.pmin], [Fraction(float(x)) for x in r.pmax])
                sc = max([abs(x) for x in exp[0] + exp[1]] + [Fraction(1)])
                if any(abs(g - e) > sc * Fraction(1, 2**40) for g, e in zip(got[0] + got[1], exp[0] + exp[1])):
                    fail(f"{where}: corners {list(map(float, got[0]))},{list(map(float, got[1]))} but the documented map gives {list(map(float, exp[0]))},{list(map(float, exp[1]))}")
                if op["t"] == "scale" and not isinstance(okres, df.Region):
                    m1 = okres.mesh if isinstance(okres, df.Field) else okres
                    nb = before["mesh"]["n"] if "mesh" in before else before["n"]
                    if [int(k) for k in m1.n] != nb:
                        fail(f"{where}: scaling changed n")
            if not isinstance(okres, df.Region):
                # theorem history_keeps_len: no accepted step (quarter turns included) changes the number of cells
                m1 = okres.mesh if isinstance(okres, df.Field) else okres
                nb = before["mesh"]["n"] if "mesh" in before else before["n"]
                cells = 1
                for k in nb:
                    cells *= int(k)
                if len(m1) != cells:
                    fail(f"{where}: the step changed the number of cells from {cells} to {len(m1)}")
        # --- the history proper follows the flag of the case
        st = res["inplace" if op["inplace"] else "copy"]
        tracked.append((twin, tc.snap(twin)))
        if st[0] == "ok":
            accepted += 1
            nontransl += op["t"] != "translate"
            if op["inplace"]:
                ret = cur
                tracked = [(o, (tc.snap(o) if o is cur else sn)) for o, sn in tracked]  # legitimately mutated
            else:
                ret = st[1]
                tracked.append((ret, tc.snap(ret)))
            if res["copy"][0] == "ok" and op["inplace"]:
                tracked.append((res["copy"][1], tc.snap(res["copy"][1])))
            steps.append(dict(st="ok", ret=ret, snap=tc.to_json(ret)))
            cur = ret
        else:
            steps.append(dict(st="err", why=st[1]))
    for k, (o, sn) in enumerate(tracked):
        if not same_state(tc.snap(o), sn, rel=0):
            fail(f"object #{k} created during the history was modified by a later step on another object "
                 f"(n now {tc.snap(o).get('n', tc.snap(o).get('mesh', {}).get('n'))}, was {sn.get('n', sn.get('mesh', {}).get('n'))})")
            break
    obs["steps"] = steps
    obs["tags"] += [f"accepted:{min(accepted, 5)}", f"rejected:{min(len(case['ops']) - accepted, 3)}"]
    obs["nontrivial"] = accepted >= 2 and nontransl >= 1
    for text in tc.ARG_CHANGED:
        obs["oracle"].append(text)
    del tc.ARG_CHANGED[:]
    return obs


def model_requests(case, obs):
    if "session" in case:
        return [{"op": "store_session", "stmts": obs["sent"]}] if "sent" in obs else []
    kind = case["obj"]["kind"]
    if "start" not in obs or case.get("extreme"):
        return []
    return [{"op": f"{kind}_history", kind: obs["start"], "ops": [tc.op_json(o) for o in case["ops"]]}]


def compare(case, obs, rs):
    dis = []
    if not rs:
        return dis
    if "session" in case:
        tc.cmp_session(case["session"], obs, rs[0], dis)
        return dis
    res = rs[0]
    global _MAG
    _MAG = Fraction(1)           # largest magnitude met so far in the history: rounding errors are relative to it
    for si, (st, mr) in enumerate(zip(obs["steps"], res)):
        _MAG = _history_mag(_MAG, case["ops"][si], mr)
        if (st["st"] == "ok") != ("ok" in mr):
            dis.append(f"step {si} {case['ops'][si]}: impl {st['st']} ({st.get('why', '')}) vs model {mr if 'ok' not in mr else 'ok'}")
            return dis  # later steps act on different objects
        if st["st"] == "ok":
            cmp_json(f"step {si} returned", st["snap"], mr["ok"]["ret"], dis)
            if dis:
                return dis
    # final states of receivers are compared through the returned objects above (the in-place receiver IS the returned object)
    return dis


_MAG = Fraction(1)


def _coords_of(j):
    out = []
    if isinstance(j, dict):
        for k, v in j.items():
            if k in ("pmin", "pmax"):
                out += [abs(F(x)) for x in v]
            elif k in ("region", "mesh", "subs", "ret", "recv", "ok"):
                out += _coords_of(v)
    elif isinstance(j, list):
        for v in j:
            out += _coords_of(v)
    return out


def _history_mag(mag, op, mr):
    """running bound on the magnitudes that enter the float computation of this step: reference point, vector,
    coordinates before and after, stretched by the factor (`ref - (ref - pmin) * f` is computed at that magnitude)"""
    vals = [Fraction(float(x)) for key in ("ref", "v") for x in (op.get(key) or [])]
    f = op.get("f")
    fs = [abs(Fraction(float(x))) for x in (f if isinstance(f, list) else [f])] if f is not None else []
    stretch = max(fs + [Fraction(1)])
    here = max([abs(v) for v in vals] + _coords_of(mr) + [Fraction(0)])
    return max(mag, stretch * (here + mag))


def _reg(name, a, b, dis, rel=Fraction(1, 2**40)):
    sc = max([abs(F(x)) for x in b["pmin"] + b["pmax"]] + [_MAG])     # (no absolute floor: nanometre meshes)
    for key in ("pmin", "pmax"):
        if len(a[key]) != len(b[key]) or any(abs(F(x) - F(y)) > rel * sc for x, y in zip(a[key], b[key])):
            dis.append(f"{name}: {key} impl {[float(F(x)) for x in a[key]]} vs model {[float(F(x)) for x in b[key]]}")
            return
    for key in ("dims", "units"):
        if a[key] != b[key]:
            dis.append(f"{name}: {key} impl {a[key]} vs model {b[key]}")


def _mesh(name, a, b, dis):
    _reg(name + ".region", a["region"], b["region"], dis)
    if a["n"] != b["n"]:
        dis.append(f"{name}: n impl {a['n']} vs model {b['n']}")
    if a["bc"] != b["bc"]:
        dis.append(f"{name}: bc impl {a['bc']!r} vs model {b['bc']!r}")
    if [s["name"] for s in a["subs"]] != [s["name"] for s in b["subs"]]:
        dis.append(f"{name}: subregion names impl {[s['name'] for s in a['subs']]} vs model {[s['name'] for s in b['subs']]}")
        return
    for s, t in zip(a["subs"], b["subs"]):
        _reg(f"{name}.subregions[{s['name']}]", s, t, dis)


def cmp_json(name, a, b, dis):
    """object state recorded at the time of the step (to_json) vs model JSON"""
    if "data" in a:
        _mesh(name + ".mesh", a["mesh"], b["mesh"], dis)
        for key in ("nvdim", "vdims", "unit", "valid"):
            if a[key] != b[key]:
                dis.append(f"{name}: {key} impl {a[key]} vs model {b[key]}")
        if sorted(map(tuple, a["vmap"])) != sorted(map(tuple, b["vmap"])):
            dis.append(f"{name}: vdim_mapping impl {a['vmap']} vs model {b['vmap']}")
        if len(a["data"]) != len(b["data"]):
            dis.append(f"{name}: cell count impl {len(a['data'])} vs model {len(b['data'])}")
            return
        sc = max([abs(F(x)) for row in b["data"] for x in row] + [Fraction(0)])      # the data's own magnitude (values go down to 1e-18)
        for k, (ra, rb) in enumerate(zip(a["data"], b["data"])):
            if len(ra) != len(rb) or any(abs(F(x) - F(y)) > sc * Fraction(1, 2**36) for x, y in zip(ra, rb)):
                dis.append(f"{name}: value at flat cell {k}: impl {ra} vs model {rb}")
                return
    elif "n" in a:
        _mesh(name, a, b, dis)
    else:
        _reg(name, a, b, dis)


def nontrivial(case, obs):
    return bool(obs.get("nontrivial"))


def known(case, text):
    # D18: the copying form of a mesh step re-runs the subregion setter, whose absolute 1e-12 alignment tolerance
    # rejects cell-aligned subregions once coordinates carry rotation rounding at larger magnitudes
    if "session" in case:
        return None
    if case["obj"].get("subs") and ("is not aligned with the mesh" in text or "cannot be divided into" in text
                                    or "is not in the mesh region" in text):
        # the ABSOLUTE 1e-12 can only matter when rounding errors of the coordinates (a few ulp per step at the
        # largest magnitude of the history) reach it: not on nanometre meshes, however far away in cells
        if _case_mag(case) * 2.0 ** -50 * (1 + len(case["ops"])) >= 1e-14:
            return "D18"
    return None


def _case_mag(case):
    """largest magnitude of a coordinate that can occur in the history (corners, vectors, reference points, stretched
    by the factors)"""
    o = case["obj"]
    tgt = o if o["kind"] == "region" else o["mesh"]
    mag = max([abs(float(x)) for x in list(tgt["p1"]) + list(tgt["p2"])] + [0.0])
    for op in case["ops"]:
        vals = [abs(float(x)) for key in ("ref", "v") for x in (op.get(key) or [])]
        f = op.get("f")
        fs = [abs(float(x)) for x in (f if isinstance(f, list) else [f])] if f is not None else []
        mag = max(mag, max(fs + [1.0]) * (max(vals + [0.0]) + mag))
    return mag


def search(case, rng):
    if "session" in case:
        return
    spec = case["obj"]
    for _ in range(100):
        yield dict(obj=spec, ops=[tc.gen_op(rng, spec, far=False, rot_ref_small=True) for _ in range(rng.randint(1, 3))])


def shrink(failure):
    """drop steps from the history while the oracle still fails"""
    case = failure["case"]
    if "session" in case:
        return failure
    ops = list(case["ops"])
    changed = True
    while changed and len(ops) > 1:
        changed = False
        for i in range(len(ops)):
            trial = dict(case, ops=ops[:i] + ops[i + 1:])
            o = run_impl(trial)
            if o["oracle"]:
                ops = trial["ops"]
                failure = dict(case=trial, kind="oracle", text=o["oracle"][0])
                changed = True
                break
    return failure
