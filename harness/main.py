"""./check <PID> [--tier quick|thorough] [--replay <path>]

exit 0: property held on everything explored; exit 1 + `VIOLATION property=<id> replay=<path>`;
exit 2: the machinery itself failed (never a VIOLATION line)."""
import argparse
import importlib
import os
import sys
import traceback
import warnings


def main():
    ap = argparse.ArgumentParser()
    ap.add_argument("pid")
    ap.add_argument("--tier", default=os.environ.get("VERIF_TIER", "quick"), choices=["quick", "thorough"])
    ap.add_argument("--replay")
    ap.add_argument("--budget", type=float)
    a = ap.parse_args()
    seed = int(os.environ.get("VERIF_SEED", "0") or 0)
    warnings.filterwarnings("ignore")
    from harness import core
    try:
        mod = importlib.import_module(f"harness.{a.pid.lower()}")
        rc = core.run_property(mod, a.tier, seed, replay=a.replay, budget_s=a.budget)
    except core.MachineryError as e:
        print(f"MACHINERY-ERROR {a.pid}: {e}", file=sys.stderr)
        sys.exit(2)
    except Exception:
        print(f"MACHINERY-ERROR {a.pid}: {traceback.format_exc()}", file=sys.stderr)
        sys.exit(2)
    sys.exit(rc)


if __name__ == "__main__":
    main()
