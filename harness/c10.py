"""C10 — HDF5 files preserve the complete state of a field.

Every case builds a real field, writes it with Field.to_file into a fresh temporary directory
(never inside /verif or /repo), inspects the written file through h5py directly AND through
Field.from_file, and hands (a) the field's typed state, (b) the h5py view of the file to the
Lean model (`save`, `load`, `spec`, `inv`, `series`, `rawload`, `rawsave`, `exact`, `fs`, `invw`, `mkmesh` ops).  Geometry is dyadic and values travel as
binary64 bit patterns (exact rationals, tokens for -0 / inf / NaN payloads): every comparison is exact.
"""
import json
import os
import random
import struct
import tempfile
import warnings
from fractions import Fraction

import numpy as np
import h5py

from . import core
from .core import Q, F

import discretisedfield as df

PID = "C10"
RULE = ("(a) round trip: fields on 1-4-d meshes, all four int/float combinations of region and subregion corners (0-3 "
        "possibly overlapping subregions; every ndim x region kind x subregion kind x data kind enumerated once, then random), "
        "dyadic geometry with subregions / arbitrary binary64 corners without, renamed dims/units, bc strings, int/float "
        "tolerance factor, nvdim 1-4, labels default/custom/absent (absent also on vector fields: vdims=[]), unit "
        "present/absent/empty, float64/complex128/int64 (+ float32/complex64/int32) data with full-mantissa values, NaN "
        "payloads with either sign, inf, -0.0 - under valid AND invalid cells -, int64 beyond 2^53 (ties, 54+ significant bits, "
        "extremes), masks; written with Field.to_file(.h5/.hdf5) into a fresh temp dir; the file is read through h5py alone "
        "(object names, dtypes, shapes, values) and compared with the store of the model's code-shaped writer toHdf5 (op save); "
        "Field.from_file's result is compared attribute by attribute, dtype kinds included, values as binary64 bit patterns "
        "(tokens for -0/inf/NaN payloads), with the model's reader run on the h5py view (op load); the driver decides "
        "h5Load(view) = reread(f) (whenever Inv holds) and = loaded(f) (under the hypotheses of h5_roundtrip_loaded), "
        "h5Load(h5Save f) = h5Load(view), toHdf5 f = h5Save f (op spec) and evaluates the theorems' hypotheses Inv / unit / "
        "labels / IntSafe on the state of the field written and of the field read (op inv); a second write/read must be a "
        "fixed point; (b) 36 kinds of tampered files (type, version, unordered/equal corners, wrong n/nvdim/labels/shapes, "
        "broadcastable arrays, stray/off-grid/duplicate subregions, upper-case bc, dtype changes): accept/reject and resulting "
        "state vs model; (c) legacy-layout files fabricated with h5py (int/float corners in any order per axis, NaN/inf data, "
        "optional valid/invalid side-car json with int/float corner lists mixed) vs the model of the legacy reader, and vs "
        "Region/Mesh/Field built from the stored items with the real constructors; (d) time series: _h5_save_structure with "
        "data_shape (T, *n, nvdim), a history of 0-6 _h5_save_data(dataset, t) calls (t in and out of [-T, T), rewrites, "
        "other dtypes: int<->float converted, real<->complex refused, wrong shapes), h5py view of the dataset and "
        "_h5_load_field(group, k) for every k in [-T-1, T] vs the model (op series); (e) suffix dispatch of to_file/from_file "
        "for 14 suffixes; (f) the file as h5py shows it (model RawFile): every one of the 18 entries the reader looks up "
        "removed in turn, the writer's two stamps removed, the corner table / the names dataset / both removed (with and without "
        "subregions), foreign attributes, datasets and groups added, every looked-up attribute replaced by a value of another "
        "type class (number for string, string for number/array, float for int; ndim by anything): accept/reject, resulting "
        "state and element width vs the model's reader on the raw view (op rawload); for every round trip the names present "
        "in the written file and the width of dataset 'array' vs the model's writer, the width of the array read back "
        "(float16/32, int8/16/32 -> float64, complex64 stays), and the model's exactness predicate evaluated on the real "
        "array (op rawsave); for float/complex arrays of <= 64 entries numpy's own narrowing conversion there and back decides "
        "entry by entry which values belong to the next narrower binary format, compared with the model's predicate (op exact); "
        "(g) to_file over a path that already holds a larger file with subregions and foreign entries / a legacy file / junk, "
        "1-3 writes on two paths: from_file and the names left in each file vs the model's directory (op fs); legacy files "
        "also with float32/complex64/int32 arrays, width read back vs model, invariant of the result (op invw); (h) the "
        "subregions setter after repo fix 5591fed0 (D132): Mesh(region, n, subregions=...) with 1-2 candidate regions carrying "
        "tolerance factors of their own (default, 0.3, 1e-2, 5.0, 1e-6) and own names/units, corners on the cell lattice or "
        "off it by +-2^-20 ... 1/8 of a cell, on regions with the default or a loose tolerance factor, in the nm regime (the "
        "absolute 1e-12 alignment tolerance is ~0.1 % of a cell) and the unit regime, all corners dyadic: constructor "
        "accept/reject and stored mesh vs the model's TMesh.init (op mkmesh), then to_file / from_file as an ordinary round "
        "trip (every model comparison and the oracle: a mesh the constructor accepted must be read back); the same "
        "candidates as .subregions.json side-car (with their tolerance_factor) of a legacy file vs the model's legacy reader.  "
        "Oracle on the real code alone: from_file(to_file(f)) == f and every item the property lists is "
        "identical (corners, names, units, tolerance, n, bc, subregion names/order/corners/meta, labels, unit incl. None, "
        "values bit-identical - int data numerically, real stays real, complex stays complex - validity, to_file leaves the "
        "field untouched, the datasets hold the numbers bit for bit); legacy files load to the documented field; every slot of "
        "a series reads back the field written there last (or zeros) on the structure saved.  non-trivial = round trip of a "
        "field with >= 2 cells whose cell values are not all equal, or a tampered/legacy/series file")
TRUSTED = ["harness/c10.py + driver JSON glue", "h5py/libhdf5 byte encoding (only dtype/cast semantics are modelled)",
           "the h5py view used to observe the written file"]
ASSUMPTIONS = ["exact regime only: dyadic corners and cells, subregions on cell vertices (clear of the 0.1 % divisibility and "
               "1e-12 alignment thresholds); nothing on the HDF5 code path does arithmetic on values, so equality is demanded",
               "integer-typed region / subregion corners stay below 2^53 in magnitude (the model converts corner arrays between "
               "int and float exactly; only the data array's int64 -> float64 conversion is modelled with rounding, rne53)",
               "component labels that collide with Field attributes are not generated (constructor's business)",
               "bc strings use ASCII characters only (Lean's String.toLower is ASCII-only, Python's str.lower is Unicode)",
               "the hypotheses of the round-trip theorems (Inv, unit, labels, IntSafe: all decidable) are evaluated by the driver on "
               "the state of every real field written and read (op inv); the spec comparisons are made where they hold",
               "the component-to-axis mapping is not stored in the file and not in the property's list: a custom mapping comes "
               "back as the default one (tag observation:custom-vdim_mapping-not-restored), model and code agree on that",
               "series writes: h5py would try to broadcast an array of another shape into a slot; the model accepts equal shapes "
               "only and the generator's wrong shapes (one component more) cannot be broadcast; float -> int slot writes use finite "
               "values only (the C cast of NaN/inf to int64 is platform-defined)",
               "raw layer: 'of another type' is generated as a number for a string / list of strings, a string for a number or a "
               "numeric array, a float for an integer (a plain string for dims/units of a 1-d region would be taken as one name and "
               "is not generated); a valid dataset of integer dtype (converted by != 0) and string-typed arrays are not modelled",
               "stream (h) uses dyadic corners and cells so that every comparison the setter makes (containment within "
               "tolerance_factor, 0.1 % divisibility, absolute 1e-12 alignment, rtol 1e-5 on cells) is decided identically in "
               "binary64 and in exact arithmetic (the thresholds are not dyadic: no near-ties); elsewhere subregions lie on cell "
               "vertices",
               "narrowing writes (a float64 field into a float32 slot of a series) are not modelled: series use 64-bit dtypes"]
UNPROVED = ["the property is FALSE of the code on three input classes, each delimited by an equivalence with a proved negative "
            "direction: unit string 'None' (unit_field_roundtrip_iff / unit_None_is_lost, D32), integer data with more than 53 "
            "significant bits (int_values_roundtrip_iff / int_beyond_2p53_is_rounded, D33; impossible below 64 bits: "
            "narrow_int_values_roundtrip), absent labels on a vector field (labels_roundtrip_iff / labels_none_are_lost, D34); "
            "h5_roundtrip_items_iff states the item list iff none of the three applies.  The fourth class found in round 2 "
            "(D132: a subregion accepted thanks to the candidate's own tolerance factor, file refused by from_file) is fixed in "
            "/repo 5591fed0: every constructor-built field round-trips (constructor_field_roundtrips, mesh_constructor_inv), "
            "whatever tolerance factors the candidates and the mesh region carry; for ARBITRARY states h5_reread_accepts_iff still "
            "says exactly when the reader accepts the writer's file",
            "acceptance of side-car boxes and of corner-table rows is characterised as 'passes the setter's test candOk' = the "
            "three tolerant tests on the corner pair with the mesh's tolerance factor (setter_test_is_on_stored_copy, "
            "legacy_sidecar_accepted_iff, versioned_accepted_iff: subAccept = C14's subOk); a closed-form geometric description of "
            "the tolerant tests is C14's business",
            "int/float conversion of CORNER arrays is exact in the model (corners below 2^53, see ASSUMPTIONS)",
            "widths: the model has the width of the value array in the file and after reading, and an exactness predicate "
            "(values of the narrower format); narrowing WRITES (rounding to binary32 when a float64 field is stored into a "
            "float32 series slot) are not modelled, nor are several groups in one file (the library has no API for it besides the "
            "slot helpers, which series_roundtrip covers)"]
BUDGET = {"quick": 120, "thorough": 900}

DIMNAMES = ["x", "y", "z", "a", "b", "c", "u", "v", "w", "t", "ξ", "len", "x0", "r_1"]
UNITS = ["m", "nm", "s", "µm", "Å", "", "m/s", "rad"]
LABELS = ["a", "b", "c", "d", "mx", "my", "mz", "p", "q", "α", "v_1", "None", "x", "y", "z", "x1"]
FUNITS = [None, None, "A/m", "T", "", "µT", "none", "J/m³", "None "]
SUBNAMES = ["r1", "r2", "core", "shell", "größe", "default", "left", "s_3"]
DTYPES = {"f8": np.float64, "c16": np.complex128, "i8": np.int64, "f4": np.float32, "c8": np.complex64, "i4": np.int32,
          "f2": np.float16, "i2": np.int16, "i1": np.int8}
EXPECTED_LAYOUT = sorted([
    "@discretisedfield.__version__", "@file-creation-time-UTC", "@type", "@ubermag-hdf5-file-version",
    "field", "field@nvdim", "field@unit", "field@vdims", "field/array", "field/valid", "field/mesh",
    "field/mesh@bc", "field/mesh@n", "field/mesh/region", "field/mesh/region@dims", "field/mesh/region@ndim",
    "field/mesh/region@pmax", "field/mesh/region@pmin", "field/mesh/region@tolerance_factor", "field/mesh/region@units"])
SUBS_LAYOUT = ["field/mesh/subregion_names", "field/mesh/subregions"]

_RESERVED = None


def _reserved(name):
    global _RESERVED
    if _RESERVED is None:
        _RESERVED = df.Field(df.Mesh(p1=0, p2=1, n=1), nvdim=1)
    return hasattr(_RESERVED, name)


# ------------------------------------------------------------------------------ generators
def gen_rt(rng, nmax=5, max_cells=96, force=None):
    force = force or {}
    ndim = force.get("ndim") or rng.choice([1, 2, 2, 3, 3, 3, 4])
    rkind = force.get("rkind") or rng.choice(["i", "f"])
    skind = force.get("skind") or rng.choice(["i", "f"])
    n, cell, pmin = [], [], []
    intgrid = rkind == "i" or (skind == "i" and rng.random() < 0.85)   # integer vertices exist
    for _ in range(ndim):
        if intgrid:
            # integer corners: cell = odd / 2^k, count a multiple of 2^k, integer origin
            k = rng.randint(0, 2)
            c = Fraction(rng.choice([1, 1, 3]), 2 ** k)
            nn = 2 ** k * rng.choice([1, 1, 2])
            pm = Fraction(rng.randint(-20, 20))
        else:
            nn = rng.randint(1, nmax)
            c = Fraction(rng.choice([1, 1, 3, 5]), 2 ** rng.randint(0, 3))
            pm = Fraction(rng.randint(-80, 80), 2 ** rng.randint(0, 2))
        n.append(nn), cell.append(c), pmin.append(pm)
    while int(np.prod(n)) > max_cells:
        a = max(range(ndim), key=lambda i: n[i])
        if intgrid:
            cell[a] = Fraction(cell[a].numerator)
            n[a] = 1 if n[a] <= 2 else 2
        else:
            n[a] = max(1, n[a] // 2)
    dims = rng.sample(DIMNAMES, ndim) if rng.random() < 0.5 else None
    units = [rng.choice(UNITS) for _ in range(ndim)] if rng.random() < 0.4 else None
    dd = dims or (["x", "y", "z"][:ndim] if ndim <= 3 else [f"x{i}" for i in range(ndim)])
    r = rng.random()
    if r < 0.45:
        bc = ""
    elif r < 0.6:
        bc = rng.choice(["neumann", "dirichlet", "Neumann", "DIRICHLET"])
    else:
        bc = "".join(d for d in dd if len(d) == 1 and d.isascii() and rng.random() < 0.6)
        if rng.random() < 0.3:
            bc = bc.upper() if all(c.upper().lower() == c for c in bc) else bc
    tol = rng.choice([["f", "1/1000000000000"]] * 4 + [["f", Q(Fraction(1, 2 ** 30))], ["f", "1/1000"], ["i", "0"], ["i", "1"]])
    # subregions: boxes of whole cells; an integer-typed one needs integer corners
    nsub = force.get("nsub", rng.choice([0, 0, 1, 2, 2, 3]))
    subs, names = [], rng.sample(SUBNAMES, 3)
    for s in range(nsub):
        kind = skind if (s == 0 or rng.random() < 0.7) else rng.choice(["i", "f"])
        lo, hi = [], []
        for a in range(ndim):
            cands = [k for k in range(n[a] + 1)
                     if kind == "f" or (pmin[a] + k * cell[a]).denominator == 1]
            if len(cands) < 2:
                kind = "f"
                cands = list(range(n[a] + 1))
            i, j = sorted(rng.sample(cands, 2))
            lo.append(i), hi.append(j)
        if kind == "i" and any((pmin[a] + lo[a] * cell[a]).denominator != 1 or (pmin[a] + hi[a] * cell[a]).denominator != 1
                               for a in range(ndim)):
            kind = "f"
        subs.append(dict(name=names[s], lo=lo, hi=hi, kind=kind))
    nvdim = force.get("nvdim") or rng.choice([1, 1, 2, 3, 3, 4])
    vd = None
    if rng.random() < 0.45:
        pool = [x for x in LABELS if not _reserved(x)]
        vd = rng.sample(pool, nvdim)
    elif nvdim > 1 and not force.get("labelled") and rng.random() < 0.08:
        vd = []   # labels absent on a vector field (Field(..., vdims=[]) -> vdims None)
    unit = rng.choice(FUNITS)
    dtype = force.get("dtype") or rng.choice(["f8", "f8", "f8", "c16", "c16", "i8", "i8", "f4", "c8", "i4", "f4", "c8", "f2", "i2", "i1"])
    bigint = dtype == "i8" and not force.get("nobig") and rng.random() < 0.06   # integers binary64 does not hold (D33)
    special = dtype in ("f8", "c16") and rng.random() < 0.25
    vmap = None
    if nvdim > 1 and vd != [] and rng.random() < 0.12:
        labels = vd or (["x", "y", "z"][:nvdim] if nvdim <= 3 else [f"v{i}" for i in range(nvdim)])
        vmap = [[l, rng.choice(dd + [None])] for l in labels]
    free = None
    if rkind == "f" and not subs and rng.random() < 0.6:
        # no subregions -> no arithmetic on the geometry anywhere on the code path: arbitrary binary64 corners
        sc = 10.0 ** rng.randint(-12, 6)
        lo = [rng.uniform(-3, 3) * sc for _ in range(ndim)]
        free = dict(lo=lo, hi=[a + rng.choice([1 / 3, 0.1, 0.7, 2.5, 1e-3]) * sc * rng.uniform(0.5, 2) for a in lo])
        tol = rng.choice([tol, ["f", Q(1e-9)], ["f", Q(1e-6)], ["f", Q(rng.uniform(0, 1e-3))]])
    return dict(kind="rt", free=free, n=n, cell=[Q(c) for c in cell], pmin=[Q(p) for p in pmin], rkind=rkind,
                swap=[rng.random() < 0.3 for _ in range(ndim)], dims=dims, units=units, tol=tol, bc=bc, subs=subs,
                nvdim=nvdim, vdims=vd, unit=unit, dtype=dtype, special=special, density=rng.choice([1.0, 1.0, 0.8, 0.5, 0.0]),
                vmap=vmap, suffix=rng.choice([".h5", ".hdf5"]), sub=rng.getrandbits(32), **({"bigint": True} if bigint else {}))


TAMPERS = ["type", "type_case", "version", "noversion", "swapcorner", "eqcorner", "n_short", "n_zero", "nvdim0", "nvdim_other",
           "vdims_short", "vdims_dup", "vdims_none", "vdims_str", "vdims_empty", "array_bcast", "array_scalarshape", "array_badshape",
           "valid_extra_axis", "valid_badshape", "valid_bcast", "sub_outside", "sub_offgrid", "sub_dupname", "sub_names_short",
           "sub_inttable_from_float", "unit_none", "bc_upper", "bc_bad", "dims_dup", "dims_short", "units_short", "region_int",
           "tol_int", "array_int", "pmin_kind_mixed"]

# raw layer: entries the reader looks up, removed one at a time / retyped / foreign entries added
RAW_NAMES = ["@ubermag-hdf5-file-version", "@type", "field", "field@nvdim", "field@vdims", "field@unit", "field/array", "field/valid",
             "field/mesh", "field/mesh@n", "field/mesh@bc", "field/mesh/region", "field/mesh/region@pmin", "field/mesh/region@pmax",
             "field/mesh/region@dims", "field/mesh/region@ndim", "field/mesh/region@units", "field/mesh/region@tolerance_factor"]
RAW_STAMPS = ["@discretisedfield.__version__", "@file-creation-time-UTC"]
RAW_RETYPE = {"@ubermag-hdf5-file-version": [0.1, 1], "@type": [5], "field@nvdim": [2.0, "2"], "field@vdims": [5, 1.5], "field@unit": [5, 2.5],
              "field/mesh@n": ["21", "floats"], "field/mesh@bc": [0], "field/mesh/region@pmin": ["ab"], "field/mesh/region@pmax": ["ab"],
              "field/mesh/region@dims": [5], "field/mesh/region@units": [5], "field/mesh/region@ndim": ["x", 7, 2.5],
              "field/mesh/region@tolerance_factor": ["abc"]}
RAW_TAMPERS = (["raw_del:" + n for n in RAW_NAMES + RAW_STAMPS] +
               ["raw_del:field/mesh/subregions", "raw_del:field/mesh/subregion_names", "raw_del:subs_both", "raw_extra", "raw_none"] +
               ["raw_retype:" + n for n in RAW_RETYPE])

SUFFIXES = [".h5", ".hdf5", ".H5", ".hdf", ".hd5", ".txt", "", ".h5.bak", ".omf", ".ovf", ".ohf", ".oef", ".vtk", ".json"]


def cases(rng, tier):
    quick = tier == "quick"
    # every combination of corner kinds x dimension x data kind at least once
    for ndim in (1, 2, 3, 4):
        for rkind in "if":
            for skind in "if":
                for dtype in ("f8", "c16", "i8"):
                    yield gen_rt(rng, force=dict(ndim=ndim, rkind=rkind, skind=skind, dtype=dtype, nsub=rng.choice([1, 2, 3])))
    for _ in range(1300 if quick else 6000):
        yield gen_rt(rng)
    for t in TAMPERS:
        for _ in range(6 if quick else 25):
            base = gen_rt(rng, force=dict(nsub=rng.choice([1, 2, 3]), nobig=True) if t.startswith("sub_") else
                          (dict(nvdim=rng.choice([2, 3, 4]), nobig=True) if t in ("vdims_none", "vdims_dup", "vdims_short")
                           else dict(nobig=True)))
            base["kind"] = "tamper"
            base["free"] = None
            base["tamper"] = t
            base["special"] = False
            yield base
    for t in RAW_TAMPERS:
        for i in range(2 if quick else 12):
            base = gen_rt(rng, max_cells=24, force=dict(nobig=True, nsub=(0 if (i % 2 and "sub" in t) else rng.choice([1, 2]))))
            base["kind"] = "tamper"
            base["free"] = None
            base["tamper"] = t
            base["special"] = False
            yield base
    for _ in range(40 if quick else 300):
        # to_file on a path that already holds something (a larger file with subregions, a legacy file, junk): mode "w"
        ws = []
        for _ in range(rng.choice([1, 2, 2, 3])):
            w = gen_rt(rng, max_cells=24, force=dict(nobig=True, labelled=True))   # D32/D33/D34 inputs belong to the rt stream
            if w["unit"] == "None":
                w["unit"] = None
            w["path"] = rng.choice(["a", "a", "b"])
            ws.append(w)
        yield dict(kind="overwrite", writes=ws, pre=rng.choice(["none", "legacy", "junk", "bigger"]), sub=rng.getrandbits(32),
                   suffix=rng.choice([".h5", ".hdf5"]))
    for _ in range(80 if quick else 500):
        base = gen_rt(rng, force=dict(dtype=rng.choice(["f8", "f8", "c16", "i8", "f4", "c8", "i4"]), nobig=True))
        base["kind"] = "legacy"
        base["special"] = base["dtype"] in ("f8", "c16") and rng.random() < 0.2
        base["sidecar"] = rng.choice(["none", "none", "ok", "ok", "bad"]) if base["subs"] else "none"
        base["sidecar_mixed"] = rng.random() < 0.4   # side-car corners as JSON ints where they are whole numbers
        base["p2first"] = rng.random() < 0.3
        base["mixswap"] = rng.getrandbits(16) if rng.random() < 0.35 else None   # legacy files keep p1/p2 as the user gave them: any order per axis
        yield base
    for _ in range(140 if quick else 900):
        yield gen_ctor(rng)
    for _ in range(110 if quick else 700):
        yield gen_series(rng)
    for s in SUFFIXES:
        yield dict(kind="suffix", suffix=s, sub=rng.getrandbits(32))


TOLS = [None, None, 0.3, 1e-2, 5.0, 1e-6]
CTOR_EPS = ([Fraction(1, 2 ** 12), Fraction(-1, 2 ** 12)] * 3 + [Fraction(1, 2 ** 20), Fraction(-1, 2 ** 20)] * 2 +
            [Fraction(1, 2 ** 8), Fraction(-1, 2 ** 8), Fraction(1, 2 ** 14), Fraction(-1, 2 ** 14), Fraction(1, 8), Fraction(-1, 8)])
# (offsets in cells; every one is more than a factor 3.3 away from the two INCIDENTAL constants on the code path - the 0.1 % of
#  the divisibility test and, in the nm regime with cell 2^-30, the absolute 1e-12 of is_aligned - so that a retuned constant
#  (benign/C10-B3: 1e-3 -> 9e-4) does not change any outcome that is compared)


def gen_ctor(rng):
    """candidate subregions with loose tolerance factors of their own, close to / off the cell lattice, on meshes whose region
    carries the default or a loose tolerance factor; nm regime (where the absolute 1e-12 alignment tolerance is 0.1 % of a
    cell) and unit regime; all corners dyadic so every comparison on the code path is exact (the thresholds are not dyadic)"""
    base = gen_rt(rng, max_cells=24, force=dict(nobig=True, labelled=True, nsub=0, dtype=rng.choice(["f8", "f8", "c16", "i8", "f4"])))
    if base["unit"] == "None":
        base["unit"] = None
    ndim = rng.choice([1, 1, 2, 3])
    scale = Fraction(1, 2 ** 30) if rng.random() < 0.7 else Fraction(1)
    n = [rng.randint(2, 5) for _ in range(ndim)]
    c0 = scale if scale != 1 else Fraction(rng.choice([1, 1, 3, 5]), rng.choice([1, 2, 4]))
    cell = [c0] * ndim        # one cell size on all axes: the offsets below are then the same fraction of min(cell) on every axis
    origin = [rng.randint(-3, 3) * c for c in cell]
    cands = []
    for name in rng.sample(SUBNAMES, rng.choice([1, 1, 2])):
        lo, hi, elo, ehi = [], [], [], []
        for a in range(ndim):
            i, j = sorted(rng.sample(range(n[a] + 1), 2))
            lo.append(i), hi.append(j)
            elo.append(Q(rng.choice(CTOR_EPS) if rng.random() < 0.2 else Fraction(0)))
            ehi.append(Q(rng.choice(CTOR_EPS) if rng.random() < 0.45 else Fraction(0)))
        cands.append(dict(name=name, lo=lo, hi=hi, elo=elo, ehi=ehi, tol=rng.choice(TOLS),
                          dims=(rng.sample(DIMNAMES, ndim) if rng.random() < 0.2 else None),
                          units=([rng.choice(UNITS) for _ in range(ndim)] if rng.random() < 0.2 else None)))
    base.update(kind="ctor", free=None, vmap=None, special=False, dims=None, units=None, bc="", subs=[], swap=[False] * ndim,
                ctor=dict(n=n, cell=[Q(c) for c in cell], origin=[Q(o) for o in origin], rtol=rng.choice(TOLS), cands=cands,
                          mode=rng.choice(["mesh", "mesh", "mesh", "legacy"])))
    return base


def gen_series(rng):
    """several fields in one dataset: _h5_save_structure with data_shape (T, *n, nvdim), a history of
    _h5_save_data(dataset, t), _h5_load_field(group, k) for every k in [-T-1, T]"""
    base = gen_rt(rng, max_cells=48, force=dict(dtype=rng.choice(["f8", "f8", "c16", "i8"]), nobig=True, labelled=True))
    base["kind"] = "series"
    if base["unit"] == "None":
        base["unit"] = None
    T = rng.randint(1, 4)
    other = {"f8": ["i8", "i8", "c16"], "i8": ["f8", "f8", "c16"], "c16": ["f8", "i8"]}[base["dtype"]]
    writes = []
    for _ in range(rng.choice([0, 1, 2, 3, 3, 4, 6])):
        dt = base["dtype"] if rng.random() < 0.75 else rng.choice(other)
        writes.append(dict(t=(rng.randint(-T, T - 1) if rng.random() < 0.85 else rng.choice([-T - 1, T, T + 3])), dtype=dt, bad_shape=rng.random() < 0.06, seed=rng.getrandbits(32),
                           special=dt == base["dtype"] and dt in ("f8", "c16") and rng.random() < 0.3))
    base["T"] = T
    base["writes"] = writes
    return base


# ------------------------------------------------------------------------------ building real objects
def _geometry(c):
    cell = [Fraction(x) for x in c["cell"]]
    pmin = [Fraction(x) for x in c["pmin"]]
    pmax = [a + k * h for a, k, h in zip(pmin, c["n"], cell)]
    return cell, pmin, pmax


def _num(kind, x):
    if kind == "i":
        if Fraction(x).denominator != 1:
            raise core.MachineryError(f"generator produced a non-integer corner {x} for an int-typed region")
        return int(x)
    return float(x)


def build_mesh(c):
    cell, pmin, pmax = _geometry(c)
    ndim = len(c["n"])
    if c.get("free"):
        pmin, pmax = [Fraction(x) for x in c["free"]["lo"]], [Fraction(x) for x in c["free"]["hi"]]
    p1 = [_num(c["rkind"], b if s else a) for a, b, s in zip(pmin, pmax, c["swap"])]
    p2 = [_num(c["rkind"], a if s else b) for a, b, s in zip(pmin, pmax, c["swap"])]
    kw = {}
    if c["dims"]:
        kw["dims"] = c["dims"]
    if c["units"]:
        kw["units"] = c["units"]
    tk, tv = c["tol"]
    kw["tolerance_factor"] = int(Fraction(tv)) if tk == "i" else float(Fraction(tv))
    if ndim == 1 and c["sub"] % 3 == 0:
        region = df.Region(p1=p1[0], p2=p2[0], **kw)
    else:
        region = df.Region(p1=tuple(p1), p2=tuple(p2), **kw)
    subs = {}
    for s in c["subs"]:
        lo = [pmin[a] + s["lo"][a] * cell[a] for a in range(ndim)]
        hi = [pmin[a] + s["hi"][a] * cell[a] for a in range(ndim)]
        subs[s["name"]] = df.Region(p1=tuple(_num(s["kind"], x) for x in lo), p2=tuple(_num(s["kind"], x) for x in hi))
    return df.Mesh(region=region, n=tuple(c["n"]), bc=c["bc"], subregions=subs or None)


def make_array(rng, shape, dtype_name, special=False, bigint=False):
    size = int(np.prod(shape))
    dt = DTYPES[dtype_name]
    kind = np.dtype(dt).kind
    if kind == "i":
        big = rng.random() < 0.2 and dtype_name == "i8"
        pool = [2 ** 53, -2 ** 53]
        if bigint:   # beyond 2^53: odd neighbours, ties both ways, many significant bits, the int64 extremes
            pool += [2 ** 53 + 1, -2 ** 62 - 1, 2 ** 53 + 3, -(2 ** 53 + 2), (2 ** 53 + 1) << rng.randint(0, 9),
                     rng.randint(-2 ** 63, 2 ** 63 - 1), rng.randint(2 ** 53, 2 ** 56), 2 ** 63 - 1, -2 ** 63,
                     (rng.getrandbits(53) | 2 ** 52) << rng.randint(1, 10), ((rng.getrandbits(53) | 2 ** 52) << 2) + 2]
        info = np.iinfo(dt)
        narrow = dtype_name != "i8" and rng.random() < 0.4   # the whole range of a narrow integer type, extremes included
        vals = [rng.choice([rng.randint(-9, 9), rng.randint(-2 ** 40, 2 ** 40)] + pool) if (big or bigint) else
                (rng.choice([int(info.min), int(info.max), rng.randint(int(info.min), int(info.max))]) if narrow and rng.random() < 0.5
                 else rng.randint(-9, 9))
                for _ in range(size)]
        a = np.array(vals, dtype=dt).reshape(shape)
    elif kind == "f":
        # short dyadics and full-mantissa numbers (nothing on this code path computes with them)
        def val():
            return rng.randint(-64, 64) / 2 ** rng.randint(0, 4) if rng.random() < 0.6 else rng.uniform(-1, 1) * 10.0 ** rng.randint(-12, 8)
        a = np.array([val() for _ in range(size)], dtype=dt).reshape(shape)
    else:
        def val():
            return rng.randint(-32, 32) / 2 ** rng.randint(0, 3) if rng.random() < 0.6 else rng.uniform(-1, 1) * 10.0 ** rng.randint(-9, 6)
        a = np.array([complex(val(), val()) for _ in range(size)], dtype=dt).reshape(shape)
    if special:
        flat = a.reshape(-1)
        for _ in range(max(1, size // 6)):
            i = rng.randrange(size)
            s = rng.choice(["nan", "nanp", "inf", "-inf", "-0"])
            if kind == "f":
                flat[i] = {"nan": np.nan, "inf": np.inf, "-inf": -np.inf, "-0": -0.0}.get(s, 0.0)
                if s == "nanp":
                    flat.view(np.uint64)[i] = 0x7FF8000000000000 | rng.getrandbits(40) | 1 | (rng.getrandbits(1) << 63)
            else:
                flat[i] = {"nan": complex(np.nan, 1.0), "inf": complex(np.inf, -np.inf), "-inf": complex(0.5, -np.inf),
                           "-0": complex(-0.0, -0.0), "nanp": complex(2.0, np.nan)}[s]
    return a


def gen_array(c, mesh):
    rng = random.Random(c["sub"])
    shape = (*[int(k) for k in mesh.n], c["nvdim"])
    a = make_array(rng, shape, c["dtype"], special=c.get("special"), bigint=c.get("bigint"))
    size = int(np.prod(shape))
    mask = np.array([rng.random() < c["density"] for _ in range(size // c["nvdim"])], dtype=bool).reshape(shape[:-1])
    if c.get("special") and mask.all() and mask.size > 1:
        mask.reshape(-1)[rng.randrange(mask.size)] = False
    if c.get("special") and not mask.all():
        # non-number bit patterns under INVALID cells too: the writer must not look at the mask
        flat, cells = a.reshape(-1, c["nvdim"]), np.flatnonzero(~mask.reshape(-1))
        i = int(cells[rng.randrange(len(cells))])
        if a.dtype.kind == "f":
            flat[i, 0] = rng.choice([np.nan, np.inf, -np.inf, -0.0])
        elif a.dtype.kind == "c":
            flat[i, 0] = rng.choice([complex(np.nan, -0.0), complex(-np.inf, np.nan), complex(-0.0, 3.5)])
    return a, mask


def build_field(c, mesh=None):
    mesh = build_mesh(c) if mesh is None else mesh
    a, mask = gen_array(c, mesh)
    kw = {}
    if c["vdims"] is not None:
        kw["vdims"] = list(c["vdims"])
    if c["unit"] is not None:
        kw["unit"] = c["unit"]
    if c.get("vmap"):
        kw["vdim_mapping"] = {k: v for k, v in c["vmap"]}
    return df.Field(mesh, nvdim=c["nvdim"], value=a, dtype=DTYPES[c["dtype"]], valid=mask, **kw)


# ------------------------------------------------------------------------------ observation: typed state
def _nk(arr):
    k = np.asarray(arr).dtype.kind
    return "i" if k in "iub" else ("f" if k == "f" else "?" + k)


def numarr_json(a):
    a = np.asarray(a)
    return dict(k=_nk(a), v=[Q(x) for x in a.reshape(-1).tolist()])


def num_json(x):
    if isinstance(x, (bool, np.bool_)):
        return dict(k="?b", v="0")
    if isinstance(x, (int, np.integer)):
        return dict(k="i", v=Q(int(x)))
    if isinstance(x, (float, np.floating)):
        return dict(k="f", v=Q(float(x)))
    return dict(k="?" + type(x).__name__, v="0")


def _strs(xs):
    out = []
    for x in xs:
        out.append(x if type(x) is str else f"<{type(x).__name__}>{x!r}")
    return out


def region_json(r):
    return dict(pmin=numarr_json(r.pmin), pmax=numarr_json(r.pmax), dims=_strs(r.dims), units=_strs(r.units),
                tol=num_json(r.tolerance_factor))


def mesh_json(m):
    return dict(region=region_json(m.region), n=[int(k) for k in m.n], bc=m.bc if type(m.bc) is str else f"<{type(m.bc).__name__}>",
                subs=[dict(name=k if type(k) is str else repr(k), region=region_json(s)) for k, s in m.subregions.items()])


def fv_token(x):
    """a binary64 value as the model's FV: the exact rational, or -0 / inf / -inf / nan:<sign>:<payload>"""
    x = float(x)
    if x != x or x in (float("inf"), float("-inf")) or x == 0.0:
        b = struct.unpack("<Q", struct.pack("<d", x))[0]
        sign, rest = b >> 63, b & ((1 << 63) - 1)
        if rest == 0:
            return "-0" if sign else "0"
        if rest == 0x7FF0000000000000:
            return "-inf" if sign else "inf"
        return f"nan:{sign}:{b & ((1 << 52) - 1)}"
    return Q(x)


def darr_json(a):
    """typed array -> model JSON; values as ONE space-separated string (complex: re im re im ...) of canonical rationals
    or the tokens -0, inf, -inf, nan:<sign>:<payload>: equality of strings is bit-identity of binary64 values"""
    a = np.asarray(a)
    kind = a.dtype.kind
    flat = a.reshape(-1)
    if kind == "c":
        v = []
        for z in flat.astype(np.complex128).tolist():
            v.append(fv_token(z.real))
            v.append(fv_token(z.imag))
        k = "c"
    elif kind == "f":
        v = [fv_token(x) for x in flat.astype(np.float64).tolist()]
        k = "f"
    elif kind in "iub":
        v = [Q(int(x)) for x in flat.tolist()]
        k = "i"
    else:
        raise core.MachineryError(f"unexpected dtype {a.dtype}")
    return dict(k=k, shape=[int(s) for s in a.shape], v=" ".join(v))


def _fv(x):
    return x if (x[:1] == "n" or x in ("-0", "inf", "-inf")) else F(x)


def darr_pairs(j):
    """model/impl array JSON -> list of (re, im): Fractions, or the token strings for the bit patterns that are not numbers"""
    xs = [_fv(x) for x in j["v"].split(" ")] if j["v"] else []
    if j["k"] == "c":
        return list(zip(xs[0::2], xs[1::2]))
    return [(x, Fraction(0)) for x in xs]


def varr_json(a):
    a = np.asarray(a)
    return dict(shape=[int(s) for s in a.shape], v=[bool(x) for x in a.reshape(-1).tolist()])


def state_json(f):
    return dict(mesh=mesh_json(f.mesh), nvdim=int(f.nvdim), data=darr_json(f.array), valid=varr_json(f.valid),
                vdims=(_strs(f.vdims) if f.vdims is not None else None),
                vmap=sorted([[k, v] for k, v in f.vdim_mapping.items() if v is not None]) if isinstance(f.vdim_mapping, dict) else [],   # a dict: its order is not part of the state
                unit=f.unit if (f.unit is None or type(f.unit) is str) else f"<{type(f.unit).__name__}>")


# ------------------------------------------------------------------------------ observation: h5py view
def _attr_str(v):
    if isinstance(v, bytes):
        return "<bytes>" + v.decode("utf-8", "replace")
    if isinstance(v, str):
        return v
    return f"<{type(v).__name__}>{v!r}"


def _attr_strs(v):
    a = np.asarray(v)
    return [_attr_str(x) for x in a.reshape(-1).tolist()]


def layout(h):
    names = ["@" + k for k in h.attrs]

    def visit(name, obj):
        names.append(name)
        names.extend(f"{name}@{k}" for k in obj.attrs)
    h.visititems(visit)
    return sorted(names)


def file_json(path):
    """the written file as seen by h5py alone, in the model's store format (+ extra observations under '_')"""
    with h5py.File(path, "r") as h:
        extra = dict(layout=layout(h))
        ver = h.attrs.get("ubermag-hdf5-file-version")
        if ver is None:
            return dict(version=None, _=extra)
        out = dict(version=_attr_str(ver), type=_attr_str(h.attrs.get("type")))
        g = h["field"]
        gm, gr = g["mesh"], g["mesh/region"]
        reg = dict(pmin=numarr_json(gr.attrs["pmin"]), pmax=numarr_json(gr.attrs["pmax"]), dims=_attr_strs(gr.attrs["dims"]),
                   units=_attr_strs(gr.attrs["units"]), ndim=int(gr.attrs["ndim"]), tol=num_json(gr.attrs["tolerance_factor"]))
        extra["region_shapes"] = [list(np.shape(gr.attrs[k])) for k in ("pmin", "pmax", "dims", "units")]
        extra["num_dtypes"] = [str(np.asarray(gr.attrs["pmin"]).dtype), str(np.asarray(gr.attrs["pmax"]).dtype),
                               str(np.asarray(gr.attrs["tolerance_factor"]).dtype), str(np.asarray(gm.attrs["n"]).dtype)]
        subs = None
        if "subregions" in gm:
            t = gm["subregions"]
            nm = gm["subregion_names"]
            subs = dict(names=[x.decode("utf-8") if isinstance(x, bytes) else _attr_str(x) for x in nm[()].tolist()],
                        k=_nk(t), rows=[[Q(x) for x in row] for row in t[()].tolist()])
            extra["table_shape"] = list(t.shape)
            extra["table_dtype"] = str(t.dtype)
        mesh = dict(region=reg, n=[Q(int(x)) for x in np.asarray(gm.attrs["n"]).reshape(-1).tolist()], bc=_attr_str(gm.attrs["bc"]),
                    subs=subs)
        vd = g.attrs["vdims"]
        vd = dict(str=vd) if isinstance(vd, str) else dict(list=_attr_strs(vd))
        arr = g["array"]
        extra["array_dtype"] = str(arr.dtype)
        extra["valid_dtype"] = str(g["valid"].dtype)
        extra["array_raw"] = arr[()]
        extra["valid_raw"] = g["valid"][()]
        extra["table_raw"] = gm["subregions"][()] if "subregions" in gm else None
        out["field"] = dict(mesh=mesh, nvdim=int(g.attrs["nvdim"]), vdims=vd, unit=_attr_str(g.attrs["unit"]),
                            array=darr_json(arr[()]), valid=varr_json(g["valid"][()]))
        out["_"] = extra
        return out


def width_bits(dt):
    dt = np.dtype(dt)
    return dt.itemsize * 8 // (2 if dt.kind == "c" else 1)


_KNOWN_NAMES = None


def _av(attrs, name, kind):
    """one attribute as the reader can tell it: absent / of the writer's type / of another type class"""
    if name not in attrs:
        return {"a": 1}
    v = attrs[name]
    other = {"o": 1}
    if kind == "str":
        return {"v": v} if type(v) is str else other
    if kind == "strs":
        a = np.asarray(v)
        return {"v": _attr_strs(v)} if (not isinstance(v, str) and a.ndim == 1 and a.dtype.kind in "OUS") else other
    if kind == "int":
        return {"v": int(v)} if isinstance(v, (int, np.integer)) and not isinstance(v, (bool, np.bool_)) else other
    if kind == "nat":
        return {"v": int(v)} if isinstance(v, (int, np.integer)) and not isinstance(v, (bool, np.bool_)) and int(v) >= 0 else other
    if kind == "ints":
        a = np.asarray(v)
        return {"v": [Q(int(x)) for x in a.tolist()]} if (isinstance(v, np.ndarray) and a.ndim == 1 and a.dtype.kind in "iu") else other
    if kind == "numarr":
        a = np.asarray(v)
        return {"v": numarr_json(a)} if (isinstance(v, np.ndarray) and a.ndim == 1 and a.dtype.kind in "iuf") else other
    if kind == "num":
        return {"v": num_json(v)} if isinstance(v, (np.integer, np.floating)) else other
    if kind == "vdims":
        if type(v) is str:
            return {"v": {"str": v}}
        a = np.asarray(v)
        return {"v": {"list": _attr_strs(v)}} if (a.ndim == 1 and a.dtype.kind in "OUS") else other
    raise core.MachineryError(kind)


def raw_json(path):
    """the file as h5py shows it to the reader: every entry the reader may look up is absent / typed / of another type;
    everything else is listed under extras (model: RawFile)"""
    with h5py.File(path, "r") as h:
        names = layout(h)
        out = dict(version=_av(h.attrs, "ubermag-hdf5-file-version", "str"), type=_av(h.attrs, "type", "str"), field=None, legacy=None)
        known = {"@ubermag-hdf5-file-version", "@type"}
        if "field" in h and isinstance(h["field"], h5py.Group):
            g = h["field"]
            known.add("field")
            fj = dict(nvdim=_av(g.attrs, "nvdim", "int"), vdims=_av(g.attrs, "vdims", "vdims"), unit=_av(g.attrs, "unit", "str"),
                      array=None, valid=None, mesh=None)
            known |= {"field@nvdim", "field@vdims", "field@unit"}
            if "array" in g:
                known.add("field/array")
                fj["array"] = dict(w=width_bits(g["array"].dtype), arr=darr_json(g["array"][()]))
            if "valid" in g:
                known.add("field/valid")
                if g["valid"].dtype != np.bool_:
                    raise core.MachineryError("raw view: a valid dataset that is not bool is not modelled")
                fj["valid"] = varr_json(g["valid"][()])
            if "mesh" in g:
                gm = g["mesh"]
                known |= {"field/mesh", "field/mesh@n", "field/mesh@bc"}
                mj = dict(n=_av(gm.attrs, "n", "ints"), bc=_av(gm.attrs, "bc", "str"), names=None, table=None, region=None)
                if "subregion_names" in gm:
                    known.add("field/mesh/subregion_names")
                    mj["names"] = [x.decode("utf-8") if isinstance(x, bytes) else _attr_str(x) for x in gm["subregion_names"][()].tolist()]
                if "subregions" in gm:
                    known.add("field/mesh/subregions")
                    t = gm["subregions"]
                    mj["table"] = dict(k=_nk(t), rows=[[Q(x) for x in row] for row in t[()].tolist()])
                if "region" in gm:
                    gr = gm["region"]
                    known.add("field/mesh/region")
                    known |= {"field/mesh/region@" + a for a in ("pmin", "pmax", "dims", "ndim", "units", "tolerance_factor")}
                    mj["region"] = dict(pmin=_av(gr.attrs, "pmin", "numarr"), pmax=_av(gr.attrs, "pmax", "numarr"),
                                        dims=_av(gr.attrs, "dims", "strs"), ndim=_av(gr.attrs, "ndim", "nat"),
                                        units=_av(gr.attrs, "units", "strs"), tol=_av(gr.attrs, "tolerance_factor", "num"))
                fj["mesh"] = mj
            out["field"] = fj
        out["extras"] = sorted(n for n in names if n not in known)
        out["_names"] = names
        return out


def strip(j):
    return {k: v for k, v in j.items() if k != "_"}


# ------------------------------------------------------------------------------ the property on the real code alone
def bits(a):
    a = np.ascontiguousarray(a)
    return a.view(np.uint8).reshape(-1).tobytes()


def same_corners(x, y):
    x, y = np.asarray(x), np.asarray(y)
    return x.shape == y.shape and all(Fraction(a) == Fraction(b) for a, b in zip(x.tolist(), y.tolist()))


def oracle_roundtrip(f, g, fail):
    """every item of the property statement, on the two real fields"""
    fr, gr = f.mesh.region, g.mesh.region
    if not same_corners(fr.pmin, gr.pmin) or not same_corners(fr.pmax, gr.pmax):
        fail(f"region corners changed: {fr.pmin.tolist()}..{fr.pmax.tolist()} -> {gr.pmin.tolist()}..{gr.pmax.tolist()}")
    if tuple(gr.dims) != tuple(fr.dims) or not all(type(x) is str for x in gr.dims):
        fail(f"dimension names changed: {fr.dims} -> {gr.dims}")
    if tuple(gr.units) != tuple(fr.units) or not all(type(x) is str for x in gr.units):
        fail(f"units changed: {fr.units} -> {gr.units}")
    if not (gr.tolerance_factor == fr.tolerance_factor):
        fail(f"tolerance factor changed: {fr.tolerance_factor!r} -> {gr.tolerance_factor!r}")
    if [int(k) for k in g.mesh.n] != [int(k) for k in f.mesh.n]:
        fail(f"cell counts changed: {f.mesh.n.tolist()} -> {g.mesh.n.tolist()}")
    if g.mesh.bc != f.mesh.bc:
        fail(f"boundary conditions changed: {f.mesh.bc!r} -> {g.mesh.bc!r}")
    if list(g.mesh.subregions) != list(f.mesh.subregions):
        fail(f"subregion names/order changed: {list(f.mesh.subregions)} -> {list(g.mesh.subregions)}")
    else:
        for k, s in f.mesh.subregions.items():
            t = g.mesh.subregions[k]
            if not same_corners(s.pmin, t.pmin) or not same_corners(s.pmax, t.pmax):
                fail(f"subregion {k!r} moved: {s.pmin.tolist()}..{s.pmax.tolist()} -> {t.pmin.tolist()}..{t.pmax.tolist()} "
                     f"(region corners {fr.pmin.dtype}, subregion corners {s.pmin.dtype})")
            elif tuple(t.dims) != tuple(s.dims) or tuple(t.units) != tuple(s.units) or not (t.tolerance_factor == s.tolerance_factor):
                fail(f"subregion {k!r} lost its names/units/tolerance")
    if g.nvdim != f.nvdim:
        fail(f"component count changed: {f.nvdim} -> {g.nvdim}")
    if (f.vdims is None) != (g.vdims is None) or (f.vdims is not None and list(g.vdims) != list(f.vdims)):
        fail(f"component labels changed: {f.vdims} -> {g.vdims}")
    if (f.unit is None) != (g.unit is None) or (f.unit is not None and g.unit != f.unit):
        fail(f"unit changed: {f.unit!r} -> {g.unit!r}")
    fa, ga = f.array, g.array
    if ga.shape != fa.shape:
        fail(f"array shape changed: {fa.shape} -> {ga.shape}")
    else:
        fk, gk = fa.dtype.kind, ga.dtype.kind
        if (fk == "c") != (gk == "c"):
            fail(f"values changed between real and complex: {fa.dtype} -> {ga.dtype}")
        elif fa.dtype == ga.dtype:
            if bits(fa) != bits(ga):
                fail(f"values are not bit-identical ({fa.dtype})")
        elif fk in "iub":
            # integer data may come back as floats ("real staying real"): every number must be the same number
            bad = [(int(x), y) for x, y in zip(fa.reshape(-1).tolist(), ga.reshape(-1).tolist())
                   if not (np.isfinite(y) and Fraction(y) == int(x))]
            if bad:
                fail(f"integer values changed: {bad[0][0]} -> {bad[0][1]!r} ({fa.dtype} -> {ga.dtype})")
        else:
            # narrower float/complex read back wider: numerically identical incl. non-finite pattern
            if bits(fa.astype(ga.dtype)) != bits(ga):
                fail(f"values changed ({fa.dtype} -> {ga.dtype})")
    if g.valid.dtype != np.bool_ or g.valid.shape != f.valid.shape or not np.array_equal(g.valid, f.valid):
        fail("validity changed")
    nan = np.isnan(fa).any() if fa.dtype.kind in "fc" else False
    if not nan and not (g == f):
        fail("field read back is not == the field written")


def oracle_file(f, fj, fail):
    """the h5py view must hold the field's numbers exactly (observation point 1 of the property)"""
    ex = fj["_"]
    if ex["array_raw"].dtype != f.array.dtype or bits(ex["array_raw"]) != bits(f.array):
        fail(f"dataset 'array' does not hold the field's values bit for bit ({f.array.dtype} -> {ex['array_dtype']})")
    if ex["valid_raw"].dtype != np.bool_ or not np.array_equal(ex["valid_raw"], f.valid):
        fail("dataset 'valid' does not hold the field's validity")
    if f.mesh.subregions:
        t = ex["table_raw"]
        if t is None or t.shape != (len(f.mesh.subregions), 2 * f.mesh.region.ndim):
            fail("subregion table missing or of the wrong shape")
        else:
            for row, (k, s) in zip(t.tolist(), f.mesh.subregions.items()):
                want = [*s.pmin.tolist(), *s.pmax.tolist()]
                if [Fraction(x) for x in row] != [Fraction(x) for x in want]:
                    fail(f"corner table ({ex['table_dtype']}) holds {row} for subregion {k!r} with corners {want}")
                    break


# ------------------------------------------------------------------------------ tampering
def tamper(path, how, c, rng):
    """modify a correctly written file in place through h5py; returns a tag"""
    with h5py.File(path, "a") as h:
        g = h["field"]
        gm, gr = g["mesh"], g["mesh/region"]
        ndim = int(gr.attrs["ndim"])
        n = [int(x) for x in gm.attrs["n"]]
        nv = int(g.attrs["nvdim"])

        def redo(name, data, grp=g, **kw):
            del grp[name]
            grp.create_dataset(name, data=data, **kw)
        if how == "type":
            h.attrs["type"] = rng.choice(["discretisedfield.Mesh", "", "discretisedfield.field", "Field"])
        elif how == "type_case":
            h.attrs["type"] = "discretisedfield.Field "
        elif how == "version":
            h.attrs["ubermag-hdf5-file-version"] = rng.choice(["0.2", "1.0", "0.10", ""])
        elif how == "noversion":
            del h.attrs["ubermag-hdf5-file-version"]
        elif how == "swapcorner":
            a, b = gr.attrs["pmin"].copy(), gr.attrs["pmax"].copy()
            i = rng.randrange(ndim)
            a[i], b[i] = b[i], a[i]
            gr.attrs["pmin"], gr.attrs["pmax"] = a, b
        elif how == "eqcorner":
            b = gr.attrs["pmax"].copy()
            i = rng.randrange(ndim)
            b[i] = gr.attrs["pmin"][i]
            gr.attrs["pmax"] = b
        elif how == "n_short":
            gm.attrs["n"] = np.array((n + [1])[: ndim + 1] if rng.random() < 0.5 or ndim == 1 else n[:-1])
        elif how == "n_zero":
            m = list(n)
            m[rng.randrange(ndim)] = rng.choice([0, -1])
            gm.attrs["n"] = np.array(m)
        elif how == "nvdim0":
            g.attrs["nvdim"] = rng.choice([0, -1])
        elif how == "nvdim_other":
            g.attrs["nvdim"] = nv + 1
        elif how == "vdims_short":
            g.attrs["vdims"] = [f"l{i}" for i in range(nv - 1)] if nv > 1 else ["p", "q"]
        elif how == "vdims_dup":
            g.attrs["vdims"] = ["p"] * nv
        elif how == "vdims_none":
            g.attrs["vdims"] = "None"
        elif how == "vdims_str":
            g.attrs["vdims"] = rng.choice(["none", "x", "None "])
        elif how == "vdims_empty":
            g.attrs["vdims"] = np.array([], dtype=h5py.string_dtype())
        elif how == "array_bcast":
            a = g["array"][()]
            idx = tuple(slice(0, 1) if rng.random() < 0.6 else slice(None) for _ in range(ndim)) + (slice(None),)
            b = a[idx]
            if rng.random() < 0.4:
                while b.ndim > 1 and b.shape[0] == 1:
                    b = b[0]
            redo("array", b)
        elif how == "array_scalarshape":
            a = g["array"][()]
            redo("array", a[..., 0])
        elif how == "array_badshape":
            a = g["array"][()]
            redo("array", np.concatenate([a, a], axis=rng.randrange(a.ndim)))
        elif how == "valid_extra_axis":
            redo("valid", g["valid"][()][..., None])
        elif how == "valid_badshape":
            v = g["valid"][()]
            redo("valid", np.concatenate([v, v], axis=rng.randrange(v.ndim)))
        elif how == "valid_bcast":
            v = g["valid"][()]
            idx = tuple(slice(0, 1) if rng.random() < 0.6 else slice(None) for _ in range(ndim))
            redo("valid", v[idx][..., None])
        elif how in ("sub_outside", "sub_offgrid", "sub_inttable_from_float"):
            t = gm["subregions"][()]
            cell = [Fraction(x) for x in c["cell"]]
            i = rng.randrange(t.shape[0])
            a = rng.randrange(ndim)
            if how == "sub_outside":
                t = t.astype(float)
                t[i, ndim + a] = float(Fraction(gr.attrs["pmax"][a]) + cell[a] * rng.choice([1, 2]))
            elif how == "sub_offgrid":
                t = t.astype(float)
                t[i, a] = float(Fraction(t[i, a]) + cell[a] / 2) if Fraction(t[i, a]) + cell[a] / 2 < Fraction(t[i, ndim + a]) \
                    else float(Fraction(t[i, a]) - cell[a] / 4)
            else:
                t = np.trunc(t).astype(np.int64)
            redo("subregions", t, grp=gm)
        elif how == "sub_dupname":
            nm = [x.decode() for x in gm["subregion_names"][()]]
            nm[-1] = nm[0]
            redo("subregion_names", nm, grp=gm)
        elif how == "sub_names_short":
            nm = [x.decode() for x in gm["subregion_names"][()]]
            if len(nm) > 1:
                redo("subregion_names", nm[:-1], grp=gm)
            else:
                t = gm["subregions"][()]
                redo("subregions", np.concatenate([t, t]), grp=gm)
        elif how == "unit_none":
            g.attrs["unit"] = rng.choice(["None", "none", "NONE"])
        elif how == "bc_upper":
            d = [x for x in _attr_strs(gr.attrs["dims"]) if len(x) == 1 and x.isascii() and x.upper() != x]
            gm.attrs["bc"] = rng.choice(["NEUMANN", "Dirichlet"] + ([d[0].upper()] if d else []))
        elif how == "bc_bad":
            d = _attr_strs(gr.attrs["dims"])
            one = [x for x in d if len(x) == 1]
            gm.attrs["bc"] = rng.choice(["q", "periodic"] + ([one[0] * 2] if one else []))
        elif how == "dims_dup":
            gr.attrs["dims"] = ["d"] * ndim if ndim > 1 else ["d", "d"]
        elif how == "dims_short":
            gr.attrs["dims"] = [f"d{i}" for i in range(ndim + 1)]
        elif how == "units_short":
            gr.attrs["units"] = ["m"] * (ndim + 1)
        elif how in ("region_int", "pmin_kind_mixed"):
            lo, hi = np.asarray(gr.attrs["pmin"]), np.asarray(gr.attrs["pmax"])
            whole = all(Fraction(x).denominator == 1 for x in [*lo.tolist(), *hi.tolist()])
            if not whole and "subregions" in gm:   # geometry changes: no subregion arithmetic near thresholds
                del gm["subregions"], gm["subregion_names"]
            lo2 = np.floor(lo).astype(np.int64)
            hi2 = np.maximum(np.ceil(hi).astype(np.int64), lo2 + 1)
            gr.attrs["pmin"] = lo2
            gr.attrs["pmax"] = hi2 if how == "region_int" else hi2.astype(np.float64)
        elif how == "tol_int":
            gr.attrs["tolerance_factor"] = rng.choice([0, 1])
        elif how == "array_int":
            a = g["array"][()]
            redo("array", np.trunc(a.real).astype(np.int64))
        else:
            raise core.MachineryError(f"unknown tamper {how}")
    return how


def tamper_raw(path, how, rng):
    """remove / retype one entry the reader looks up, or add foreign entries"""
    kind, _, name = how.partition(":")
    with h5py.File(path, "a") as h:
        def holder(nm):
            if nm.startswith("@"):
                return h.attrs, nm[1:]
            if "@" in nm:
                g, a = nm.split("@")
                return h[g].attrs, a
            return h, nm
        if kind == "raw_none":
            return how
        if kind == "raw_extra":
            h.attrs["foo"] = 1
            h["field"].attrs["bar"] = "x"
            h["field/mesh"].attrs["baz"] = [1, 2]
            h["field/mesh/region"].attrs["qux"] = 2.5
            h.create_dataset("other", data=[1, 2, 3])
            h["field"].create_dataset("more", data=[1.0])
            h["field/mesh"].create_group("grp")
            if rng.random() < 0.5:
                h["field/mesh/region"].attrs["p1"] = [0.0]
            return how
        if kind == "raw_del":
            if name == "subs_both":
                for nm in ("field/mesh/subregions", "field/mesh/subregion_names"):
                    if nm in h:
                        del h[nm]
                return how
            where, key = holder(name)
            if key in where:
                del where[key]
            return how
        if kind == "raw_retype":
            where, key = holder(name)
            v = rng.choice(RAW_RETYPE[name])
            if v == "floats":
                v = np.asarray(where[key], dtype=float)
            where[key] = v
            return how
    raise core.MachineryError(f"unknown raw tamper {how}")


# ------------------------------------------------------------------------------ legacy files
def _legacy_corners(c, r):
    p1, p2 = (r.pmax.copy(), r.pmin.copy()) if c.get("p2first") else (r.pmin.copy(), r.pmax.copy())
    if c.get("mixswap") is not None:
        for a in range(len(p1)):
            if (c["mixswap"] >> a) & 1:
                p1[a], p2[a] = p2[a], p1[a]
    return p1, p2


def write_legacy(path, c, f):
    """the pre-0.90 layout, fabricated with h5py alone"""
    r = f.mesh.region
    p1, p2 = _legacy_corners(c, r)
    with h5py.File(path, "w") as h:
        g = h.create_group("field")
        gm = g.create_group("mesh")
        gr = gm.create_group("region")
        gr.create_dataset("p1", data=np.asarray(p1))
        gr.create_dataset("p2", data=np.asarray(p2))
        gm.create_dataset("n", data=np.asarray(f.mesh.n))
        g.create_dataset("dim", data=int(f.nvdim))
        g.create_dataset("array", data=f.array)
    side = None
    if c.get("sidecar") in ("ok", "bad"):
        side = []
        for k, s in f.mesh.subregions.items():
            pm, px = s.pmin.tolist(), s.pmax.tolist()
            if c.get("sidecar_mixed") and all(float(x).is_integer() for x in pm):
                pm = [int(x) for x in pm]   # JSON ints for one corner, floats for the other: the reader joins the dtypes
            if c["sidecar"] == "bad" and k == list(f.mesh.subregions)[-1]:
                px[0] = (r.pmax + r.edges)[0].item()
            side.append((k, dict(pmin=pm, pmax=px, dims=list(s.dims), units=list(s.units), tolerance_factor=s.tolerance_factor)))
        with open(str(path) + ".subregions.json", "w", encoding="utf-8") as fh:
            json.dump(dict(side), fh)
    return side


def legacy_json(c, f, side):
    r = f.mesh.region
    p1, p2 = _legacy_corners(c, r)
    sc = None
    if side is not None:
        sc = [dict(name=k, region=dict(pmin=numarr_json(np.asarray(v["pmin"])), pmax=numarr_json(np.asarray(v["pmax"])),
                                       dims=v["dims"], units=v["units"], ndim=len(v["pmin"]), tol=num_json(v["tolerance_factor"])))
              for k, v in side]
    return dict(p1=numarr_json(p1), p2=numarr_json(p2), n=[Q(int(k)) for k in f.mesh.n], dim=int(f.nvdim),
                array=darr_json(f.array), sidecar=sc)


def oracle_legacy(c, f, side, res, fail):
    """'files written by the legacy layout are still read': a well-formed legacy file loads to the documented field"""
    if res[0] != "ok":
        fail(f"legacy-layout file rejected: {res[1]}")
        return
    g = res[1]
    r = f.mesh.region   # p1/p2 of the file are this region's corners, in either order
    if not same_corners(r.pmin, g.mesh.region.pmin) or not same_corners(r.pmax, g.mesh.region.pmax):
        fail(f"legacy file: region {g.mesh.region.pmin.tolist()}..{g.mesh.region.pmax.tolist()} is not the element-wise "
             f"min/max of p1, p2 ({r.pmin.tolist()}..{r.pmax.tolist()})")
    if [int(k) for k in g.mesh.n] != [int(k) for k in f.mesh.n]:
        fail(f"legacy file: cell counts {g.mesh.n.tolist()} vs stored {f.mesh.n.tolist()}")
    if g.nvdim != f.nvdim:
        fail(f"legacy file: component count {g.nvdim} vs stored {f.nvdim}")
    fa, ga = f.array, g.array
    if ga.shape != fa.shape or (ga.dtype.kind == "c") != (fa.dtype.kind == "c"):
        fail(f"legacy file: array {fa.dtype}{fa.shape} read as {ga.dtype}{ga.shape}")
    elif fa.dtype == ga.dtype:
        if bits(fa) != bits(ga):
            fail("legacy file: values are not bit-identical")
    else:
        bad = [(x, y) for x, y in zip(fa.reshape(-1).tolist(), ga.reshape(-1).tolist()) if not (Fraction(y) == Fraction(x))]
        if bad:
            fail(f"legacy file: value {bad[0][0]!r} read as {bad[0][1]!r}")
    if g.valid.dtype != np.bool_ or g.valid.shape != tuple(int(k) for k in f.mesh.n) or not g.valid.all():
        fail("legacy file: not every cell valid")
    if g.unit is not None:
        fail(f"legacy file: unit {g.unit!r} (none is stored)")
    want = side if side is not None else []
    if list(g.mesh.subregions) != [k for k, _ in want]:
        fail(f"legacy file: subregions {list(g.mesh.subregions)} vs side-car {[k for k, _ in want]}")
    else:
        for k, v in want:
            t = g.mesh.subregions[k]
            if not same_corners(np.asarray(v["pmin"]), t.pmin) or not same_corners(np.asarray(v["pmax"]), t.pmax):
                fail(f"legacy file: subregion {k!r} {t.pmin.tolist()}..{t.pmax.tolist()} vs side-car {v['pmin']}..{v['pmax']}")


# ------------------------------------------------------------------------------ run on the real code
def _try(fn):
    try:
        return ("ok", fn())
    except Exception as e:  # canonicalised: ok / err
        return ("err", f"{type(e).__name__}: {str(e)[:120]}")


def run_impl(case):
    warnings.filterwarnings("ignore")
    obs = {"oracle": [], "tags": ["kind:" + case["kind"]]}
    fail = obs["oracle"].append
    rng = random.Random(case["sub"] ^ 0x5EED)
    with tempfile.TemporaryDirectory(prefix="dfv_c10_") as tmp:
        if case["kind"] == "suffix":
            f = df.Field(df.Mesh(p1=(0, 0, 0), p2=(2, 1, 1), n=(2, 1, 1)), nvdim=3, value=(1.0, 2.0, 3.0))
            path = os.path.join(tmp, "f" + case["suffix"])
            w = _try(lambda: f.to_file(path))
            if w[0] == "ok":
                obs["write"] = "hdf5" if (os.path.exists(path) and h5py.is_hdf5(path)) else "other"
            else:
                obs["write"] = "err" if w[1].startswith("ValueError") else "crash:" + w[1]
            # reading: give from_file a genuine HDF5 file under that name
            f.to_file(os.path.join(tmp, "src.h5"))
            os.replace(os.path.join(tmp, "src.h5"), path)
            r = _try(lambda: df.Field.from_file(path))
            if r[0] == "ok":
                obs["read"] = "hdf5"
                if not (r[1] == f):
                    fail(f"suffix {case['suffix']!r}: file read back differs")
            else:
                obs["read"] = "err" if r[1].startswith("ValueError: Reading file with extension") else "other"
            obs["tags"].append("suffix:" + (case["suffix"] or "<none>"))
            return obs

        if case["kind"] == "overwrite":
            run_overwrite(case, tmp, obs, fail)
            return obs

        kind = case["kind"]
        if kind == "ctor":
            f = run_ctor(case, tmp, obs, fail)
            if f is None:
                return obs
            kind = "rt"   # a constructor-built field: from here on an ordinary round trip
        else:
            f = build_field(case)
        obs["state"] = state_json(f)
        obs["w"] = width_bits(f.array.dtype)
        obs["tags"] += [f"ndim:{f.mesh.region.ndim}", f"nvdim:{f.nvdim}", f"dtype:{case['dtype']}",
                        f"corners:{_nk(f.mesh.region.pmin)}/" + ("".join(sorted({_nk(s.pmin) for s in f.mesh.subregions.values()})) or "-"),
                        f"nsub:{len(f.mesh.subregions)}", "labels:" + ("custom" if case["vdims"] else "none-vector" if (f.vdims is None and f.nvdim > 1) else
                                                                          "default" if f.vdims else "none"),
                        "unit:" + ("none" if f.unit is None else "empty" if f.unit == "" else "str"),
                        "bc:" + ("-" if not f.mesh.bc else "named" if f.mesh.bc in ("neumann", "dirichlet") else "periodic"),
                        "tol:" + case["tol"][0], "dims:" + ("renamed" if case["dims"] else "default"),
                        "units:" + ("renamed" if case["units"] else "default")]
        if case.get("special"):
            obs["tags"].append("nonfinite")
        if case.get("vmap"):
            obs["tags"].append("custom-mapping")
        snap = (bits(f.array), bits(f.valid), json.dumps(mesh_json(f.mesh), sort_keys=True))
        r_ = f.mesh.region
        obs["mem_dtypes"] = [str(r_.pmin.dtype), str(r_.pmax.dtype), str(np.asarray(r_.tolerance_factor).dtype), str(f.mesh.n.dtype)]

        if kind == "legacy":
            path = os.path.join(tmp, "legacy" + case["suffix"])
            side = write_legacy(path, case, f)
            obs["legacy"] = legacy_json(case, f, side)
            res = _try(lambda: df.Field.from_file(path))
            obs["res"] = res[0]
            obs["tags"] += ["legacy-sidecar:" + case.get("sidecar", "none"), "legacy:" + res[0]]
            if case.get("sidecar") != "bad":
                oracle_legacy(case, f, side, res, fail)
            if res[0] == "ok":
                obs["loaded"] = state_json(res[1])
                obs["loaded_w"] = width_bits(res[1].array.dtype)
            # the documented reader (component count passed as nvdim), executed with the real constructors
            def documented():
                r = f.mesh.region
                p1, p2 = (r.pmax, r.pmin) if case.get("p2first") else (r.pmin, r.pmax)
                m = df.Mesh(region=df.Region(p1=tuple(p1), p2=tuple(p2)), n=f.mesh.n.tolist())
                if side is not None:
                    m.subregions = {k: df.Region(**v) for k, v in side}
                return df.Field(m, nvdim=int(f.nvdim), value=f.array[:])
            doc = _try(documented)
            if doc[0] != res[0]:
                fail(f"legacy file: from_file {res[0]} but Region/Mesh/Field built from the stored items directly: {doc[0]}"
                     + (f" ({res[1]})" if res[0] == "err" else ""))
            elif doc[0] == "ok" and state_json(doc[1]) != obs["loaded"]:
                fail("legacy file: field read differs from Field(Mesh(Region(p1, p2), n, side-car subregions), nvdim=dim, value=array)")
            obs["nontrivial"] = True
            return obs

        if kind == "series":
            run_series(case, f, tmp, obs, fail)
            return obs

        path = os.path.join(tmp, "field" + case["suffix"])
        f.to_file(path)
        if (bits(f.array), bits(f.valid), json.dumps(mesh_json(f.mesh), sort_keys=True)) != snap:
            fail("to_file modified the field")
        if kind == "tamper" and case["tamper"].startswith("raw_"):
            how = tamper_raw(path, case["tamper"], rng)
            obs["tags"].append("tamper:" + how.split(":")[0])
            rj = raw_json(path)
            obs["raw_names"] = rj.pop("_names")
            obs["raw"] = rj
            res = _try(lambda: df.Field.from_file(path))
            obs["res"] = res[0]
            obs["err"] = res[1] if res[0] == "err" else None
            obs["tags"].append(f"tamper-{how}:{res[0]}")
            if res[0] == "ok":
                obs["loaded"] = state_json(res[1])
                obs["loaded_w"] = width_bits(res[1].array.dtype)
            obs["nontrivial"] = True
            return obs
        view = _try(lambda: file_json(path))
        if view[0] == "ok":
            fj = view[1]
            obs["file_w"] = width_bits(np.dtype(fj["_"]["array_dtype"]))
            if kind == "rt" and f.array.size <= 64 and f.array.dtype.kind in "fc":
                # which entries are values of the next narrower binary format (numpy's own conversion there and back)
                nb = {64: 32, 32: 16, 16: 16}[obs["w"]]
                wide = f.array.astype(np.complex128 if f.array.dtype.kind == "c" else np.float64)
                narrow = wide.astype({("f", 32): np.float32, ("f", 16): np.float16, ("c", 32): np.complex64}.get((f.array.dtype.kind, nb), np.float16)) \
                    if (f.array.dtype.kind, nb) != ("c", 16) else None
                if narrow is not None:
                    back = narrow.astype(wide.dtype)
                    per = 16 if wide.dtype.kind == "c" else 8
                    bw, bb = bits(wide), bits(back)
                    obs["narrow"] = dict(w=nb, flags=[bw[i:i + per] == bb[i:i + per] for i in range(0, len(bw), per)])
            if kind == "rt" and case["sub"] % 4 == 0:
                rj = raw_json(path)
                obs["raw_names"] = rj.pop("_names")
                obs["raw"] = rj
            obs["file_written"] = strip(fj)
            obs["layout"] = fj["_"]["layout"]
            obs["extra"] = {k: v for k, v in fj["_"].items() if not k.endswith("_raw") and k != "layout"}
            oracle_file(f, fj, fail)
        else:
            obs["view_error"] = view[1]

        if kind == "rt":
            res = _try(lambda: df.Field.from_file(path))
            obs["res"] = res[0]
            if res[0] != "ok":
                fail(f"from_file rejected the file written by to_file: {res[1]}")
            else:
                g = res[1]
                obs["loaded"] = state_json(g)
                obs["loaded_dtype"] = str(g.array.dtype)
                obs["loaded_w"] = width_bits(g.array.dtype)
                oracle_roundtrip(f, g, fail)
                if case.get("vmap") and g.vdim_mapping != f.vdim_mapping:
                    obs["tags"].append("observation:custom-vdim_mapping-not-restored")
                # a second generation must be a fixed point
                p2 = os.path.join(tmp, "again" + case["suffix"])
                g.to_file(p2)
                g2 = _try(lambda: df.Field.from_file(p2))
                if g2[0] != "ok":
                    fail(f"second round trip rejected: {g2[1]}")
                else:
                    s1, s2 = state_json(g), state_json(g2[1])
                    if s1 != s2 or bits(g.array) != bits(g2[1].array):
                        fail("second round trip changes the field again")
                # what a read returns belongs to the caller: after the first result has been moved, relabelled and
                # emptied IN PLACE, reading the untouched file once more gives the stored state again
                s0 = state_json(g)
                try:
                    g.mesh.translate(tuple(float(x) for x in g.mesh.region.edges), inplace=True)
                    g.mesh.scale(2.0, inplace=True)
                    g.mesh.bc = ""
                    g.mesh.subregions = {}
                    g.array[...] = 0
                    g.valid[...] = False
                    moved = True
                except Exception:
                    moved = False
                if moved:
                    g3 = _try(lambda: df.Field.from_file(path))
                    if g3[0] != "ok":
                        fail(f"reading the same file a second time is rejected: {g3[1]}")
                    elif state_json(g3[1]) != s0:
                        fail("reading the same file a second time, after the first result was changed in place, does not return the "
                             "stored state (results of reads share objects)")
            obs["nontrivial"] = int(np.prod(f.mesh.n)) >= 2 and len({bits(x) for x in f.array.reshape(-1, f.nvdim)}) > 1
            return obs

        # tamper
        how = tamper(path, case["tamper"], case, rng)
        obs["tags"].append("tamper:" + how)
        tj = file_json(path)
        obs["file"] = strip(tj)
        res = _try(lambda: df.Field.from_file(path))
        obs["res"] = res[0]
        obs["err"] = res[1] if res[0] == "err" else None
        obs["tags"].append(f"tamper-{how}:{res[0]}")
        if res[0] == "ok":
            obs["loaded"] = state_json(res[1])
        obs["nontrivial"] = True
    return obs


def _ctor_objects(c):
    k = c["ctor"]
    ndim = len(k["n"])
    cell, origin = [Fraction(x) for x in k["cell"]], [Fraction(x) for x in k["origin"]]
    p2 = [o + n * h for o, n, h in zip(origin, k["n"], cell)]
    kw = {} if (k["rtol"] is None or k["mode"] == "legacy") else dict(tolerance_factor=k["rtol"])
    region = df.Region(p1=tuple(float(x) for x in origin), p2=tuple(float(x) for x in p2), **kw)
    cands = {}
    for s_ in k["cands"]:
        lo = [origin[a] + (s_["lo"][a] + Fraction(s_["elo"][a])) * cell[a] for a in range(ndim)]
        hi = [origin[a] + (s_["hi"][a] + Fraction(s_["ehi"][a])) * cell[a] for a in range(ndim)]
        ckw = {}
        if s_["tol"] is not None:
            ckw["tolerance_factor"] = s_["tol"]
        if s_["dims"]:
            ckw["dims"] = s_["dims"]
        if s_["units"]:
            ckw["units"] = s_["units"]
        cands[s_["name"]] = df.Region(p1=tuple(float(x) for x in lo), p2=tuple(float(x) for x in hi), **ckw)
    return region, cands


def run_ctor(case, tmp, obs, fail):
    """Mesh(region, n, subregions=candidates with their own tolerance factors) on the real code; returns the field to be
    written (mode mesh, constructor accepted) or None"""
    k = case["ctor"]
    region, cands = _ctor_objects(case)
    obs["ctor"] = dict(region=region_json(region), n=[Q(int(x)) for x in k["n"]], bc="",
                       subs=[dict(name=nm, region=region_json(r)) for nm, r in cands.items()])
    obs["tags"] += ["ctor-mode:" + k["mode"], "ctor-rtol:" + str(k["rtol"]), "ctor-scale:" + ("nm" if Fraction(k["cell"][0]) < Fraction(1, 1000) else "unit")]
    obs["tags"] += ["ctor-cand-tol:" + str(s_["tol"]) for s_ in k["cands"]]
    offl = any(Fraction(e) != 0 for s_ in k["cands"] for e in s_["elo"] + s_["ehi"])
    obs["nontrivial"] = True
    if k["mode"] == "legacy":
        # a legacy file on the same geometry; the candidates travel in the side-car json with their tolerance factors
        mesh0 = df.Mesh(region=region, n=tuple(k["n"]))
        f = build_field(case, mesh0)
        obs["state"] = state_json(f)
        obs["w"] = width_bits(f.array.dtype)
        path = os.path.join(tmp, "legacy" + case["suffix"])
        write_legacy(path, dict(case, sidecar="none"), f)
        side = [(nm, dict(pmin=r.pmin.tolist(), pmax=r.pmax.tolist(), dims=list(r.dims), units=list(r.units),
                          tolerance_factor=r.tolerance_factor)) for nm, r in cands.items()]
        with open(str(path) + ".subregions.json", "w", encoding="utf-8") as fh:
            json.dump(dict(side), fh)
        obs["legacy"] = legacy_json(case, f, side)
        res = _try(lambda: df.Field.from_file(path))
        obs["res"] = res[0]
        obs["tags"].append(f"ctor-legacy:{res[0]}:{'off' if offl else 'on'}-lattice")
        if not offl:
            oracle_legacy(case, f, side, res, fail)   # boxes of whole cells on the lattice: must be read, whatever tolerance they carry
        if res[0] == "ok":
            obs["loaded"] = state_json(res[1])
            obs["loaded_w"] = width_bits(res[1].array.dtype)
        return None
    made = _try(lambda: df.Mesh(region=region, n=tuple(k["n"]), subregions=cands))
    obs["ctor_res"] = made[0]
    obs["tags"].append(f"ctor:{made[0]}:{'off' if offl else 'on'}-lattice")
    if made[0] != "ok":
        if not offl:
            fail(f"Mesh(...) refused subregions made of whole cells on the lattice: {made[1]}")
        return None
    obs["ctor_mesh"] = mesh_json(made[1])
    return build_field(case, made[1])


def run_overwrite(case, tmp, obs, fail):
    """to_file on paths that already hold something: the file is replaced as a whole"""
    rng = random.Random(case["sub"])
    paths = {k: os.path.join(tmp, k + case["suffix"]) for k in ("a", "b")}
    first = case["writes"][0]
    if case["pre"] == "junk":
        with open(paths[first["path"]], "wb") as fh:
            fh.write(bytes(rng.getrandbits(8) for _ in range(300)))
    elif case["pre"] in ("legacy", "bigger"):
        big = gen_rt(random.Random(case["sub"] ^ 1), max_cells=48, force=dict(nobig=True, nsub=2, dtype="f8"))
        fb = build_field(big)
        if case["pre"] == "legacy":
            write_legacy(paths[first["path"]], dict(big, sidecar="none"), fb)
        else:
            fb.to_file(paths[first["path"]])
            with h5py.File(paths[first["path"]], "a") as h:
                h.attrs["left-over"] = "x"
                h["field"].create_dataset("stale", data=np.arange(50.0))
    sent, last = [], {}
    for w in case["writes"]:
        f = build_field(w)
        f.to_file(paths[w["path"]])
        sent.append(dict(path=w["path"], field=state_json(f), w=width_bits(f.array.dtype)))
        last[w["path"]] = f
    obs["fs_writes"] = sent
    obs["fs_reads"] = sorted(last)
    loads, names = [], []
    for k in obs["fs_reads"]:
        res = _try(lambda: df.Field.from_file(paths[k]))
        if res[0] != "ok":
            fail(f"from_file rejected the file to_file wrote over an existing {case['pre']} file: {res[1]}")
            loads.append(None)
        else:
            loads.append(dict(field=state_json(res[1]), w=width_bits(res[1].array.dtype)))
            oracle_roundtrip(last[k], res[1], lambda t, k=k: fail(f"overwritten file {k}: {t}"))
        with h5py.File(paths[k], "r") as h:
            names.append(layout(h))
    obs["fs_loads"] = loads
    obs["fs_names"] = names
    obs["tags"] += [f"overwrite-pre:{case['pre']}", f"overwrite-writes:{len(sent)}"]
    obs["nontrivial"] = True


def run_series(case, f0, tmp, obs, fail):
    """the time-series helpers of io/hdf5.py on the real code: structure once, data slot by slot, one field per slot back"""
    T, nv = case["T"], int(f0.nvdim)
    n = [int(k) for k in f0.mesh.n]
    path = os.path.join(tmp, "series" + case["suffix"])
    flags, sent, last = [], [], {}
    with h5py.File(path, "w") as h:
        g = h.create_group("field")
        ds = core.private(f0, "_h5_save_structure")(g, (T, *n, nv))
        if tuple(ds.shape) != (T, *n, nv) or ds.dtype != f0.array.dtype:
            fail(f"_h5_save_structure created dataset {ds.dtype}{tuple(ds.shape)} for data_shape {(T, *n, nv)} and array dtype {f0.array.dtype}")
        for w in case["writes"]:
            wr = random.Random(w["seed"])
            wnv = nv + 1 if w["bad_shape"] else nv
            a = make_array(wr, (*n, wnv), w["dtype"], special=w.get("special"))
            fw = df.Field(f0.mesh, nvdim=wnv, value=a, dtype=DTYPES[w["dtype"]])
            sent.append(dict(t=w["t"], data=darr_json(fw.array)))
            save_data = core.private(fw, "_h5_save_data")
            res = _try(lambda: save_data(ds, w["t"]))
            flags.append(res[0] == "ok")
            wellformed = -T <= w["t"] < T and not w["bad_shape"] and w["dtype"] == case["dtype"]
            if wellformed and res[0] != "ok":
                fail(f"_h5_save_data rejected a field of the dataset's dtype and shape at index {w['t']} of {T}: {res[1]}")
            if res[0] == "ok":
                last[w["t"] % T] = fw.array.copy() if w["dtype"] == case["dtype"] else None
    obs["series_writes"] = sent
    obs["series_flags"] = flags
    obs["tags"] += [f"series-T:{T}", f"series-writes:{len(sent)}"] + [f"series-write:{'ok' if x else 'err'}" for x in flags]
    reads = list(range(-T - 1, T + 1))
    obs["series_reads"] = reads
    loads = []
    with h5py.File(path, "r") as h:
        obs["series_array"] = darr_json(h["field/array"][()])
        for k in reads:
            load_field = core.private(df.Field, "_h5_load_field")
            res = _try(lambda: load_field(h["field"], k))
            if res[0] != "ok":
                loads.append(None)
                if 0 <= k < T:
                    fail(f"_h5_load_field rejected slot {k} of {T}: {res[1]}")
                continue
            g_ = res[1]
            loads.append(state_json(g_))
            slot = k % T
            if slot in last and last[slot] is None:
                continue   # last write converted between int and float: the numbers are compared with the model only
            want = last.get(slot, np.zeros((*n, nv), dtype=f0.array.dtype))
            fe = df.Field(f0.mesh, nvdim=nv, value=want, dtype=want.dtype, vdims=f0.vdims if f0.vdims is not None else [],
                          unit=f0.unit, valid=f0.valid, vdim_mapping=f0.vdim_mapping)
            oracle_roundtrip(fe, g_, lambda t, k=k: fail(f"series slot {k}: {t}"))
    obs["series_loads"] = loads
    obs["nontrivial"] = True


# ------------------------------------------------------------------------------ model side
def model_requests(case, obs):
    kind = case["kind"]
    pre = []
    if kind == "ctor":
        if case["ctor"]["mode"] == "legacy":
            kind = "legacy"
        else:
            pre = [dict(op="mkmesh", **obs["ctor"])]
            if obs.get("ctor_res") != "ok":
                return pre
            kind = "rt"
    return pre + _model_requests(case, obs, kind)


def _model_requests(case, obs, kind):
    if kind == "suffix":
        return [dict(op="fmt", suffix=case["suffix"])]
    if kind == "overwrite":
        return [dict(op="fs", pre=[], writes=obs["fs_writes"], reads=obs["fs_reads"])]
    if kind == "legacy":
        raw = dict(version={"a": 1}, type={"a": 1}, field=None, legacy=dict(w=obs["w"], legacy=obs["legacy"]), extras=[])
        return [dict(op="load", file=dict(version=None, legacy=obs["legacy"])), dict(op="rawload", raw=raw)] + (
            [dict(op="invw", field=obs["loaded"])] if "loaded" in obs else [])
    if kind == "series":
        if "series_writes" not in obs:
            return []
        return [dict(op="series", field=obs["state"], T=case["T"], writes=obs["series_writes"], reads=obs["series_reads"]),
                dict(op="inv", field=obs["state"])]
    if "state" not in obs:
        return []
    if kind == "rt":
        if "file_written" not in obs:
            return [dict(op="inv", field=obs["state"])]
        reqs = [dict(op="save", field=obs["state"]), dict(op="load", file=obs["file_written"]),
                dict(op="spec", field=obs["state"], file=obs["file_written"]), dict(op="inv", field=obs["state"])]
        reqs.append(dict(op="inv", field=obs["loaded"]) if "loaded" in obs else dict(op="fmt", suffix=".h5"))
        reqs.append(dict(op="rawsave", field=obs["state"], w=obs["w"]))
        reqs.append(dict(op="exact", data=obs["state"]["data"], w=obs["narrow"]["w"]) if "narrow" in obs else dict(op="fmt", suffix=".h5"))
        reqs.append(dict(op="rawload", raw=obs["raw"]) if "raw" in obs else dict(op="fmt", suffix=".h5"))
        return reqs
    if "raw" in obs:
        return [dict(op="rawload", raw=obs["raw"])] + ([dict(op="inv", field=obs["loaded"])] if "loaded" in obs else [])
    if "file" not in obs:
        return []
    if obs["file"].get("version") is None:
        return []  # a new-layout file without the version attribute: the legacy reader finds no legacy datasets
    return [dict(op="load", file=obs["file"])] + ([dict(op="inv", field=obs["loaded"])] if "loaded" in obs else [])


def _cmp_numarr(name, a, b, dis):
    if a["k"] != b["k"]:
        dis.append(f"{name}: dtype kind impl {a['k']} vs model {b['k']}")
    if [F(x) for x in a["v"]] != [F(x) for x in b["v"]]:
        dis.append(f"{name}: impl {a['v']} vs model {b['v']}")


def _cmp_num(name, a, b, dis):
    if a["k"] != b["k"] or F(a["v"]) != F(b["v"]):
        dis.append(f"{name}: impl {a} vs model {b}")


def _cmp_region(name, a, b, dis, ndim=False):
    _cmp_numarr(name + ".pmin", a["pmin"], b["pmin"], dis)
    _cmp_numarr(name + ".pmax", a["pmax"], b["pmax"], dis)
    for k in ("dims", "units") + (("ndim",) if ndim else ()):
        if a[k] != b[k]:
            dis.append(f"{name}.{k}: impl {a[k]} vs model {b[k]}")
    _cmp_num(name + ".tolerance_factor", a["tol"], b["tol"], dis)


def _cmp_darr(name, a, b, dis):
    if a["k"] != b["k"]:
        dis.append(f"{name}: dtype kind impl {a['k']} vs model {b['k']}")
    if a["shape"] != b["shape"]:
        dis.append(f"{name}: shape impl {a['shape']} vs model {b['shape']}")
        return
    if a["v"] == b["v"] and a["k"] == b["k"]:
        return
    pa, pb = darr_pairs(a), darr_pairs(b)
    if pa != pb:
        k = next((i for i, (x, y) in enumerate(zip(pa, pb)) if x != y), -1)
        dis.append(f"{name}: values differ (first at flat position {k}: impl {pa[k] if k >= 0 else len(pa)} vs model {pb[k] if k >= 0 else len(pb)})")


def _cmp_varr(name, a, b, dis):
    if a["shape"] != b["shape"] or a["v"] != b["v"]:
        dis.append(f"{name}: impl shape {a['shape']} vs model shape {b['shape']}, values {'equal' if a['v'] == b['v'] else 'differ'}")


def cmp_state(name, a, b, dis):
    """impl typed state vs model TFld JSON"""
    _cmp_region(name + ".region", a["mesh"]["region"], b["mesh"]["region"], dis)
    if a["mesh"]["n"] != b["mesh"]["n"]:
        dis.append(f"{name}.n: impl {a['mesh']['n']} vs model {b['mesh']['n']}")
    if a["mesh"]["bc"] != b["mesh"]["bc"]:
        dis.append(f"{name}.bc: impl {a['mesh']['bc']!r} vs model {b['mesh']['bc']!r}")
    na, nb = [s["name"] for s in a["mesh"]["subs"]], [s["name"] for s in b["mesh"]["subs"]]
    if na != nb:
        dis.append(f"{name}.subregions: names impl {na} vs model {nb}")
    else:
        for sa, sb in zip(a["mesh"]["subs"], b["mesh"]["subs"]):
            _cmp_region(f"{name}.subregion[{sa['name']}]", sa["region"], sb["region"], dis)
    if a["nvdim"] != b["nvdim"]:
        dis.append(f"{name}.nvdim: impl {a['nvdim']} vs model {b['nvdim']}")
    _cmp_darr(name + ".array", a["data"], b["data"], dis)
    _cmp_varr(name + ".valid", a["valid"], b["valid"], dis)
    if a["vdims"] != b["vdims"]:
        dis.append(f"{name}.vdims: impl {a['vdims']} vs model {b['vdims']}")
    if sorted(map(tuple, a["vmap"])) != sorted(map(tuple, b["vmap"])):
        dis.append(f"{name}.vdim_mapping: impl {a['vmap']} vs model {b['vmap']}")
    if a["unit"] != b["unit"]:
        dis.append(f"{name}.unit: impl {a['unit']!r} vs model {b['unit']!r}")


def cmp_file(a, b, dis):
    """h5py view of the written file vs model store"""
    for k in ("version", "type"):
        if a.get(k) != b.get(k):
            dis.append(f"file attribute {k}: impl {a.get(k)!r} vs model {b.get(k)!r}")
    fa, fb = a["field"], b["field"]
    _cmp_region("file region", fa["mesh"]["region"], fb["mesh"]["region"], dis, ndim=True)
    if [F(x) for x in fa["mesh"]["n"]] != [F(x) for x in fb["mesh"]["n"]]:
        dis.append(f"file n: impl {fa['mesh']['n']} vs model {fb['mesh']['n']}")
    if fa["mesh"]["bc"] != fb["mesh"]["bc"]:
        dis.append(f"file bc: impl {fa['mesh']['bc']!r} vs model {fb['mesh']['bc']!r}")
    sa, sb = fa["mesh"]["subs"], fb["mesh"]["subs"]
    if (sa is None) != (sb is None):
        dis.append(f"file subregion datasets: impl {'absent' if sa is None else 'present'} vs model {'absent' if sb is None else 'present'}")
    elif sa is not None:
        if sa["names"] != sb["names"]:
            dis.append(f"file subregion_names: impl {sa['names']} vs model {sb['names']}")
        if sa["k"] != sb["k"] or any(k != sb["k"] for k in sb.get("rowkinds", [])):
            dis.append(f"file corner table dtype kind: impl {sa['k']} vs model {sb['k']} (rows {sb.get('rowkinds')})")
        if [[F(x) for x in r] for r in sa["rows"]] != [[F(x) for x in r] for r in sb["rows"]]:
            dis.append(f"file corner table: impl {sa['rows']} vs model {sb['rows']}")
    if fa["nvdim"] != fb["nvdim"]:
        dis.append(f"file nvdim: impl {fa['nvdim']} vs model {fb['nvdim']}")
    if fa["vdims"] != fb["vdims"]:
        dis.append(f"file vdims: impl {fa['vdims']} vs model {fb['vdims']}")
    if fa["unit"] != fb["unit"]:
        dis.append(f"file unit: impl {fa['unit']!r} vs model {fb['unit']!r}")
    _cmp_darr("file array", fa["array"], fb["array"], dis)
    _cmp_varr("file valid", fa["valid"], fb["valid"], dis)


def compare(case, obs, rs):
    kind = case["kind"]
    if kind == "ctor":
        if case["ctor"]["mode"] == "legacy":
            return _compare(case, obs, rs, "legacy")
        r = rs[0]
        dis = []
        if ("ok" in r) != (obs["ctor_res"] == "ok"):
            dis.append(f"Mesh(region, n, subregions) with candidate tolerance factors {[c['tol'] for c in case['ctor']['cands']]} on a region with "
                       f"tolerance factor {case['ctor']['rtol']}: impl {obs['ctor_res']} vs model {'ok' if 'ok' in r else r}")
        elif "ok" in r:
            a, b = obs["ctor_mesh"], r["ok"]
            _cmp_region("constructed mesh.region", a["region"], b["region"], dis)
            if a["n"] != b["n"] or a["bc"] != b["bc"]:
                dis.append(f"constructed mesh: n/bc impl {a['n']}/{a['bc']!r} vs model {b['n']}/{b['bc']!r}")
            if [x["name"] for x in a["subs"]] != [x["name"] for x in b["subs"]]:
                dis.append("constructed mesh: subregion names differ")
            else:
                for sa, sb in zip(a["subs"], b["subs"]):
                    _cmp_region(f"constructed mesh.subregion[{sa['name']}]", sa["region"], sb["region"], dis)
        if obs["ctor_res"] != "ok" or "ok" not in r:
            return dis
        return dis + _compare(case, obs, rs[1:], "rt")
    return _compare(case, obs, rs, kind)


def _compare(case, obs, rs, kind):
    dis = []
    if kind == "suffix":
        r = rs[0]
        mw = r["write"] if r["write"] in ("hdf5", "err") else "other"
        mr = r["read"] if r["read"] in ("hdf5", "err") else "other"
        if obs["write"] != mw:
            dis.append(f"to_file suffix {case['suffix']!r}: impl {obs['write']} vs model {mw}")
        if obs["read"] != mr:
            dis.append(f"from_file suffix {case['suffix']!r}: impl {obs['read']} vs model {mr}")
        return dis
    if not rs:
        if kind == "tamper" and obs.get("res") == "ok":
            dis.append("file without version attribute and without legacy datasets accepted")
        return dis
    if kind == "overwrite":
        r = rs[0]
        for k, a, b, na, nb in zip(obs["fs_reads"], obs["fs_loads"], r["loads"], obs["fs_names"], r["names"]):
            if (a is not None) != ("ok" in b):
                dis.append(f"overwritten file {k}: from_file impl {'ok' if a is not None else 'err'} vs model {'ok' if 'ok' in b else b}")
            elif a is not None:
                cmp_state(f"overwritten file {k}", a["field"], b["ok"]["field"], dis)
                if a["w"] != b["ok"]["w"]:
                    dis.append(f"overwritten file {k}: element width read back impl {a['w']} vs model {b['ok']['w']}")
            if nb is None or sorted(na) != sorted(nb):
                dis.append(f"overwritten file {k}: entries left in the file {sorted(set(na) - set(nb or []))} / missing {sorted(set(nb or []) - set(na))} "
                           "(to_file must replace the file as a whole)")
        return dis
    if kind == "legacy":
        r = rs[0]
        if ("ok" in r) != (obs["res"] == "ok"):
            dis.append(f"legacy reader: impl {obs['res']} vs model {'ok' if 'ok' in r else r}")
        elif "ok" in r:
            cmp_state("legacy", obs["loaded"], r["ok"], dis)
        rw = rs[1]
        if ("ok" in rw) != (obs["res"] == "ok"):
            dis.append(f"legacy reader (raw view): impl {obs['res']} vs model {'ok' if 'ok' in rw else rw}")
        elif "ok" in rw:
            cmp_state("legacy(raw)", obs["loaded"], rw["ok"]["field"], dis)
            if rw["ok"]["w"] != obs["loaded_w"]:
                dis.append(f"legacy file: element width of the array read impl {obs['loaded_w']} vs model {rw['ok']['w']} (stored {obs['w']})")
        if len(rs) > 2 and not rs[2]["invw"]:   # legacy_reader_returns_inv (InvW part)
            dis.append("the field from_file returned for a legacy file violates the constructors' weak invariant InvW")
        if len(rs) > 2 and not rs[2]["inv"]:   # legacy_reader_returns_inv
            dis.append("the field from_file returned for a legacy file violates the constructors' invariant Inv")
        return dis
    if kind == "series":
        r, inv = rs
        if not inv["ok"]:
            dis.append("theorem hypothesis Inv does not hold for the state of the field whose structure is saved")
        if r["writes"] != obs["series_flags"]:
            dis.append(f"series: _h5_save_data accepted/rejected {obs['series_flags']} vs model {r['writes']} "
                       f"(indices {[w['t'] for w in obs['series_writes']]} of {case['T']})")
        _cmp_darr("series dataset", obs["series_array"], r["array"], dis)
        for k, a, b in zip(obs["series_reads"], obs["series_loads"], r["loads"]):
            if (a is not None) != ("ok" in b):
                dis.append(f"series: _h5_load_field at {k}: impl {'ok' if a is not None else 'err'} vs model {'ok' if 'ok' in b else b}")
            elif a is not None:
                cmp_state(f"series slot {k}", a, b["ok"], dis)
        return dis
    if kind == "rt" and "view_error" in obs:
        return [f"written file does not have the documented layout (h5py view failed: {obs['view_error']})"]
    if kind == "rt":
        saved, ld, spec, inv = rs[:4]
        rsave, rexact, rload = rs[5], rs[6], rs[7]
        if sorted(rsave["names"]) != sorted(obs.get("layout", [])):
            dis.append(f"file entries: impl has {sorted(set(obs.get('layout', [])) - set(rsave['names']))} more, model has "
                       f"{sorted(set(rsave['names']) - set(obs.get('layout', [])))} more")
        if rsave["w"] != obs.get("file_w"):
            dis.append(f"element width of dataset 'array': impl {obs.get('file_w')} vs model {rsave['w']} (array in memory {obs['w']})")
        if not rsave["exact"]:
            dis.append(f"model: an entry of a real {case['dtype']} array is not a value of the {obs['w']}-bit type (exactness predicate)")
        if "loaded_w" in obs and "ok" in rsave["load"] and rsave["load"]["ok"]["w"] != obs["loaded_w"]:
            dis.append(f"element width of the array read back: impl {obs['loaded_w']} vs model {rsave['load']['ok']['w']} (written {obs['w']})")
        if "narrow" in obs and rexact["flags"] != obs["narrow"]["flags"]:
            k = next(i for i, (x, y) in enumerate(zip(rexact["flags"], obs["narrow"]["flags"])) if x != y)
            dis.append(f"which entries are values of the {obs['narrow']['w']}-bit format: numpy and the model's predicate differ at flat position {k} "
                       f"(numpy {obs['narrow']['flags'][k]})")
        if "raw" in obs:
            if sorted(obs["raw_names"]) != sorted(obs.get("layout", [])):
                dis.append("harness: raw view lists other names than the layout")
            if ("ok" in rload) != (obs["res"] == "ok"):
                dis.append(f"from_file vs model reader on the raw view: impl {obs['res']} vs model {'ok' if 'ok' in rload else rload}")
            elif "ok" in rload:
                cmp_state("from_file(raw view)", obs["loaded"], rload["ok"]["field"], dis)
                if rload["ok"]["w"] != obs["loaded_w"]:
                    dis.append(f"raw view: element width read back impl {obs['loaded_w']} vs model {rload['ok']['w']}")
        # the hypotheses of the round-trip theorems, evaluated on the state of the real field
        if not inv["ok"]:
            dis.append(f"theorem hypothesis Inv does not hold for the state of a field built by the real constructors "
                       f"(region {inv['region']}, mesh {inv['mesh']})")
        if "ok" in rs[4] and not rs[4]["ok"]:
            dis.append("theorem hypothesis Inv does not hold for the state of the field returned by from_file")
        if inv["ok"] and inv["unit_ok"] and inv["vdims_ok"] and inv["exact"] and "loaded" in obs and obs["loaded"] != obs["state"]:
            dis.append("hypotheses of h5_roundtrip (exact) hold but the field read back differs from the field written")
        if "ok" not in saved:
            return dis + [f"model writer toHdf5 fails on the state of a real field: {saved}"]
        cmp_file(obs["file_written"], saved["ok"], dis)
        exp = EXPECTED_LAYOUT + (SUBS_LAYOUT if obs["state"]["mesh"]["subs"] else [])
        if sorted(obs["layout"]) != sorted(exp):
            dis.append(f"file layout: unexpected {sorted(set(obs['layout']) - set(exp))}, missing {sorted(set(exp) - set(obs['layout']))}")
        ex = obs["extra"]
        nd = len(obs["state"]["mesh"]["n"])
        if ex["region_shapes"] != [[nd]] * 4:
            dis.append(f"file region attribute shapes {ex['region_shapes']}")
        if ex.get("num_dtypes") != obs["mem_dtypes"]:
            dis.append(f"file dtypes of pmin/pmax/tolerance_factor/n {ex.get('num_dtypes')} vs in memory {obs['mem_dtypes']} (narrowing cast)")
        if ex.get("valid_dtype") != "bool":
            dis.append(f"file valid dtype {ex.get('valid_dtype')}")
        if obs["state"]["mesh"]["subs"] and ex.get("table_shape") != [len(obs["state"]["mesh"]["subs"]), 2 * nd]:
            dis.append(f"file corner table shape {ex.get('table_shape')}")
        if ("ok" in ld) != (obs["res"] == "ok"):
            dis.append(f"from_file: impl {obs['res']} vs model {'ok' if 'ok' in ld else ld}")
        elif "ok" in ld:
            cmp_state("from_file", obs["loaded"], ld["ok"], dis)
            if inv["ok"] and inv["unit_ok"] and inv["vdims_ok"] and not spec["load_eq_loaded"]:   # hypotheses of h5_roundtrip_loaded
                dis.append("model reader on the h5py view differs from the spec loaded(f) although the theorem's hypotheses hold")
            if inv["ok"] and not spec["load_eq_reread"]:   # hypothesis of h5_roundtrip_reread
                dis.append("model reader on the h5py view differs from reread(f) although Inv holds")
            if inv["ok"] and inv["unit_ok"] and inv["vdims_ok"] and inv["int_safe"] and "loaded" in obs and (
                    darr_pairs(obs["loaded"]["data"]) != darr_pairs(obs["state"]["data"])):   # h5_roundtrip_partial, values
                dis.append("hypotheses of h5_roundtrip_partial hold but a value read back differs from the value written")
        if inv["ok"] and not spec["writer_eq"]:   # toHdf5_eq_h5Save
            dis.append("model: the code-shaped writer toHdf5 differs from the store h5Save although Inv holds")
        if not spec["rt_eq_load"]:
            dis.append("model: h5Load (h5Save f) differs from h5Load of the h5py view")
        if not dis and not spec["store_eq"]:
            dis.append("model store h5Save f differs from the h5py view in a way the field-by-field comparison does not show")
        return dis
    r = rs[0]
    if ("ok" in r) != (obs["res"] == "ok"):
        dis.append(f"tampered file ({case['tamper']}): impl {obs['res']} ({obs.get('err')}) vs model {'ok' if 'ok' in r else r}")
    elif "ok" in r and "raw" in obs:
        cmp_state(f"tampered({case['tamper']})", obs["loaded"], r["ok"]["field"], dis)
        if r["ok"]["w"] != obs["loaded_w"]:
            dis.append(f"tampered({case['tamper']}): element width read back impl {obs['loaded_w']} vs model {r['ok']['w']}")
    elif "ok" in r:
        cmp_state(f"tampered({case['tamper']})", obs["loaded"], r["ok"], dis)
    if len(rs) > 1 and not rs[1]["ok"]:   # reader_returns_inv
        dis.append(f"the field from_file returned for a tampered file ({case['tamper']}) violates the constructors' invariant Inv")
    return dis


def nontrivial(case, obs):
    return bool(obs.get("nontrivial"))


def known(case, text):
    if case["kind"] == "rt" and case.get("unit") == "None" and text.startswith("unit changed: 'None' -> None"):
        return "D32"
    if case["kind"] == "rt" and case.get("vdims") == [] and case.get("nvdim", 1) > 1 and text.startswith("component labels changed: None -> ["):
        return "D34"
    if case["kind"] == "rt" and case.get("dtype") in ("i8",) and case.get("bigint") and (
            text.startswith("integer values changed") or ".array: values differ" in text):
        return "D33"   # binary64 cannot hold the integer; the rational model can
    return None


def search(case, rng):
    """neighbours: same geometry with every corner-kind / dtype / unit / label variation, then fresh cases"""
    if case.get("kind") in ("rt", "tamper", "legacy"):
        for rk in "if":
            for sk in "if":
                for dt in ("f8", "c16", "i8"):
                    yield gen_rt(rng, force=dict(ndim=len(case["n"]), rkind=rk, skind=sk, dtype=dt, nsub=rng.choice([1, 2, 3])))
    for _ in range(400):
        yield gen_rt(rng)
