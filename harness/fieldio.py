"""Shared adapters: discretisedfield objects <-> driver JSON, generators for exact-regime
meshes and fields, comparison of a real Field with a model field response."""
from fractions import Fraction

import numpy as np

from .core import Q, Qs, F

import discretisedfield as df

NAMES = ["x", "y", "z", "a", "b", "c", "u", "v", "w", "t"]
BC_WORDS = ("neumann", "dirichlet")


def is_periodic(bc, d):
    """is the axis named `d` a periodic direction under the boundary-condition string `bc`: `bc` lists periodic
    directions as single characters unless it is one of the two words"""
    return bc not in BC_WORDS and len(d) == 1 and d in bc


def word_dims(rng, ndim, pool=None):
    """(dims, bc): a `neumann`/`dirichlet` mesh some of whose axes are named by letters of that word (an open axis
    called `n` is not a periodic one), or a mesh whose periodic directions, concatenated, spell a multi-character axis name"""
    pool = pool or NAMES
    if ndim >= 3 and rng.random() < 0.35:
        singles = rng.sample([x for x in pool if len(x) == 1], ndim - 1)
        k = rng.randint(2, len(singles))
        bc = "".join(singles[:k])
        dims = singles + [bc]
        rng.shuffle(dims)
        return dims, bc
    word = rng.choice(BC_WORDS)
    letters = sorted(set(word))
    k = rng.randint(1, min(ndim, len(letters)))
    dims = rng.sample(letters, k) + rng.sample([x for x in pool if x not in letters], ndim - k)
    rng.shuffle(dims)
    return dims, word


def region_json(r):
    return dict(pmin=Qs(r.pmin), pmax=Qs(r.pmax), dims=list(r.dims), units=list(r.units),
                tol=Q(r.tolerance_factor))


def mesh_json(m):
    subs = [dict(region_json(s), name=k) for k, s in m.subregions.items()]
    return dict(region=region_json(m.region), n=[int(k) for k in m.n], bc=m.bc, subs=subs)


def field_json(f):
    nv = f.nvdim
    arr = np.asarray(f.array).reshape(-1, nv)
    if np.iscomplexobj(arr):
        if np.any(arr.imag != 0):
            raise ValueError("complex field cannot be sent as rationals")
        arr = arr.real          # complex storage of real numbers: the model's rationals are these numbers
    return dict(mesh=mesh_json(f.mesh), nvdim=int(nv),
                data=[Qs(row) for row in arr.tolist()],
                valid=[bool(v) for v in np.asarray(f.valid).reshape(-1).tolist()],
                vdims=(list(f.vdims) if f.vdims is not None else None),
                vmap=[[k, v] for k, v in f.vdim_mapping.items() if v is not None],
                unit=f.unit)


def gen_mesh_spec(rng, ndim=None, max_cells=120, nmax=6, bc_prob=0.0, names=True, min_n=1):
    """exact-regime mesh: dyadic corners and cells; returns kwargs dict for build_mesh"""
    ndim = ndim or rng.choice([1, 2, 2, 3, 3, 4])
    n = [rng.randint(min_n, nmax) for _ in range(ndim)]
    while int(np.prod(n)) > max_cells:
        k = rng.randrange(ndim)
        n[k] = max(min_n, n[k] - 1)
        if all(x == min_n for x in n):
            break
    cell = [Fraction(rng.choice([1, 1, 3, 5]), 2 ** rng.randint(0, 3)) for _ in range(ndim)]
    if ndim > 1 and rng.random() < 0.7:  # anisotropic: make all cells different
        cell = [c * (k + 1) for k, c in enumerate(cell)]
    pmin = [Fraction(rng.randint(-40, 40), 2 ** rng.randint(0, 2)) for _ in range(ndim)]
    pmax = [a + k * c for a, k, c in zip(pmin, n, cell)]
    dims = rng.sample(NAMES, ndim) if (names and rng.random() < 0.5) else None
    intcorners = False
    if rng.random() < 0.2:
        # integer-typed corners (Python ints), cells 1/2^k: faces and centres fall on non-integers
        pmin = [Fraction(rng.randint(-9, 9)) for _ in range(ndim)]
        pmax = [a + rng.randint(1, 6) for a in pmin]
        n = [int((b - a) * rng.choice([1, 1, 2, 4])) for a, b in zip(pmin, pmax)]
        while int(np.prod(n)) > max_cells:
            k = rng.randrange(ndim)
            n[k] = max(1, n[k] // 2) if n[k] > int(pmax[k] - pmin[k]) else n[k]
            if all(x <= int(b - a) for x, a, b in zip(n, pmin, pmax)):
                break
        if int(np.prod(n)) <= max_cells and min(n) >= min_n:
            intcorners = True
        else:
            pmin = [Fraction(rng.randint(-40, 40), 2 ** rng.randint(0, 2)) for _ in range(ndim)]
            n = [rng.randint(min_n, min(nmax, 3)) for _ in range(ndim)]
            pmax = [a + k * c for a, k, c in zip(pmin, n, cell)]
    bc = ""
    if bc_prob and rng.random() < bc_prob:
        dd = dims or (["x", "y", "z"][:ndim] if ndim <= 3 else [f"x{i}" for i in range(ndim)])
        cand = [d for d in dd if len(d) == 1]
        bc = "".join(d for d in cand if rng.random() < 0.6)
    return dict(p1=[float(x) for x in pmin], p2=[float(x) for x in pmax], n=n, dims=dims, bc=bc, intcorners=intcorners)


def build_mesh(spec, subregions=None):
    kw = {}
    if spec.get("dims"):
        kw["dims"] = spec["dims"]
    if spec.get("units"):
        kw["units"] = spec["units"]
    p1, p2 = spec["p1"], spec["p2"]
    if spec.get("intcorners") and all(float(x).is_integer() for x in list(p1) + list(p2)):
        p1, p2 = [int(x) for x in p1], [int(x) for x in p2]  # integer-typed corner arrays
    r = df.Region(p1=p1, p2=p2, **kw)
    return df.Mesh(region=r, n=spec["n"], bc=spec.get("bc", ""), subregions=subregions)


def gen_int_array(rng, shape, lo=-9, hi=9):
    size = int(np.prod(shape))
    return np.array([rng.randint(lo, hi) for _ in range(size)], dtype=float).reshape(shape)


def gen_mask(rng, shape, density=None):
    size = int(np.prod(shape))
    density = rng.choice([1.0, 1.0, 0.9, 0.7, 0.5, 0.2]) if density is None else density
    return np.array([rng.random() < density for _ in range(size)], dtype=bool).reshape(shape)


def cmp_field(name, f, mj, dis, exact=True, rel=2**-40, check_meta=True):
    """compare a real Field `f` with a model field JSON `mj` (fldToJson output)"""
    got = field_json(f)
    if got["mesh"]["n"] != mj["mesh"]["n"]:
        dis.append(f"{name}: n impl {got['mesh']['n']} vs model {mj['mesh']['n']}")
        return
    rscale = max([abs(F(x)) for x in mj["mesh"]["region"]["pmin"] + mj["mesh"]["region"]["pmax"]] + [Fraction(1)])
    for key in ("pmin", "pmax"):
        a, b = got["mesh"]["region"][key], mj["mesh"]["region"][key]
        if len(a) != len(b) or any((F(x) != F(y)) if exact else abs(F(x) - F(y)) > Fraction(rel) * rscale for x, y in zip(a, b)):
            dis.append(f"{name}: region {key} impl {a} vs model {b}")
            return
    if check_meta:
        for key in ("dims", "units"):
            if got["mesh"]["region"][key] != mj["mesh"]["region"][key]:
                dis.append(f"{name}: region {key} impl {got['mesh']['region'][key]} vs model {mj['mesh']['region'][key]}")
        if got["nvdim"] != mj["nvdim"]:
            dis.append(f"{name}: nvdim impl {got['nvdim']} vs model {mj['nvdim']}")
            return
        if got["vdims"] != mj["vdims"]:
            dis.append(f"{name}: vdims impl {got['vdims']} vs model {mj['vdims']}")
        if sorted(map(tuple, got["vmap"])) != sorted(map(tuple, mj["vmap"])):
            dis.append(f"{name}: vdim_mapping impl {got['vmap']} vs model {mj['vmap']}")
        if got["unit"] != mj["unit"]:
            dis.append(f"{name}: unit impl {got['unit']} vs model {mj['unit']}")
    if got["valid"] != mj["valid"]:
        k = next(i for i, (a, b) in enumerate(zip(got["valid"], mj["valid"])) if a != b) if len(got["valid"]) == len(mj["valid"]) else -1
        dis.append(f"{name}: validity differs (first at flat cell {k})")
    if len(got["data"]) != len(mj["data"]):
        dis.append(f"{name}: cell count impl {len(got['data'])} vs model {len(mj['data'])}")
        return
    scale = max([abs(float(F(x))) for row in mj["data"] for x in row] + [0.0])
    for k, (ra, rb) in enumerate(zip(got["data"], mj["data"])):
        if len(ra) != len(rb):
            dis.append(f"{name}: component count at cell {k}")
            return
        for c, (x, y) in enumerate(zip(ra, rb)):
            ok = (F(x) == F(y)) if exact else abs(F(x) - F(y)) <= Fraction(rel) * Fraction(max(scale, 1e-300))
            if not ok:
                dis.append(f"{name}: value at flat cell {k} comp {c}: impl {x} vs model {y}")
                return
