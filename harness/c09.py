"""C09 — OVF files round-trip fields and follow the OVF 1.0/2.0 format.

The harness has its own minimal OVF 1.0/2.0 reader and writer (text, 4- and 8-byte binary),
written from the OVF specification and independent of discretisedfield/io/ovf.py.  They are
used (a) to decode the bytes the real writer produces, (b) to produce foreign files, (c) to
turn any file - also a damaged one - into the line/byte structure the Lean model reads."""
import itertools
import json
import os
import random
import re
import struct
import tempfile
import warnings
from fractions import Fraction

import math
import numpy as np

from . import core
from .core import Q, Qs, F

import discretisedfield as df

PID = "C09"
RULE = ("real files in a fresh temporary directory. (rt) 3-d fields, 1-5 components, labels (alphanumeric, underscores, long, "
        "non-ASCII letters), unit present/absent, subregions, txt/bin4/bin8, extend_scalar, dyadic and arbitrary-float geometry "
        "(scales 1e-12..1e6, offsets up to 1e3 edges), values over the whole binary64 range: written bytes decoded by the harness's "
        "own OVF 2.0 reader and compared line by line / byte by byte with the model's file, read-back field compared with the "
        "model's reader; (foreign) files from the harness's own OVF 1.0/2.0 writer (big/little endian, text in OOMMF and mumax "
        "style, shuffled headers) and the shipped samples; (fault) EVERY truncation point of small bin4/bin8 files and EVERY "
        "single-byte corruption of the check value, plus random ones of larger files; (malformed) bad representation, ndim != 3, "
        "mixed units, missing keys, inconsistent node counts, bad extensions; (sep) units outside the header grammar (white space, ':', "
        "'None', '') must round-trip like any unit (open finding D25); labels are identifier-like (word characters incl. underscores, "
        "non-ASCII letters), labels with other punctuation are an unflagged observation; extend_scalar=True on vector fields must "
        "behave like extend_scalar=False (D24, fixed). (text bytes) for txt files the model writes the WHOLE file (header + rows) and the bytes are "
        "compared with the real file when the header arithmetic is exact; every text file read is also read by the model of read_csv "
        "on its bytes; every cut of four small text files (real, extend_scalar, mumax- and OOMMF-style foreign) is read by code and "
        "model (nothing demanded: outside the fault model); the bytes of the model's reference writer (OVF 1.0/2.0, text/bin4/bin8) are "
        "read by the REAL reader and compared with the content. non-trivial = at least two axes with >= 2 cells "
        "and non-constant data, or a damaged/foreign file")
TRUSTED = ["harness/c09.py (independent OVF reader/writer, generators, comparators) + driver JSON glue",
           "Python's float() / repr() on header numbers, handed to the byte-level model as tables",
           "Python repr/float/int are the fmt/parse pair of header numbers; for the text payload numpy's astype(str) / Python's float() "
           "are the pair only for values that are not plain short decimals (those the model formats and parses itself)",
           "struct / numpy.tobytes / numpy.fromfile are the byte codecs; the model's IEEE-754 codec on rationals is "
           "validated bit for bit against them on every run",
           "json round trip of the side-car file"]
ASSUMPTIONS = ["labels are attribute names (field.<label>): word characters incl. '_' and non-ASCII letters; labels with other "
               "punctuation ('-', '.', '{', ',', '+') are outside the property's reading and only recorded as observations",
               "units that contain white space or ':' or equal 'None' or '' come back changed: open finding D25, flagged by the "
               "oracle; every other unit string is demanded to round-trip",
               "subregions are exercised on dyadic meshes of moderate scale (alignment at extreme scales is C14 / D18)",
               "D19 (short data block still followed by the footer) is outside the quantifier: observed, not flagged"]
UNPROVED = ["text representation: the rows are now modelled down to the bytes - what to_csv(sep=' ', header=False, index=False) "
            "writes (textBytes) and what read_csv(sep=' ', skipinitialspace, comment='#', nrows, dtype=float64) makes of the bytes "
            "(csvBody: lines, C tokenizer states, empty field = NaN, short records padded, long ones refused) - and proved read back "
            "(text_rows_read_back, written_bytes_read_all, roundtrip_all_bytesT); the TEXT OF A NUMBER is modelled and proved only for "
            "short decimals in fixed notation (dec_text_roundtrip: parseDec (fmtDec x) = x; roundtrip_all_bytes_dec); for all other "
            "values (17-digit shortest repr, exponent notation, inf) numpy's astype(str) / Python's float() are the trusted pair, "
            "handed to the model as tables (TextIO.LawfulOn is the hypothesis); pandas' own float parser (xstrtod) against the "
            "correctly rounded float() is only compared to 1e-9, as the property grants",
            "the model of read_csv covers blank, '#', newline and ordinary characters; carriage return, tab, double quote and "
            "backslash in a text data section are outside it (csv_safe keeps such files out of the byte-level text comparison)",
            "truncation of TEXT files (outside the property's fault model): every cut up to the start of the last row is proved "
            "rejected (text_truncation_rejected), every cut from the end of the rows on reads to the same field "
            "(text_cut_after_rows_same_field); a cut INSIDE the last row is read into a field by code and model alike, with NaN or a "
            "shortened number in the last cell (text_cut_in_last_row_accepted, observation obs:text-cut-lastrow) - no theorem can "
            "reject it",
            "header numbers: Python's repr / float are a parameter of the byte-level model (NumIO.Lawful: float(repr x) = x, "
            "no ':' or white space in the text; satisfiable: toyNum) - the driver is given Python's own results as tables",
            "the model's text helpers follow Python's str methods on ASCII white space (' ', \\t, \\r, \\n) and ASCII case "
            "only; headers with other Unicode white space or with non-ASCII characters whose lower() is ASCII are not sent "
            "to the byte-level lexer comparison",
            "the IEEE codec is proved lawful on binary64 VALUES (rationals); the sign of zero and NaN payloads are not "
            "values of the model and are compared on the real bytes only; narrow32 = np.float32 rounding is the model's "
            "definition of float32 rounding, validated bit for bit on every run",
            "foreign files: the reference writer's files are proved read at byte level, binary and text, with every truncation "
            "point of the binary ones (reader_v1_v2_bytes, reader_v1_v2_txt_bytes, foreign_truncation_rejected, "
            "foreign_cut_after_payload_same_field); other foreign styles (shuffled or extra header lines, OOMMF's two leading "
            "blanks, mumax's trailing blank, lower-case data line) are proved at the structured level only (header_order_irrelevant, "
            "reader_text_trailing_column, labels_foreign_styles) and tied to the bytes by the correspondence check",
            "acceptance as an equivalence is proved for the data block given a consistent header (binary_accepted_iff), for the "
            "reshape (unflatten_ok_iff), the labels (labels_accepted_iff), the writer (writer_accepts_iff) and the required keys "
            "(accepted_has_keys / missing_key_rejected); which min/max/stepsize triples the Region and Mesh constructors accept is "
            "C01's by-cell theorem, not restated here"]
BUDGET = {"quick": 110, "thorough": 900}

MAGIC = {4: 1234567.0, 8: 123456789012345.0}
NUM_KEYS = {a + s for a in "xyz" for s in ("min", "max", "base", "stepsize")}
NAT_KEYS = {a + "nodes" for a in "xyz"} | {"valuedim", "Segment count"}
SAMPLE_DIR = os.path.join(core.REPO, "discretisedfield", "tests", "test_sample")
TMPROOT = "/dev/shm" if os.path.isdir("/dev/shm") and os.access("/dev/shm", os.W_OK) else None
FIELD_ATTRS = None


def field_attrs():
    global FIELD_ATTRS
    if FIELD_ATTRS is None:
        FIELD_ATTRS = sorted(a for a in dir(df.Field) if not a.startswith("__"))
    return FIELD_ATTRS


# =========================================================================== independent OVF reader
def split_lines(raw):
    """[(text bytes without newline, start offset, offset after the newline)]"""
    out, pos = [], 0
    while pos < len(raw):
        j = raw.find(b"\n", pos)
        if j < 0:
            out.append((raw[pos:], pos, len(raw)))
            pos = len(raw)
        else:
            out.append((raw[pos:j], pos, j + 1))
            pos = j + 1
    return out


DATA_RE = re.compile(r"^#\s*begin:\s*data\b(.*)$", re.I)


def hval(key, text):
    if key in NAT_KEYS:
        try:
            return ["nat", int(text)] if int(text) >= 0 else ["str", text]
        except ValueError:
            return ["str", text]
    if key in NUM_KEYS:
        try:
            v = float(text)
            if np.isfinite(v):
                return ["num", Q(v)]
        except ValueError:
            pass
        return ["str", text]
    return ["str", text]


def qfloat(t):
    """float(text) as the model's rational: +-2^1024 for +-inf, 2^1025 for NaN (ValueError as float())"""
    v = float(t)
    if v != v:
        return Q(Fraction(2) ** 1025)
    if v in (float("inf"), float("-inf")):
        return Q(Fraction(2) ** 1024 * (1 if v > 0 else -1))
    return Q(v)


def structure(raw):
    """Line/byte structure of any byte string that claims to be an OVF file (also truncated
    ones): first line, header lines split at the first ':', data line words, data section.
    Returns (file dict for the model, offset of the first byte after the data line or None)."""
    lines = split_lines(raw)
    if not lines:
        return dict(first="", lines=[], body=dict(bin=[])), None
    first = lines[0][0].decode("utf-8", errors="replace").rstrip("\r")
    out, data_off, words = [], None, None
    for text, _, after in lines[1:]:
        s = text.decode("utf-8", errors="replace").rstrip("\r")
        m = DATA_RE.match(s)
        if m:
            words = m.group(1).split()
            out.append(["data", words])
            data_off = after
            break
        body = s[1:] if s.startswith("#") else s
        if ":" in body:
            k, v = body.split(":", 1)
            # a second ':' ends the value for the real parser; keep the spec reading here and the
            # harness never relies on values that contain ':'
            out.append(["kv", k.strip(), hval(k.strip(), v.strip())])
        else:
            out.append(["other"])
    if data_off is None:
        return dict(first=first, lines=out, body=dict(bin=[])), None
    if words and words[0].lower() == "binary":
        return dict(first=first, lines=out, body=dict(bin=list(raw[data_off:]))), data_off
    rows, footer, in_footer = [], [], False
    for text, _, _ in split_lines(raw[data_off:]):
        s = text.decode("utf-8", errors="replace").rstrip("\r")
        if s.startswith("#"):
            in_footer = True
        if in_footer:
            footer.append(s)
        elif s.strip():
            try:
                # a blank at the end of a row (mumax3) is one more, empty, column for the csv reader (sep=" "):
                # the model's rows carry it as an extra entry, as pandas' frame does (NaN there, 0 here)
                rows.append([qfloat(t) for t in s.split()] + ([Q(0)] if s[-1:] in (" ", "\t") else []))
            except ValueError:   # not numbers at all (binary junk after a non-binary data line)
                return dict(first=first, lines=out, body=dict(text=[], footer=[])), data_off
    return dict(first=first, lines=out, body=dict(text=rows, footer=footer)), data_off


def lex_py(raw):
    """The header loop on bytes, written with Python's own bytes/str methods (decode, lower, startswith,
    split, strip): the reference for the model's byte-level lexer (`lexBytes`).  Returns
    ('ok', dict(first=[bytes], lines=[...], data=None | dict(words, rest=len))) or ('err', why)."""
    if not raw:
        return "err", "empty"
    j = raw.find(b"\n")
    first = raw if j < 0 else raw[:j]
    pos = len(raw) if j < 0 else j + 1
    lines, data = [], None
    while pos < len(raw):
        j = raw.find(b"\n", pos)
        line, nxt = (raw[pos:], len(raw)) if j < 0 else (raw[pos:j], j + 1)
        try:
            text = line.decode("utf-8")
        except UnicodeDecodeError:
            return "err", "decode"
        if text.lower().startswith("# begin: data"):
            data = dict(words=text.split()[3:], rest=len(raw) - nxt)
            break
        info = text[1:].split(":")
        if len(info) > 1:
            lines.append(["kv", info[0].strip(), info[1].strip()])
        else:
            lines.append(["other"])
        pos = nxt
    return "ok", dict(first=list(first), lines=lines, data=data)


def py_ws_safe(raw):
    """True when Python's str.split/strip/lower agree with the model's ASCII reading on this header: no white
    space outside ' \\t\\r\\n' and no non-ASCII character whose lower() is ASCII (the model documents both limits)"""
    try:
        text = raw.decode("utf-8")
    except UnicodeDecodeError:
        text = raw.decode("utf-8", errors="ignore")
    for ch in set(text):
        if ch.isspace() and ch not in " \t\r\n":
            return False
        if ord(ch) > 127 and any(ord(x) < 128 for x in ch.lower()):
            return False
    return True


def float_table(raw):
    """Python's float() on every header value the reader may convert: [[text, rational], ...] (finite only)"""
    st, lx = lex_py(raw)
    out, seen = [], set()
    if st != "ok":
        return out
    for l in lx["lines"]:
        if l[0] == "kv" and l[1] in NUM_KEYS and l[2] not in seen:
            seen.add(l[2])
            try:
                v = float(l[2])
            except ValueError:
                continue
            if np.isfinite(v):
                out.append([l[2], Q(v)])
    return out


def readbytes_req(raw, st, side=None, reserved=()):
    """request for the model's byte-level reader on the bytes of a file (`st` = structure(raw)[0])"""
    req = dict(op="readbytes", bytes=list(raw), floats=float_table(raw), side=side, reserved=list(reserved))
    if "text" in st["body"]:
        req["text"] = dict(rows=st["body"]["text"], footer=st["body"]["footer"])
    return req


def exact_fmt_table(fj):
    """When every float operation behind the header numbers is exact (region corners, edge = pmax - pmin,
    cell = edge / n, cell / 2, pmin + cell / 2 all representable), the table rational -> repr(float) of the
    header numbers; else None.  With it the model writes the file down to its bytes."""
    pmin = [F(x) for x in fj["mesh"]["region"]["pmin"]]
    pmax = [F(x) for x in fj["mesh"]["region"]["pmax"]]
    n = fj["mesh"]["n"]
    if len(pmin) != 3 or len(n) != 3 or any(k <= 0 for k in n):
        return None
    vals = []
    for a in range(3):
        edge = pmax[a] - pmin[a]
        cell = edge / n[a]
        base = pmin[a] + cell / 2
        for x in (pmin[a], pmax[a], edge, cell, cell / 2, base):
            try:
                if Fraction(float(x)) != x:
                    return None
            except OverflowError:
                return None
        vals += [pmin[a], pmax[a], cell, base]
    out, seen = [], set()
    for x in vals:
        if x not in seen:
            seen.add(x)
            out.append([repr(float(x)), Q(x)])
    return out


# =========================================================================== text payload at byte level
NAN_Q = Q(Fraction(2) ** 1025)          # the model's stand-in for NaN (binary64)
INF_Q = Fraction(2) ** 1024
NA_STRINGS = {"#N/A", "#N/A N/A", "#NA", "-1.#IND", "-1.#QNAN", "-NaN", "-nan", "1.#IND", "1.#QNAN", "<NA>", "N/A", "NA",
              "NULL", "NaN", "None", "n/a", "nan", "null"}
PLAIN_DEC = re.compile(r"^-?(\d+\.?\d*|\.\d+)$")


def is_short_val(x):
    """True when numpy/Python print the float64 x as its exact decimal expansion in fixed notation (the values the
    model's own fmtDec handles); everything else goes to the model as a table entry"""
    x = float(x)
    if x != x or x in (float("inf"), float("-inf")):
        return False
    if x == 0:
        return math.copysign(1.0, x) > 0
    r = repr(x)
    return "e" not in r and Fraction(r) == Fraction(x)


def np_text(x):
    """the text pandas.to_csv writes for a float64 (numpy astype(str))"""
    return str(np.array([x], dtype=np.float64).astype(str)[0])


def fmt_texts(values):
    """writer side table [[text, rational]] for the values the model does not format itself; None when the values
    cannot be keyed by their rational (a negative zero)"""
    out, seen = [], set()
    for x in values:
        x = float(x)
        if x == 0 and math.copysign(1.0, x) < 0:
            return None
        if is_short_val(x) or x in seen:
            continue
        seen.add(x)
        if x != x or x in (float("inf"), float("-inf")):
            return None
        out.append([np_text(x), Q(x)])
    return out


def csv_safe(data):
    """the bytes of a text data section the model of read_csv covers: no carriage return, tab, quote, vertical tab,
    form feed, backslash (documented limits of csvGo)"""
    return not any(b in data for b in (b"\r", b"\t", b'"', b"\x0b", b"\x0c", b"\\", b"\x00"))


def parse_texts(data):
    """reader side table [[text, rational]] for the tokens of a text data section that are not plain exact decimals:
    Python's float() where pandas' parser accepts the same spelling, NaN for pandas' NA strings"""
    out, seen = [], set()
    try:
        text = data.decode("latin-1")
    except Exception:
        return out
    for tok in re.split(r"[ \n#]+", text):
        if not tok or tok in seen or not tok.isascii():
            continue
        seen.add(tok)
        if tok in NA_STRINGS:
            out.append([tok, NAN_Q])
            continue
        if PLAIN_DEC.match(tok):
            try:
                if Fraction(tok) == Fraction(float(tok)):
                    continue            # the model's own parseDec reads it
            except (ValueError, OverflowError):
                pass
        if "_" in tok or tok.lower().startswith(("0x", "-0x", "+0x")) or tok.strip() != tok:
            continue                    # Python accepts these spellings, pandas does not
        try:
            v = float(tok)
        except ValueError:
            continue
        if v != v:
            out.append([tok, NAN_Q])
        elif v == float("inf"):
            out.append([tok, Q(INF_Q)])
        elif v == float("-inf"):
            out.append([tok, Q(-INF_Q)])
        else:
            out.append([tok, Q(v)])
    return out


def readbytest_req(raw, side=None, reserved=()):
    """request for the model's byte-level reader with the model of read_csv on the text data section; None when
    the file is not a text file inside the documented limits"""
    st, off = structure(raw)
    if off is None or "text" not in st["body"] or not csv_safe(raw[off:]):
        return None
    return dict(op="readbytest", bytes=list(raw), floats=float_table(raw), texts=parse_texts(raw[off:]), side=side,
                reserved=list(reserved))


class FormatError(Exception):
    pass


def decode_ovf2(raw):
    """Strict independent OVF 2.0 decoder: returns dict(header, base, step, nodes, pmin, pmax, vd,
    labels, units, meshunit, values[(nz,ny,nx,vd) float64 array], mode).  Raises FormatError
    when the bytes are not a well-formed single-segment rectangular OVF 2.0 file."""
    lines = split_lines(raw)
    if not lines or lines[0][0].decode("utf-8") != "# OOMMF OVF 2.0":
        raise FormatError("first line is not '# OOMMF OVF 2.0'")
    header, seq, data_off, mode = {}, [], None, None
    for text, _, after in lines[1:]:
        s = text.decode("utf-8")
        if not s.startswith("#"):
            raise FormatError(f"header line without '#': {s!r}")
        m = DATA_RE.match(s)
        if m:
            mode = m.group(1).split()
            data_off = after
            break
        body = s[1:]
        if ":" in body:
            k, v = body.split(":", 1)
            seq.append((k.strip().lower(), v.strip()))
            if k.strip().lower() not in ("begin", "end", "desc"):
                if k.strip().lower() in header:
                    raise FormatError(f"duplicate header key {k.strip()}")
                header[k.strip().lower()] = v.strip()
    if data_off is None:
        raise FormatError("no data line")
    need = [("segment count", "1"), ("begin", "Segment"), ("begin", "Header"), ("end", "Header")]
    pos = 0
    for k, v in seq:
        if pos < len(need) and (k, v) == need[pos]:
            pos += 1
    if pos != len(need):
        raise FormatError("segment/header bracketing lines missing or out of order")
    for k in [a + s for a in "xyz" for s in ("min", "max", "base", "stepsize", "nodes")] + \
            ["meshtype", "meshunit", "valuedim", "valuelabels", "valueunits", "title"]:
        if k not in header:
            raise FormatError(f"header key {k} missing")
    if header["meshtype"] != "rectangular":
        raise FormatError("meshtype")
    nodes = [int(header[a + "nodes"]) for a in "xyz"]
    vd = int(header["valuedim"])
    count = nodes[0] * nodes[1] * nodes[2] * vd
    labels = re.findall(r"\{[^{}]*\}|\S+", header["valuelabels"])
    units = re.findall(r"\{[^{}]*\}|\S+", header["valueunits"])
    if len(labels) != vd:
        raise FormatError(f"{len(labels)} valuelabels for valuedim {vd}")
    if len(units) not in (1, vd):
        raise FormatError(f"{len(units)} valueunits for valuedim {vd}")
    if mode == ["Text"]:
        vals, rest = [], []
        for text, _, _ in split_lines(raw[data_off:]):
            s = text.decode("utf-8")
            if s.startswith("#") or rest:
                rest.append(s)
            elif s.strip():
                vals += [float(t) for t in s.split()]
        if len(vals) != count:
            raise FormatError(f"text data block has {len(vals)} values, header promises {count}")
        values = np.array(vals, dtype=np.float64)
        tail = rest
        endline = "# End: Data Text"
    elif mode in (["Binary", "4"], ["Binary", "8"]):
        w = int(mode[1])
        blk = raw[data_off:]
        if len(blk) < w * (1 + count):
            raise FormatError("binary data block shorter than the header promises")
        chk = struct.unpack("<" + ("f" if w == 4 else "d"), blk[:w])[0]
        if chk != MAGIC[w]:
            raise FormatError(f"check value {chk}")
        values = np.frombuffer(blk[w:w * (1 + count)], dtype="<f4" if w == 4 else "<f8").astype(np.float64)
        after = blk[w * (1 + count):]
        if not after.startswith(b"\n"):
            raise FormatError("no newline after the binary data block")
        tail = [t.decode("utf-8") for t, _, _ in split_lines(after[1:])]
        endline = f"# End: Data Binary {w}"
    else:
        raise FormatError(f"data mode {mode}")
    if tail != [endline, "# End: Segment"]:
        raise FormatError(f"footer {tail}")
    g = lambda s: [float(header[a + s]) for a in "xyz"]
    return dict(header=header, base=g("base"), step=g("stepsize"), nodes=nodes, pmin=g("min"), pmax=g("max"), vd=vd,
                labels=labels, units=units, meshunit=header["meshunit"],
                values=values.reshape(nodes[2], nodes[1], nodes[0], vd), mode=mode)


# =========================================================================== independent OVF writer
def fmt_num(x):
    return repr(float(x))


def write_foreign(c):
    """bytes of an OVF 1.0 / 2.0 file for content c = dict(base, step, nodes, vd, meshunit, values(flat,
    x fastest, components innermost), v2, w (0 text, 4, 8), style, labels?, units?)"""
    v2, w, style = c["v2"], c["w"], c.get("style", "oommf")
    base, step, nodes = c["base"], c["step"], c["nodes"]
    pmin = [b - s / 2 for b, s in zip(base, step)]
    pmax = [p + n * s for p, n, s in zip(pmin, nodes, step)]
    kv = [("Title", c.get("title", "foreign")), ("meshtype", "rectangular"), ("meshunit", c["meshunit"])]
    for s_, vals in (("base", base), ("stepsize", step), ("nodes", nodes), ("min", pmin), ("max", pmax)):
        for a, v in zip("xyz", vals):
            kv.append((a + s_, str(int(v)) if s_ == "nodes" else fmt_num(v)))
    if v2:
        kv.append(("valuedim", str(c["vd"])))
        if c.get("labels") is not None:
            kv.append(("valuelabels", " ".join(c["labels"])))
        if c.get("units") is not None:
            kv.append(("valueunits", " ".join(c["units"])))
    else:
        kv += [("valueunit", "A/m"), ("valuemultiplier", "1"), ("ValueRangeMinMag", "1e-08"), ("ValueRangeMaxMag", "1")]
    for k in c.get("drop", []):
        kv = [p for p in kv if p[0] != k]
    kv += [tuple(p) for p in c.get("extra", [])]
    if c.get("shuffle") is not None:
        random.Random(c["shuffle"]).shuffle(kv)
    first = "# OOMMF OVF 2.0" if v2 else "# OOMMF: rectangular mesh v1.0"
    dataword = c.get("dataword") or ("Text" if w == 0 else f"Binary {w}")
    head = [first, "# Segment count: 1", "# Begin: Segment", "# Begin: Header"]
    head += [f"# {k}: {v}" for k, v in kv]
    if style == "oommf":
        head.insert(4, "# Desc: written by the harness")
    begin = "# Begin: Data " + dataword
    if c.get("lowercase"):
        begin = begin.lower()
    head += ["# End: Header", begin]
    out = ("\n".join(head) + "\n").encode("utf-8")
    vals = np.array(c["values"], dtype=np.float64)
    if w == 0:
        rows = vals.reshape(-1, c["vd"]) if c["vd"] else vals.reshape(0, 0)
        txt = []
        for r in rows:
            body = " ".join(repr(float(x)) for x in r)
            txt.append(body + " " if style == "mumax" else ("  " + body if style == "oommf" else body))
        out += ("\n".join(txt) + "\n").encode("utf-8") if txt else b""
    else:
        e = "<" if v2 else ">"
        if c.get("endian"):
            e = c["endian"]
        t = "f" if w == 4 else "d"
        chk = c.get("check", MAGIC.get(w, 0.0))
        with warnings.catch_warnings():
            warnings.simplefilter("ignore")
            out += struct.pack(e + t, chk) + vals.astype(e + ("f4" if w == 4 else "f8")).tobytes() + b"\n"
    out += f"# End: Data {dataword}\n# End: Segment\n".encode("utf-8")
    return out


# =========================================================================== value / case generators
def gen_values(rng, kind, size):
    if kind == "int":
        return [float(rng.randint(-9, 9)) for _ in range(size)]
    if kind == "dyad":
        return [float(Fraction(rng.randint(-4096, 4096), 2 ** rng.randint(0, 10))) for _ in range(size)]
    if kind == "f32":
        with warnings.catch_warnings():
            warnings.simplefilter("ignore")
            return [float(np.float32(rng.uniform(-1, 1) * 10.0 ** rng.randint(-30, 30))) for _ in range(size)]
    out = []
    specials = [5e-324, -5e-324, 2.2250738585072014e-308, 2.225073858507201e-308, 1.7976931348623157e308,
                -1.7976931348623157e308, 3.4028234663852886e38, 3.4028235677973366e38, -3.5e38, 1e-45, 7e-46,
                1.1754943508222875e-38, 1e-39, 0.1, 1 / 3, 1e-9, 123456789012345.0, 1234567.0, 0.0]
    for _ in range(size):
        r = rng.random()
        if r < 0.15:
            out.append(rng.choice(specials))
        elif r < 0.55:
            v = struct.unpack("<d", struct.pack("<Q", rng.getrandbits(64)))[0]
            out.append(v if np.isfinite(v) else 1.0)
        else:
            out.append(rng.uniform(-1, 1) * 10.0 ** rng.randint(-60, 60))
    return out


WORD_LABELS = [["a", "b", "c", "d", "e"], ["ft_x", "ft_y", "ft_z", "ft_w", "ft_v"], ["mx", "my", "mz", "mw", "mv"],
               ["_x", "y_", "z_1_2", "__", "q_"], ["1", "2", "3", "4", "5"], ["ä", "ö_ü", "Ωm", "µ", "é1"],
               ["Total_energy_density", "Magnetization_x", "a_very_long_component_label_with_many_words_0123456789",
                "B_y", "X"], ["x", "y", "z", "v3", "v4"], ["z", "x", "y", "b", "a"], ["field_x", "field_y", "field", "f", "g"]]
UNITS = [None, None, "T", "A/m", "J/m^3", "µT", "kg*m^2/s^2", "1", "none", "NONE", "a_b", "T-1"]
MESHUNITS = ["m", "m", "nm", "µm", "s", "1"]


def gen_mesh3(rng, regime, nmax=5, max_cells=60):
    n = [rng.randint(1, nmax) for _ in range(3)]
    while n[0] * n[1] * n[2] > max_cells:
        n[rng.randrange(3)] = 1
    if regime == "exact":
        sc = Fraction(2) ** (rng.randint(-30, 20) if rng.random() < 0.3 else 0)   # powers of two keep everything exact
        cell = [sc * Fraction(rng.choice([1, 1, 3, 5, 7]), 2 ** rng.randint(0, 6)) * (k + 1) for k in range(3)]
        pmin = [sc * Fraction(rng.randint(-40, 40), 2 ** rng.randint(0, 4)) for _ in range(3)]
        pmax = [a + k * c for a, k, c in zip(pmin, n, cell)]
        p1, p2 = [float(x) for x in pmin], [float(x) for x in pmax]
    else:
        scale = 10.0 ** rng.randint(-12, 6)
        edges = [scale * rng.uniform(0.3, 3) * rng.choice([1, 1, 7, 0.1]) for _ in range(3)]
        off = rng.choice([0.0, 1.0, 10.0, 1e3])
        p1 = [rng.uniform(-1, 1) * off * e for e in edges]
        p2 = [a + e for a, e in zip(p1, edges)]
        if rng.random() < 0.3:
            # a column / stack: ONE cell along an axis that is 1e4 .. 1e6 times longer than the shortest edge, corners on
            # both sides of the origin (pmin + (pmax - pmin) need not reproduce pmax): the reader rebuilds the mesh
            # from the cell size
            k = rng.randrange(3)
            n[k] = 1
            # short decimal corners -a, m*a (as a user types them): -0.1 + (0.2 - -0.1) is not 0.2 in binary64
            a = float(f"{rng.randint(1, 99)}e{int(math.floor(math.log10(min(edges)))) + rng.randint(4, 6)}")
            p1[k], p2[k] = -a, rng.choice([2, 2, 3, 5]) * a
    if rng.random() < 0.3:  # corners given in any order
        for k in range(3):
            if rng.random() < 0.5:
                p1[k], p2[k] = p2[k], p1[k]
    return dict(p1=p1, p2=p2, n=n, unit=rng.choice(MESHUNITS), dims=(rng.sample(["a", "b", "c", "u", "v", "w"], 3) if rng.random() < 0.25 else None))


def gen_subs(rng, n):
    subs = []
    for name in rng.sample(["r1", "r2", "left", "top_half", "default", "Ü", "s_3"], rng.randint(1, 3)):
        lo = [rng.randint(0, k - 1) for k in n]
        hi = [rng.randint(l + 1, k) for l, k in zip(lo, n)]
        subs.append([name, lo, hi])
    return subs


def gen_rt(rng, **kw):
    regime = kw.get("regime") or rng.choice(["exact", "exact", "tol"])
    nv = kw.get("nvdim") or rng.choice([1, 1, 2, 3, 3, 3, 4, 5])
    extend = kw.get("extend", nv == 1 and rng.random() < 0.4)
    labels = None
    if nv > 1 and rng.random() < 0.8:
        labels = rng.sample(rng.choice(WORD_LABELS), nv)
    elif nv == 1 and rng.random() < 0.3:
        labels = [rng.choice(["a", "ft_x", "s"])]
    mesh = gen_mesh3(rng, regime)
    return dict(kind="rt", mesh=mesh, nvdim=nv, labels=labels, unit=rng.choice(UNITS),
                vals=kw.get("vals") or rng.choice(["int", "dyad", "full", "full", "f32"]),
                rep=kw.get("rep") or rng.choice(["txt", "bin4", "bin8"]), extend=extend,
                subs=(gen_subs(rng, mesh["n"]) if regime == "exact" and rng.random() < 0.5 else []),
                ext=rng.choice([".omf", ".omf", ".ovf", ".ohf"]), sub=rng.getrandbits(32))


def gen_foreign(rng, **kw):
    n = [rng.randint(1, 4) for _ in range(3)]
    v2 = kw.get("v2", rng.random() < 0.5)
    vd = rng.choice([1, 2, 3, 3, 4]) if v2 else 3
    w = kw.get("w", rng.choice([0, 4, 8]))
    step = [float(Fraction(rng.choice([1, 3, 5]), 2 ** rng.randint(0, 4)) * (k + 1)) for k in range(3)]
    pmin = [float(Fraction(rng.randint(-30, 30), 4)) for _ in range(3)]
    base = [p + s / 2 for p, s in zip(pmin, step)]
    style = rng.choice(["oommf", "mumax", "plain"])
    c = dict(kind="foreign", v2=v2, w=w, vd=vd, nodes=n, step=step, base=base, meshunit=rng.choice(MESHUNITS),
             style=style, vals=("f32" if w == 4 else rng.choice(["int", "dyad", "full"])),
             shuffle=(rng.getrandbits(16) if rng.random() < 0.5 else None), lowercase=rng.random() < 0.2,
             ext=rng.choice([".omf", ".ovf", ".ohf", ".oef"]), sub=rng.getrandbits(32))
    if v2:
        r = rng.random()
        if r < 0.5:
            stem = rng.choice(["m", "Magnetization", "H_eff", "field"])
            c["labels"] = [f"{stem}_{x}" for x in ["x", "y", "z", "u", "v"][:vd]]
        elif r < 0.65:
            c["labels"] = ["{Total field_%s}" % x for x in ["x", "y", "z", "u"][:vd]]
        elif r < 0.75:
            c["labels"] = ["m_x"] * vd          # duplicates -> default labels
        c["units"] = rng.choice([None, ["A/m"] * vd, ["T"] * vd, (["A/m", "T", "J", "K"][:vd] if vd > 1 else ["T"]), []])
    return c


SMALL_FILES = [
    dict(src="real", n=[2, 1, 2], nvdim=1, rep="bin8", labels=None, unit=None),
    dict(src="real", n=[1, 2, 1], nvdim=3, rep="bin4", labels=["a", "b_c", "d"], unit="T"),
    dict(src="foreign", v2=False, w=4, nodes=[2, 1, 1], vd=3),
    dict(src="foreign", v2=False, w=8, nodes=[1, 1, 2], vd=3),
    dict(src="foreign", v2=True, w=8, nodes=[1, 2, 1], vd=2),
    dict(src="real", n=[1, 1, 2], nvdim=2, rep="bin8", labels=["ä", "b_Ω"], unit="µT", meshunit="µm"),
]
SMALL_TEXT_FILES = [
    dict(src="real", n=[2, 1, 2], nvdim=2, rep="txt", labels=["a", "b_c"], unit="T"),
    dict(src="real", n=[1, 2, 1], nvdim=1, rep="txt", labels=None, unit=None, extend=True),
    dict(src="foreign", v2=True, w=0, nodes=[1, 2, 1], vd=2, style="mumax"),
    dict(src="foreign", v2=False, w=0, nodes=[2, 1, 1], vd=3, style="oommf"),
]


def cases(rng, tier):
    quick = tier == "quick"
    # ---- malformed / dispatch stream
    for rep in ["bin16", "text", "", "BIN8"]:
        yield dict(kind="bad", what="rep", rep=rep, sub=rng.getrandbits(32))
    for ext in [".txt", ".OMF", "", ".oef", ".json"]:
        yield dict(kind="bad", what="ext", ext=ext, sub=rng.getrandbits(32))
    for nd in [1, 2, 4]:
        yield dict(kind="bad", what="ndim", ndim=nd, sub=rng.getrandbits(32))
    yield dict(kind="bad", what="units", sub=rng.getrandbits(32))
    for what in ["drop:xmin", "drop:zmax", "drop:ystepsize", "drop:meshunit", "drop:xnodes", "drop:valuedim", "nodes+1",
                 "nodes-1", "valuedim0", "width5", "width16", "nodataline", "datawords0", "binaryword", "step*3/2",
                 "stepneg", "stepbig", "p1=p2", "label:norm", "label:mesh", "labelcount", "textshort", "badnum"]:
        for w in ([8, 0] if what in ("nodes+1", "nodes-1", "drop:xmin") else [8]):
            yield dict(kind="badfile", what=what, w=w, v2=True, sub=rng.getrandbits(32))
    # ---- exhaustive fault streams on small binary files
    for fi, spec in enumerate(SMALL_FILES):
        raw, _ = small_file(spec)
        step = 1 if (not quick or fi < 3 or spec.get("meshunit")) else 7
        for t in range(0, len(raw) + 1, step):
            yield dict(kind="trunc", file=spec, t=t)
    # every cut of small TEXT files (outside the property's fault model: model against code, nothing demanded)
    for fi, spec in enumerate(SMALL_TEXT_FILES):
        raw, info = small_file(spec)
        for t in range(0, len(raw) + 1):
            if t < info["data_off"] and (quick or fi > 0) and t % 9:
                continue
            yield dict(kind="ttrunc", file=spec, t=t)
    for spec in SMALL_FILES[:2] + SMALL_FILES[2:4]:
        w = 4 if (spec.get("rep") == "bin4" or spec.get("w") == 4) else 8
        for pos in range(w):
            for val in (range(256) if (not quick or spec in SMALL_FILES[:2]) else range(0, 256, 5)):
                yield dict(kind="check", file=spec, pos=pos, val=val)
    for _ in range(40 if quick else 400):
        yield dict(kind="check", file=rng.choice(SMALL_FILES), pos=-1, val=rng.getrandbits(64))
    for _ in range(10 if quick else 400):   # random cuts of larger files
        c = gen_rt(rng, rep=rng.choice(["bin4", "bin8"]), regime="exact")
        c["subs"] = []
        c["kind"] = "trunc_rt"
        c["frac"] = rng.random()
        yield c
    # ---- D19 observation, D24 regression stream (extend_scalar on vector fields), separator stream
    for spec in SMALL_FILES[:2]:
        for k in range(1, 4):
            yield dict(kind="obs_d19", file=spec, short=k)
    for rep in ["bin8", "bin4", "txt"]:
        for nv in [2, 3]:
            yield gen_rt(rng, nvdim=nv, extend=True, rep=rep, regime="exact", vals="int")
    for labels in [["a-b", "c", "d"], ["a.b", "c", "d"], ["{a}", "b", "c"], ["a", "b", "c,d"], ["a+", "b", "c"]]:
        yield dict(kind="sep", labels=labels, unit="T", nvdim=3, rep="bin8", sub=rng.getrandbits(32))
    for unit in ["A / m", "None", "", "m:s", "kg m", "a\tb", "T:"]:
        for nv, rep in ((3, "bin8"), (1, "txt"), (2, "bin4")):
            yield dict(kind="sep", labels=None, unit=unit, nvdim=nv, rep=rep, sub=rng.getrandbits(32))
    # ---- labels / units through small files
    for labs in WORD_LABELS:
        for nv in (2, 3, 4, 5):
            yield dict(gen_rt(rng, nvdim=nv, regime="exact", vals="int", rep="bin8"), labels=labs[:nv])
    for u in UNITS:
        yield dict(gen_rt(rng, regime="exact", vals="int"), unit=u)
    # ---- shipped samples
    for name in sorted(os.listdir(SAMPLE_DIR)) if os.path.isdir(SAMPLE_DIR) else []:
        if os.path.splitext(name)[1] in (".omf", ".ovf", ".ohf", ".oef"):
            size = os.path.getsize(os.path.join(SAMPLE_DIR, name))
            if size <= (60000 if quick else 450000):
                yield dict(kind="sample", name=name)
    # ---- chunk boundaries of the binary writer (implementation only)
    for shape, nv in ([((100001, 1, 1), 1), ((25000, 2, 2), 1), ((4, 5000, 5), 3)] if quick else
                      [((100001, 1, 1), 1), ((25000, 2, 2), 1), ((4, 5000, 5), 3), ((99999, 1, 1), 1), ((7, 11, 1300), 2),
                       ((100000, 1, 2), 1), ((3, 33334, 1), 3)]):
        yield dict(kind="big", n=list(shape), nvdim=nv, rep=rng.choice(["bin4", "bin8"]), sub=rng.getrandbits(32))
    # ---- main random streams
    for _ in range(1200 if quick else 12000):
        yield gen_rt(rng)
    for _ in range(700 if quick else 8000):
        yield gen_foreign(rng)


# =========================================================================== building things
def build_field(case):
    rng = random.Random(case["sub"])
    m = case["mesh"]
    kw = dict(units=[m["unit"]] * 3)
    if m.get("dims"):
        kw["dims"] = m["dims"]
    region = df.Region(p1=m["p1"], p2=m["p2"], **kw)
    mesh = df.Mesh(region=region, n=m["n"])
    if case.get("subs"):
        cell = mesh.cell
        subs = {}
        for name, lo, hi in case["subs"]:
            subs[name] = df.Region(p1=[float(region.pmin[a] + lo[a] * cell[a]) for a in range(3)],
                                   p2=[float(region.pmin[a] + hi[a] * cell[a]) for a in range(3)])
        mesh.subregions = subs
    nv = case["nvdim"]
    vals = np.array(gen_values(rng, case["vals"], int(np.prod(m["n"])) * nv), dtype=np.float64).reshape(*m["n"], nv)
    return df.Field(mesh, nvdim=nv, value=vals, vdims=case["labels"], unit=case["unit"])


_SMALL_CACHE = {}


def small_file(spec):
    key = json.dumps(spec, sort_keys=True)
    if key not in _SMALL_CACHE:
        if spec["src"] == "real":
            n = spec["n"]
            if spec.get("meshunit"):
                mesh = df.Mesh(region=df.Region(p1=(0, 0, 0), p2=(float(n[0]), float(2 * n[1]), float(0.5 * n[2])),
                                                units=[spec["meshunit"]] * 3), n=n)
            else:
                mesh = df.Mesh(p1=(0, 0, 0), p2=(float(n[0]), float(2 * n[1]), float(0.5 * n[2])), n=n)
            size = n[0] * n[1] * n[2] * spec["nvdim"]
            vals = (np.arange(size, dtype=np.float64) * 0.75 - 2).reshape(*n, spec["nvdim"])
            f = df.Field(mesh, nvdim=spec["nvdim"], value=vals, vdims=spec["labels"], unit=spec["unit"])
            with tempfile.TemporaryDirectory(dir=TMPROOT) as d:
                p = os.path.join(d, "small.omf")
                f.to_file(p, representation=spec["rep"], extend_scalar=bool(spec.get("extend")))
                raw = open(p, "rb").read()
            w = 4 if spec["rep"] == "bin4" else 8
        else:
            nodes, vd = spec["nodes"], spec["vd"]
            size = nodes[0] * nodes[1] * nodes[2] * vd
            c = dict(v2=spec["v2"], w=spec["w"], vd=vd, nodes=nodes, step=[1.0, 0.5, 2.0], base=[0.5, 0.25, 1.0],
                     meshunit="m", values=[float(k) * 0.5 - 1 for k in range(size)], style=spec.get("style", "plain"))
            raw = write_foreign(c)
            w = spec["w"] or 8
        st, off = structure(raw)
        _SMALL_CACHE[key] = (raw, dict(data_off=off, w=w))
    return _SMALL_CACHE[key]


def payload_end(raw, info):
    """offset of the first byte after the binary payload"""
    st, off = structure(raw)
    h = {l[1]: l[2] for l in st["lines"] if l[0] == "kv"}
    nodes = h["xnodes"][1] * h["ynodes"][1] * h["znodes"][1]
    vd = h["valuedim"][1] if "valuedim" in h else 3
    return off + info["w"] * (1 + nodes * vd)


def values_json(arr, w):
    """flat values as rationals; infinities as the model's ±2^(emax+1)"""
    out = []
    big = Fraction(2) ** (128 if w == 4 else 1024)
    for x in np.asarray(arr, dtype=np.float64).reshape(-1).tolist():
        if x == float("inf"):
            out.append(Q(big))
        elif x == float("-inf"):
            out.append(Q(-big))
        elif x != x:
            out.append(Q(2 * big))
        else:
            out.append(Q(x))
    return out


def field_obs(g, w):
    return dict(pmin=Qs(g.mesh.region.pmin), pmax=Qs(g.mesh.region.pmax), n=[int(k) for k in g.mesh.n],
                units=list(g.mesh.region.units), dims=list(g.mesh.region.dims), nvdim=int(g.nvdim),
                vdims=(list(g.vdims) if g.vdims is not None else None), unit=g.unit,
                data=values_json(g.array, w),
                subs=[[k, Qs(r.pmin), Qs(r.pmax)] for k, r in g.mesh.subregions.items()])


def ofield_json(f):
    r = f.mesh.region
    mesh = dict(region=dict(pmin=Qs(r.pmin), pmax=Qs(r.pmax), dims=list(r.dims), units=list(r.units), tol=Q(r.tolerance_factor)),
                n=[int(k) for k in f.mesh.n], bc=f.mesh.bc,
                subs=[dict(name=k, pmin=Qs(s.pmin), pmax=Qs(s.pmax), dims=list(s.dims), units=list(s.units),
                           tol=Q(s.tolerance_factor)) for k, s in f.mesh.subregions.items()])
    return dict(mesh=mesh, nvdim=int(f.nvdim), data=Qs(np.asarray(f.array, dtype=np.float64).reshape(-1).tolist()),
                vdims=(list(f.vdims) if f.vdims is not None else None), unit=f.unit)


def read_file(path):
    """('ok', field) or ('err', exception class name)"""
    try:
        with warnings.catch_warnings():
            warnings.simplefilter("ignore")
            return "ok", df.Field.from_file(path)
    except Exception as e:  # the property says 'rejected', not how
        return "err", type(e).__name__


def bits64(a):
    return np.ascontiguousarray(np.asarray(a, dtype=np.float64)).view(np.uint64)


def same_values(got, want, rep):
    """the property's value clause; returns None or a message"""
    got = np.asarray(got, dtype=np.float64)
    want = np.asarray(want, dtype=np.float64)
    if got.shape != want.shape:
        return f"shape {got.shape} instead of {want.shape}"
    if rep == "bin8":
        bad = np.argwhere(bits64(got) != bits64(want))
        if len(bad):
            i = tuple(bad[0])
            return f"bin8 value at {i} is {got[i]!r}, written {want[i]!r} (not bit-identical)"
    elif rep == "bin4":
        with warnings.catch_warnings():
            warnings.simplefilter("ignore")
            exp = want.astype(np.float32).astype(np.float64)
        bad = np.argwhere(bits64(got) != bits64(exp))
        if len(bad):
            i = tuple(bad[0])
            return f"bin4 value at {i} is {got[i]!r}, float32 rounding of {want[i]!r} is {exp[i]!r}"
    else:
        bad = np.argwhere(~(np.abs(got - want) <= 1e-9 * np.abs(want)))
        if len(bad):
            i = tuple(bad[0])
            return f"text value at {i} is {got[i]!r}, written {want[i]!r} (more than 1e-9 relative)"
    return None


# =========================================================================== running the real code
def run_rt(case, obs, fail):
    f = build_field(case)
    rep, extend, nv = case["rep"], case["extend"], case["nvdim"]
    w = {"bin4": 4, "bin8": 8}.get(rep, 8)
    obs["field"] = ofield_json(f)
    # -0.0 has no rational: the byte-for-byte comparison of the header is skipped for it
    obs["negzero"] = bool(any(x == 0 and np.signbit(x) for x in list(f.mesh.region.pmin) + list(f.mesh.region.pmax)))
    want = np.array(f.array, copy=True)
    with tempfile.TemporaryDirectory(dir=TMPROOT) as d:
        path = os.path.join(d, "field" + case["ext"])
        try:
            with warnings.catch_warnings():
                warnings.simplefilter("ignore")
                f.to_file(path, representation=rep, extend_scalar=extend)
            obs["write"] = "ok"
        except Exception as e:
            obs["write"] = "err"
            obs["write_exc"] = type(e).__name__
        side = path + ".subregions.json"
        obs["side"] = json.load(open(side, encoding="utf-8")) if os.path.exists(side) else None
        if obs["write"] == "ok":
            raw = open(path, "rb").read()
            obs["rawb"] = raw
            obs["file"], _ = structure(raw)
            st, g = read_file(path)
            obs["read"] = st
            if case["kind"] == "trunc_rt":
                end = payload_end(raw, dict(w=w))
                _, off = structure(raw)
                t = off + int(case["frac"] * (end - off))
                t = min(t, end - 1)
                with open(path, "wb") as fh:
                    fh.write(raw[:t])
                obs["tfile"], _ = structure(raw[:t])
                obs["trawb"] = raw[:t]
                st2, g2 = read_file(path)
                obs["tread"] = st2
                if st2 == "ok":
                    fail(f"binary file cut at byte {t} of {len(raw)} (data block ends at {end}) was read into a field")
    if obs["write"] != "ok":
        fail(f"to_file raised {obs.get('write_exc')} for a valid 3-d field ({rep}, extend_scalar={extend})")
        return
    if obs["read"] != "ok":
        fail(f"from_file raised {g} on the file just written ({rep})")
        return
    obs["back"] = field_obs(g, w)
    # ---- the round-trip clause
    wd = 3 if (extend and nv == 1) else nv
    if not np.array_equal(g.mesh.region.pmin, f.mesh.region.pmin) or not np.array_equal(g.mesh.region.pmax, f.mesh.region.pmax):
        fail(f"region corners {g.mesh.region.pmin.tolist()}..{g.mesh.region.pmax.tolist()} instead of "
             f"{f.mesh.region.pmin.tolist()}..{f.mesh.region.pmax.tolist()}")
    if list(g.mesh.region.units) != list(f.mesh.region.units):
        fail(f"mesh unit {g.mesh.region.units} instead of {f.mesh.region.units}")
    if list(g.mesh.n) != list(f.mesh.n):
        fail(f"cell counts {list(g.mesh.n)} instead of {list(f.mesh.n)}")
    if g.nvdim != wd:
        fail(f"component count {g.nvdim} instead of {wd}")
    if g.unit != f.unit:
        fail(f"field unit {g.unit!r} instead of {f.unit!r}")
    if nv > 1 and list(g.vdims) != list(f.vdims):
        fail(f"component labels {g.vdims} instead of {f.vdims}")
    if g.nvdim == wd and list(g.mesh.n) == list(f.mesh.n):
        if extend and nv == 1:
            msg = same_values(g.array[..., 0:1], want, rep)
            if msg is None and np.any(bits64(g.array[..., 1:]) != 0):
                msg = "extend_scalar: second/third components are not +0.0"
        else:
            msg = same_values(g.array, want, rep)
        if msg:
            fail(msg)
    a = [(k, r.pmin.tolist(), r.pmax.tolist(), list(r.units)) for k, r in f.mesh.subregions.items()]
    b = [(k, r.pmin.tolist(), r.pmax.tolist(), list(r.units)) for k, r in g.mesh.subregions.items()]
    if a != b:
        fail(f"subregions {b} instead of {a}")
    if not np.array_equal(f.array, want):
        fail("to_file modified the field")
    # ---- the written bytes are an OVF 2.0 file an independent reader decodes to the same content
    try:
        dec = decode_ovf2(raw)
    except FormatError as e:
        fail(f"written file is not a well-formed OVF 2.0 file: {e}")
        return
    except Exception as e:
        fail(f"independent reader cannot decode the written file: {type(e).__name__}: {e}")
        return
    cell = f.mesh.cell
    scale = [max(abs(float(x)), abs(float(y))) for x, y in zip(f.mesh.region.pmin, f.mesh.region.pmax)]
    if dec["nodes"] != list(f.mesh.n) or dec["vd"] != wd:
        fail(f"independent reader: nodes {dec['nodes']} valuedim {dec['vd']}, field has n={list(f.mesh.n)}, {wd} components")
        return
    for a_ in range(3):
        tol = 2.0 ** -47 * scale[a_]
        lo = dec["base"][a_] - dec["step"][a_] / 2
        hi = lo + dec["nodes"][a_] * dec["step"][a_]
        if abs(lo - float(f.mesh.region.pmin[a_])) > tol or abs(hi - float(f.mesh.region.pmax[a_])) > tol:
            fail(f"independent reader: axis {a_} mesh from base/stepsize/nodes is [{lo}, {hi}], region is "
                 f"[{f.mesh.region.pmin[a_]}, {f.mesh.region.pmax[a_]}]")
        if dec["pmin"][a_] != float(f.mesh.region.pmin[a_]) or dec["pmax"][a_] != float(f.mesh.region.pmax[a_]):
            fail(f"independent reader: axis {a_} min/max {dec['pmin'][a_]}, {dec['pmax'][a_]} differ from the region corners")
        if abs(dec["step"][a_] - float(cell[a_])) > 2.0 ** -50 * float(cell[a_]):
            fail(f"independent reader: axis {a_} stepsize {dec['step'][a_]} is not the cell size {cell[a_]}")
    if dec["meshunit"] != f.mesh.region.units[0]:
        fail(f"independent reader: meshunit {dec['meshunit']!r}")
    xf = np.transpose(dec["values"], (2, 1, 0, 3))  # (nz,ny,nx,c) -> (nx,ny,nz,c): x fastest in the file
    if extend and nv == 1:
        msg = same_values(xf[..., 0:1], want, rep) or (None if not np.any(xf[..., 1:] != 0) else "extend_scalar zeros")
    else:
        msg = same_values(xf, want, rep)
    if msg:
        fail("independent reader (x-fastest order): " + msg)
    obs["content"] = dict(base=Qs(dec["base"]), step=Qs(dec["step"]), nodes=dec["nodes"], vd=dec["vd"],
                          meshunit=dec["meshunit"], values=values_json(dec["values"], w))
    obs["nontrivial"] = sum(1 for k in f.mesh.n if k >= 2) >= 2 and len(set(want.reshape(-1).tolist())) > 1


def foreign_content(case):
    rng = random.Random(case["sub"])
    size = case["nodes"][0] * case["nodes"][1] * case["nodes"][2] * case["vd"]
    c = dict(case)
    c["values"] = gen_values(rng, case["vals"], size)
    return c


def run_foreign(case, obs, fail):
    c = foreign_content(case)
    raw = write_foreign(c)
    w = case["w"] or 8
    obs["file"], _ = structure(raw)
    obs["rawb"] = raw
    with tempfile.TemporaryDirectory(dir=TMPROOT) as d:
        path = os.path.join(d, "foreign" + case["ext"])
        open(path, "wb").write(raw)
        st, g = read_file(path)
    obs["read"] = st
    labels = case.get("labels")
    reserved = []
    if labels:
        reserved = [a for a in field_attrs() if any(a in l for l in labels)]
    obs["reserved"] = reserved
    if st != "ok":
        fail(f"from_file raised {g} on a well-formed OVF {'2.0' if case['v2'] else '1.0'} file "
             f"({'text' if case['w'] == 0 else 'binary ' + str(case['w'])}, {case['style']} style)")
        return
    obs["back"] = field_obs(g, w)
    pmin = [b - s / 2 for b, s in zip(case["base"], case["step"])]
    pmax = [p + n * s for p, n, s in zip(pmin, case["nodes"], case["step"])]
    if list(g.mesh.n) != case["nodes"] or g.nvdim != case["vd"]:
        fail(f"foreign file: n={list(g.mesh.n)}, nvdim={g.nvdim}; the writer wrote nodes {case['nodes']}, {case['vd']} values per node")
        return
    if g.mesh.region.pmin.tolist() != pmin or g.mesh.region.pmax.tolist() != pmax:
        fail(f"foreign file: corners {g.mesh.region.pmin.tolist()}..{g.mesh.region.pmax.tolist()} instead of {pmin}..{pmax}")
    if list(g.mesh.region.units) != [case["meshunit"]] * 3:
        fail(f"foreign file: mesh unit {g.mesh.region.units}")
    vals = np.array(c["values"], dtype=np.float64).reshape(case["nodes"][2], case["nodes"][1], case["nodes"][0], case["vd"])
    want = np.transpose(vals, (2, 1, 0, 3))
    msg = same_values(g.array, want, {0: "txt", 4: "bin4", 8: "bin8"}[case["w"]])
    if msg:
        fail("foreign file: " + msg)
    obs["content"] = dict(base=Qs(case["base"]), step=Qs(case["step"]), nodes=case["nodes"], vd=case["vd"],
                          meshunit=case["meshunit"], values=values_json(c["values"], w))
    obs["nontrivial"] = True


def run_impl(case):
    kind = case["kind"]
    obs = {"oracle": [], "tags": ["kind:" + kind]}
    fail = obs["oracle"].append
    if kind in ("rt", "trunc_rt"):
        run_rt(case, obs, fail)
        obs["tags"] += [f"rep:{case['rep']}", f"nvdim:{min(case['nvdim'], 4)}", f"extend:{case['extend']}",
                        f"vals:{case['vals']}", f"subs:{len(case['subs'])}", f"unit:{'none' if case['unit'] is None else 'set'}",
                        "labels:" + ("default" if not case["labels"] else "underscore" if any("_" in l for l in case["labels"]) else "plain"),
                        "geom:" + ("dyadic" if all(Fraction(x).denominator <= 2 ** 40 and Fraction(x).denominator & (Fraction(x).denominator - 1) == 0 and abs(Fraction(x).numerator) < 2 ** 20 for x in case["mesh"]["p1"]) else "float")]
        if kind == "trunc_rt":
            obs["nontrivial"] = True
        if obs.get("write") == "ok":
            obs["tags"].append("header-bytes:" + ("compared-exactly" if not obs.get("negzero") and exact_fmt_table(obs["field"]) is not None
                                                  else "structure-only"))
    elif kind == "foreign":
        run_foreign(case, obs, fail)
        obs["tags"] += [f"ovf:{'2.0' if case['v2'] else '1.0'}", f"mode:{case['w']}", f"style:{case['style']}"]
    elif kind == "sample":
        raw = open(os.path.join(SAMPLE_DIR, case["name"]), "rb").read()
        obs["file"], _ = structure(raw)
        obs["rawb"] = raw
        st, g = read_file(os.path.join(SAMPLE_DIR, case["name"]))
        obs["read"] = st
        words = next((l[1] for l in obs["file"]["lines"] if l[0] == "data"), ["?"])
        w = 4 if words[-1] == "4" else 8
        if st != "ok":
            fail(f"shipped sample {case['name']} is rejected: {g}")
        else:
            obs["back"] = field_obs(g, w)
            # foreign writer's content, decoded independently (binary only: needs no float parsing)
            h = {l[1].lower(): l[2] for l in obs["file"]["lines"] if l[0] == "kv"}
            nodes = [h[a + "nodes"][1] for a in "xyz"]
            if list(g.mesh.n) != nodes:
                fail(f"sample {case['name']}: n={list(g.mesh.n)}, header nodes {nodes}")
            if "bin" in obs["file"]["body"]:
                v2 = "2.0" in obs["file"]["first"]
                vd = h["valuedim"][1] if v2 else 3
                blk = bytes(obs["file"]["body"]["bin"])
                dt = ("<" if v2 else ">") + ("f4" if w == 4 else "f8")
                vals = np.frombuffer(blk[w:w * (1 + nodes[0] * nodes[1] * nodes[2] * vd)], dtype=dt).astype(np.float64)
                want = np.transpose(vals.reshape(nodes[2], nodes[1], nodes[0], vd), (2, 1, 0, 3))
                msg = same_values(g.array, want, "bin8")
                if msg:
                    fail(f"sample {case['name']}: {msg}")
        obs["nontrivial"] = True
    elif kind in ("trunc", "check", "obs_d19"):
        raw, info = small_file(case["file"])
        end = payload_end(raw, info)
        off, w = info["data_off"], info["w"]
        if kind == "trunc":
            mod = raw[:case["t"]]
        elif kind == "check":
            if case["pos"] >= 0:
                if raw[off + case["pos"]] == case["val"]:
                    mod = None
                else:
                    mod = raw[:off + case["pos"]] + bytes([case["val"]]) + raw[off + case["pos"] + 1:]
            else:
                new = struct.pack("<Q", case["val"])[:w]
                mod = None if new == raw[off:off + w] else raw[:off] + new + raw[off + w:]
        else:
            mod = raw[:end - w * case["short"]] + raw[end:]
        if mod is None:
            obs["skip"] = True
            obs["tags"].append("same-as-original")
            return obs
        obs["file"], _ = structure(mod)
        obs["rawb"] = mod
        with tempfile.TemporaryDirectory(dir=TMPROOT) as d:
            path = os.path.join(d, "damaged.omf")
            open(path, "wb").write(mod)
            st, g = read_file(path)
            st0, g0 = read_file_bytes(d, raw)
        obs["read"] = st
        if st == "ok":
            obs["back"] = field_obs(g, w)
        if kind == "trunc":
            t = case["t"]
            where = "header" if t <= off else "check" if t < off + w else "payload" if t < end else "footer"
            obs["tags"].append("cut:" + where)
            if t < end and st == "ok":
                fail(f"file cut at byte {t} of {len(raw)} (data block ends at {end}) was read into a field")
            if t >= end and st == "ok" and not (st0 == "ok" and np.array_equal(bits64(g.array), bits64(g0.array)) and g.mesh == g0.mesh):
                fail(f"file cut at byte {t} (inside the footer) reads to a different field")
        elif kind == "check":
            obs["tags"].append("check:" + ("byte" if case["pos"] >= 0 else "random"))
            if st == "ok":
                fail(f"binary file with check value bytes {list(mod[off:off + w])} (correct: {list(raw[off:off + w])}) was read into a field")
        else:
            obs["tags"].append(f"obs:D19:{'accepted' if st == 'ok' else 'rejected'}")
        obs["nontrivial"] = True
    elif kind == "ttrunc":
        raw, info = small_file(case["file"])
        off, t = info["data_off"], case["t"]
        mod = raw[:t]
        obs["rawb"] = mod
        obs["file"], _ = structure(mod)
        with tempfile.TemporaryDirectory(dir=TMPROOT) as d:
            path = os.path.join(d, "cut.omf")
            open(path, "wb").write(mod)
            st, g = read_file(path)
        obs["read"] = st
        if st == "ok":
            obs["back"] = field_obs(g, 8)
        # where the rows end: the first footer line
        end_rows = raw.index(b"# End: Data")
        last_row = raw.rindex(b"\n", 0, end_rows - 1) + 1 if raw.count(b"\n", off, end_rows) > 1 else off
        where = "header" if t <= off else "rows" if t <= last_row else "lastrow" if t < end_rows else "footer"
        obs["tags"] += ["cut:text-" + where, f"obs:text-cut-{where}:{'accepted' if st == 'ok' else 'rejected'}"]
        obs["nontrivial"] = True
    elif kind == "sep":
        mesh = df.Mesh(p1=(0, 0, 0), p2=(3, 2, 1), n=(3, 2, 1))
        nv = case["nvdim"]
        f = df.Field(mesh, nvdim=nv, value=tuple(range(1, nv + 1)) if nv > 1 else 1.0, vdims=case["labels"], unit=case["unit"])
        with tempfile.TemporaryDirectory(dir=TMPROOT) as d:
            path = os.path.join(d, "sep.omf")
            f.to_file(path, representation=case["rep"])
            st, g = read_file(path)
            raw = open(path, "rb").read()
        # the byte-level model reads the same bytes: what the header loop keeps of a value with ':' or blanks
        obs["rawb"] = raw
        obs["file"], _ = structure(raw)
        obs["read"] = st
        if st == "ok":
            obs["back"] = field_obs(g, {"bin4": 4, "bin8": 8}.get(case["rep"], 8))
        if case["labels"]:
            # labels are attribute names (field.<label>): punctuation other than '_' is outside the
            # property's reading; what happens is recorded, not flagged
            res = "read-raised" if st != "ok" else ("kept" if list(g.vdims) == case["labels"] else "changed")
            obs["tags"].append(f"obs:punctuation-in-label:{res}")
        else:
            # "any unit or none": the unit must come back
            if st != "ok":
                fail(f"field unit {case['unit']!r}: from_file raised {g} on the file just written")
            elif g.unit != case["unit"]:
                fail(f"field unit {g.unit!r} instead of {case['unit']!r} ({case['rep']}, {nv} components)")
            obs["tags"].append("unit-outside-header-grammar")
            obs["nontrivial"] = True
    elif kind == "big":
        rng = random.Random(case["sub"])
        n, nv = case["n"], case["nvdim"]
        mesh = df.Mesh(p1=(0, 0, 0), p2=tuple(float(k) for k in n), n=n)
        a = np.random.default_rng(case["sub"]).standard_normal((*n, nv)) * 10.0 ** rng.randint(-3, 3)
        f = df.Field(mesh, nvdim=nv, value=a)
        with tempfile.TemporaryDirectory(dir=TMPROOT) as d:
            path = os.path.join(d, "big.omf")
            f.to_file(path, representation=case["rep"])
            raw = open(path, "rb").read()
            st, g = read_file(path)
        if st != "ok":
            fail(f"from_file raised {g} on a {n} x {nv} field ({case['rep']})")
        else:
            msg = same_values(g.array, a, case["rep"])
            if msg:
                fail(f"field with {a.size} values (chunked writer): {msg}")
            try:
                dec = decode_ovf2(raw)
                msg = same_values(np.transpose(dec["values"], (2, 1, 0, 3)), a, case["rep"])
                if msg:
                    fail(f"independent reader, field with {a.size} values: {msg}")
            except FormatError as e:
                fail(f"written file with {a.size} values is not well-formed OVF 2.0: {e}")
        obs["tags"].append(f"chunks:{-(-a.size // 100000)}")
        obs["nontrivial"] = True
    elif kind == "bad":
        run_bad(case, obs, fail)
    elif kind == "badfile":
        run_badfile(case, obs, fail)
    return obs


def read_file_bytes(d, raw):
    p = os.path.join(d, "orig.omf")
    open(p, "wb").write(raw)
    return read_file(p)


def run_bad(case, obs, fail):
    what = case["what"]
    mesh = df.Mesh(p1=(0, 0, 0), p2=(2, 2, 2), n=(2, 1, 2))
    f = df.Field(mesh, nvdim=3, value=(1, 2, 3))
    obs["field"] = ofield_json(f)
    with tempfile.TemporaryDirectory(dir=TMPROOT) as d:
        if what == "rep":
            path = os.path.join(d, "x.omf")
            try:
                f.to_file(path, representation=case["rep"])
                obs["res"] = "ok"
                fail(f"representation {case['rep']!r} accepted")
            except Exception:
                obs["res"] = "err"
        elif what == "ext":
            path = os.path.join(d, "x" + case["ext"])
            wr, rd = "ok", "ok"
            try:
                f.to_file(path)
            except Exception:
                wr = "err"
            if wr == "err":  # put a valid OVF file there to test the reader's dispatch alone
                f.to_file(os.path.join(d, "y.omf"))
                os.replace(os.path.join(d, "y.omf"), path)
            try:
                g = df.Field.from_file(path)
            except Exception:
                rd = "err"
            obs["res"] = [wr, rd]
            exp_w = "ok" if case["ext"] in (".omf", ".ovf", ".ohf") else "err"
            exp_r = "ok" if case["ext"] in (".omf", ".ovf", ".ohf", ".oef") else "err"
            if [wr, rd] != [exp_w, exp_r]:
                fail(f"extension {case['ext']!r}: write {wr}, read {rd}; expected {exp_w}, {exp_r}")
        elif what == "ndim":
            nd = case["ndim"]
            m2 = df.Mesh(p1=(0,) * nd, p2=(2,) * nd, n=(2,) * nd)
            f2 = df.Field(m2, nvdim=1, value=1.0)
            obs["field"] = ofield_json(f2)
            try:
                f2.to_file(os.path.join(d, "x.omf"))
                obs["res"] = "ok"
                fail(f"{nd}-d field written to an OVF file")
            except Exception:
                obs["res"] = "err"
        elif what == "units":
            m2 = df.Mesh(region=df.Region(p1=(0, 0, 0), p2=(2, 2, 2), units=["m", "m", "s"]), n=(2, 1, 2))
            f2 = df.Field(m2, nvdim=1, value=1.0)
            obs["field"] = ofield_json(f2)
            try:
                f2.to_file(os.path.join(d, "x.omf"))
                obs["res"] = "ok"
                fail("field with different units per axis written to an OVF file")
            except Exception:
                obs["res"] = "err"
    obs["tags"].append("bad:" + what)


def badfile_bytes(case):
    what, w = case["what"], case["w"]
    nodes, vd = [2, 1, 2], 3
    c = dict(v2=True, w=w, vd=vd, nodes=list(nodes), step=[1.0, 0.5, 2.0], base=[0.5, 0.25, 1.0], meshunit="m",
             values=[float(k) for k in range(12)], style="plain", labels=["m_x", "m_y", "m_z"], units=["T"] * 3)
    if what.startswith("drop:"):
        c["drop"] = [what[5:]]
    elif what == "nodes+1":
        c["extra"] = [("xnodes", "3")]
    elif what == "nodes-1":
        c["extra"] = [("znodes", "1")]
    elif what == "valuedim0":
        c["extra"] = [("valuedim", "0")]
    elif what == "width5":
        c["dataword"] = "Binary 5"
    elif what == "width16":
        c["dataword"] = "Binary 16"
    elif what == "binaryword":
        c["dataword"] = "Binary"
    elif what == "step*3/2":
        c["extra"] = [("xstepsize", "1.5")]
    elif what == "stepneg":
        c["extra"] = [("ystepsize", "-0.5")]
    elif what == "stepbig":
        c["extra"] = [("zstepsize", "8.0")]
    elif what == "p1=p2":
        c["extra"] = [("xmax", "0.0")]
    elif what.startswith("label:"):
        c["labels"] = ["m_x", "m_" + what[6:], "m_z"]
    elif what == "labelcount":
        c["labels"] = ["m_x", "m_y"]
    elif what == "badnum":
        c["extra"] = [("ymin", "zero")]
    raw = write_foreign(c)
    if what == "nodataline":
        raw = raw[:raw.index(b"# Begin: Data")]
    elif what == "datawords0":
        raw = raw.replace(b"# Begin: Data Binary 8", b"# Begin: Data")
    elif what == "textshort":
        c["w"] = 0
        raw = write_foreign(c)
        lines = raw.split(b"\n")
        k = next(i for i, l in enumerate(lines) if l.startswith(b"# Begin: Data"))
        raw = b"\n".join(lines[:k + 2] + lines[k + 3:])
    return raw


def run_badfile(case, obs, fail):
    raw = badfile_bytes(case)
    obs["file"], _ = structure(raw)
    obs["rawb"] = raw
    with tempfile.TemporaryDirectory(dir=TMPROOT) as d:
        path = os.path.join(d, "bad.omf")
        open(path, "wb").write(raw)
        st, g = read_file(path)
    obs["read"] = st
    obs["reserved"] = ["norm", "mesh"]
    if st == "ok":
        obs["back"] = field_obs(g, case["w"] or 8)
    obs["tags"].append("badfile:" + case["what"] + ":" + st)


# =========================================================================== model side
def model_requests(case, obs):
    reqs = legacy_requests(case, obs)
    reqs += byte_requests(case, obs, len(reqs))
    return reqs


def byte_requests(case, obs, base):
    """requests for the byte-level model (lexBytes / fromOvfBytes / toOvfBytes); their positions and roles are
    remembered in obs['_byte'] = [(index, role)]"""
    kind, out, roles = case["kind"], [], []
    if obs.get("skip") or "adapter-crash" in obs.get("tags", []) or "rawb" not in obs:
        obs["_byte"] = []
        return out

    def add(req, role):
        roles.append((base + len(out), role))
        out.append(req)

    raw = obs["rawb"]
    side = None
    if obs.get("side") is not None:
        side = [dict(name=k, pmin=Qs(v["pmin"]), pmax=Qs(v["pmax"]), dims=v["dims"], units=v["units"],
                     tol=Q(v["tolerance_factor"])) for k, v in obs["side"].items()]
    if kind != "ttrunc":      # (the structure() reading of a cut text row is not pandas'; the model's own is used below)
        add(readbytes_req(raw, obs["file"], side, obs.get("reserved", [])), "read")
    if py_ws_safe(raw):
        add(dict(op="lex", bytes=list(raw)), "lex")
    # text files: the model of read_csv on the bytes of the data section
    rt_req = readbytest_req(raw, side, obs.get("reserved", []))
    if rt_req is not None:
        add(rt_req, "readt")
    if kind == "foreign" and "content" in obs and case.get("shuffle") is None:
        # the model's reference writer down to the bytes: a foreign file the REAL reader is run on in compare()
        c = foreign_content(case)
        texts = fmt_texts(c["values"]) if case["w"] == 0 else []
        hdr = [x for a in range(3) for x in (case["base"][a], case["step"][a], case["base"][a] - case["step"][a] / 2,
                                             case["base"][a] - case["step"][a] / 2 + case["nodes"][a] * case["step"][a])]
        if texts is not None:
            add(dict(op="refwritebytes", content=obs["content"], v2=case["v2"], w=case["w"],
                     floats=[[repr(float(x)), Q(x)] for x in dict.fromkeys(hdr)], texts=texts), "refbytes")
    if kind in ("rt", "trunc_rt"):
        tab = None if obs.get("negzero") else exact_fmt_table(obs["field"])
        if tab is not None:
            add(dict(op="writebytes", field=obs["field"], rep=case["rep"], extend=case["extend"], floats=tab), "write")
            if case["rep"] == "txt":
                texts = fmt_texts([float(x) for x in np.asarray(build_field(case).array).reshape(-1)] + [0.0])
                if texts is not None:
                    add(dict(op="writebytest", field=obs["field"], rep="txt", extend=case["extend"], floats=tab,
                             texts=texts), "writet")
        if "trawb" in obs:
            add(readbytes_req(obs["trawb"], obs["tfile"], None, []), "tread")
            if py_ws_safe(obs["trawb"]):
                add(dict(op="lex", bytes=list(obs["trawb"])), "tlex")
    obs["_byte"] = roles
    return out


def legacy_requests(case, obs):
    kind = case["kind"]
    if obs.get("skip") or "adapter-crash" in obs.get("tags", []):
        return []
    if kind in ("rt", "trunc_rt"):
        reqs = [dict(op="write", field=obs["field"], rep=case["rep"], extend=case["extend"])]
        if obs.get("write") == "ok":
            side = None
            if obs.get("side") is not None:
                side = [dict(name=k, pmin=Qs(v["pmin"]), pmax=Qs(v["pmax"]), dims=v["dims"], units=v["units"],
                             tol=Q(v["tolerance_factor"])) for k, v in obs["side"].items()]
            reqs.append(dict(op="read", file=obs["file"], side=side))
            reqs.append(dict(op="refread", file=obs["file"]))
            reqs.append(dict(op="savesub", mesh=obs["field"]["mesh"]))
            if "tfile" in obs:
                reqs.append(dict(op="read", file=obs["tfile"], side=None))
        return reqs
    if kind == "foreign":
        reqs = [dict(op="read", file=obs["file"], side=None, reserved=obs.get("reserved", []))]
        if "content" in obs and case.get("shuffle") is None:
            reqs.append(dict(op="refwrite", content=obs["content"], v2=case["v2"], w=case["w"]))
        return reqs
    if kind in ("sample", "trunc", "check", "obs_d19", "badfile"):
        return [dict(op="read", file=obs["file"], side=None, reserved=obs.get("reserved", []))]
    if kind == "bad":
        if case["what"] == "rep":
            return [dict(op="write", field=obs["field"], rep=case["rep"], extend=False)]
        if case["what"] in ("ndim", "units"):
            return [dict(op="write", field=obs["field"], rep="bin8", extend=False)]
        if case["what"] == "ext":
            return [dict(op="dispatch", ext=case["ext"])]
    return []


def cmp_file(name, got, want, dis, rep, scale):
    if got["first"] != want["first"]:
        dis.append(f"{name}: first line {got['first']!r} vs model {want['first']!r}")
    gl, wl = got["lines"], want["lines"]
    if [l[:2] if l[0] == "kv" else l for l in gl] != [l[:2] if l[0] == "kv" else l for l in wl]:
        dis.append(f"{name}: header lines differ: file {[l[1] if l[0] == 'kv' else l[0] for l in gl]} vs model "
                   f"{[l[1] if l[0] == 'kv' else l[0] for l in wl]}")
        return
    for a, b in zip(gl, wl):
        if a[0] == "kv":
            ga, wa = a[2], b[2]
            if ga[0] == "str" or wa[0] == "str" or a[1] in NAT_KEYS:
                if ga != wa:
                    dis.append(f"{name}: header {a[1]}: file has {ga}, model {wa}")
            else:
                x, y = F(ga[1]), F(wa[1])
                if abs(x - y) > Fraction(1, 2 ** 46) * scale:
                    dis.append(f"{name}: header {a[1]}: file has {float(x)!r}, model {float(y)!r}")
    gb, wb = got["body"], want["body"]
    if ("bin" in gb) != ("bin" in wb):
        dis.append(f"{name}: data block kind differs")
    elif "bin" in gb:
        if gb["bin"] != wb["bin"]:
            k = next((i for i, (x, y) in enumerate(zip(gb["bin"], wb["bin"])) if x != y), min(len(gb["bin"]), len(wb["bin"])))
            dis.append(f"{name}: data section bytes differ at offset {k} (file {len(gb['bin'])} bytes, model {len(wb['bin'])})")
    else:
        if gb["footer"] != wb["footer"]:
            dis.append(f"{name}: footer {gb['footer']} vs model {wb['footer']}")
        if [len(r) for r in gb["text"]] != [len(r) for r in wb["text"]]:
            dis.append(f"{name}: text rows {len(gb['text'])}x{len(gb['text'][0]) if gb['text'] else 0} vs model "
                       f"{len(wb['text'])}x{len(wb['text'][0]) if wb['text'] else 0}")
        else:
            for i, (ra, rb) in enumerate(zip(gb["text"], wb["text"])):
                for j, (x, y) in enumerate(zip(ra, rb)):
                    if abs(F(x) - F(y)) > Fraction(1, 10 ** 9) * abs(F(y)):
                        dis.append(f"{name}: text value row {i} column {j}: file {x}, model {y}")
                        return


def cmp_back(name, back, mj, dis):
    """read-back field of the real reader vs model reader"""
    m = mj["mesh"]
    if back["n"] != m["n"]:
        dis.append(f"{name}: n impl {back['n']} vs model {m['n']}")
        return
    for key in ("pmin", "pmax"):
        if [F(x) for x in back[key]] != [F(x) for x in m["region"][key]]:
            dis.append(f"{name}: {key} impl {back[key]} vs model {m['region'][key]}")
    if back["units"] != m["region"]["units"] or back["dims"] != m["region"]["dims"]:
        dis.append(f"{name}: units/dims impl {back['units']} {back['dims']} vs model {m['region']['units']} {m['region']['dims']}")
    if back["nvdim"] != mj["nvdim"]:
        dis.append(f"{name}: nvdim impl {back['nvdim']} vs model {mj['nvdim']}")
        return
    if back["vdims"] != mj["vdims"]:
        dis.append(f"{name}: vdims impl {back['vdims']} vs model {mj['vdims']}")
    if back["unit"] != mj["unit"]:
        dis.append(f"{name}: unit impl {back['unit']!r} vs model {mj['unit']!r}")
    if len(back["data"]) != len(mj["data"]):
        dis.append(f"{name}: {len(back['data'])} values vs model {len(mj['data'])}")
    else:
        for k, (x, y) in enumerate(zip(back["data"], mj["data"])):
            if x != y and F(x) != F(y):
                dis.append(f"{name}: value {k} (C order) impl {x} vs model {y}")
                break
    ms = [[s["name"], s["pmin"], s["pmax"]] for s in m["subs"]]
    if [[k, [F(x) for x in a], [F(x) for x in b]] for k, a, b in back["subs"]] != \
            [[k, [F(x) for x in a], [F(x) for x in b]] for k, a, b in ms]:
        dis.append(f"{name}: subregions impl {back['subs']} vs model {ms}")


def cmp_read(name, obs, r, dis, text=False):
    st = "ok" if "ok" in r else "err"
    if obs["read"] != st:
        dis.append(f"{name}: from_file {obs['read']} vs model {st} ({r.get('err')})")
    elif st == "ok":
        if text:  # text payload: the parse is the trusted float(); compare to 1e-9
            mj = dict(r["ok"])
            b = dict(obs["back"])
            if len(b["data"]) == len(mj["data"]) and all(abs(F(x) - F(y)) <= Fraction(1, 10 ** 9) * abs(F(y)) for x, y in zip(b["data"], mj["data"])):
                b["data"] = mj["data"]
            cmp_back(name, b, mj, dis)
        else:
            cmp_back(name, obs["back"], r["ok"], dis)


def cmp_content(name, got, want, dis, exact=True):
    for k in ("nodes", "vd", "meshunit"):
        if got[k] != want[k]:
            dis.append(f"{name}: {k} {got[k]} vs model {want[k]}")
    for k in ("base", "step"):
        for x, y in zip(got[k], want[k]):
            if abs(F(x) - F(y)) > Fraction(1, 2 ** 46) * max(abs(F(x)), abs(F(y))):
                dis.append(f"{name}: {k} {got[k]} vs model {want[k]}")
                break
    if len(got["values"]) != len(want["values"]):
        dis.append(f"{name}: {len(got['values'])} values vs model {len(want['values'])}")
    else:
        for i, (x, y) in enumerate(zip(got["values"], want["values"])):
            ok = F(x) == F(y) if exact else abs(F(x) - F(y)) <= Fraction(1, 10 ** 9) * abs(F(y))
            if not ok:
                dis.append(f"{name}: value {i} {x} vs model {y}")
                break


def cmp_lex(name, raw, r, dis):
    st, lx = lex_py(raw)
    mst = "ok" if "ok" in r else "err"
    if st != mst:
        dis.append(f"{name}: header loop on bytes: python {st} ({lx if st == 'err' else ''}) vs model {mst}")
    elif st == "ok":
        m = r["ok"]
        if m["first"] != lx["first"]:
            dis.append(f"{name}: first line bytes differ")
        if m["lines"] != lx["lines"]:
            k = next((i for i, (a, b) in enumerate(zip(m["lines"], lx["lines"])) if a != b), min(len(m["lines"]), len(lx["lines"])))
            dis.append(f"{name}: header line {k}: python {lx['lines'][k] if k < len(lx['lines']) else None} vs model "
                       f"{m['lines'][k] if k < len(m['lines']) else None}")
        if m["data"] != lx["data"]:
            dis.append(f"{name}: data line: python {lx['data']} vs model {m['data']}")


def cmp_refbytes(case, obs, r, dis):
    """the bytes of the model's reference writer, read by the REAL reader, must give the content"""
    mb = bytes(r["ok"])
    with tempfile.TemporaryDirectory(dir=TMPROOT) as d:
        path = os.path.join(d, "modelref" + case["ext"])
        open(path, "wb").write(mb)
        st, g = read_file(path)
    if st != "ok":
        dis.append(f"from_file raised {g} on the bytes of the model's reference writer (OVF {'2.0' if case['v2'] else '1.0'}, w={case['w']})")
        return
    c = foreign_content(case)
    pmin = [b - s_ / 2 for b, s_ in zip(case["base"], case["step"])]
    pmax = [p + n * s_ for p, n, s_ in zip(pmin, case["nodes"], case["step"])]
    if list(g.mesh.n) != case["nodes"] or g.nvdim != case["vd"] or g.mesh.region.pmin.tolist() != pmin \
            or g.mesh.region.pmax.tolist() != pmax or list(g.mesh.region.units) != [case["meshunit"]] * 3:
        dis.append(f"model's reference file read by from_file: n={list(g.mesh.n)} nvdim={g.nvdim} "
                   f"{g.mesh.region.pmin.tolist()}..{g.mesh.region.pmax.tolist()} vs content {case['nodes']} {case['vd']} {pmin}..{pmax}")
        return
    vals = np.array(c["values"], dtype=np.float64).reshape(case["nodes"][2], case["nodes"][1], case["nodes"][0], case["vd"])
    msg = same_values(g.array, np.transpose(vals, (2, 1, 0, 3)), {0: "txt", 4: "bin4", 8: "bin8"}[case["w"]])
    if msg:
        dis.append("model's reference file read by from_file: " + msg)


def compare_bytes(case, obs, rs, dis):
    for idx, role in obs.get("_byte", []):
        r = rs[idx]
        if role == "read":
            cmp_read("bytes of the file", obs, r, dis, text=("text" in obs["file"]["body"]))
        elif role == "tread":
            st2 = "ok" if "ok" in r else "err"
            if st2 != obs["tread"]:
                dis.append(f"truncated file (bytes): from_file {obs['tread']} vs model {st2}")
        elif role == "readt":
            cmp_read("bytes of the file (model of read_csv)", obs, r, dis, text=True)
        elif role == "writet":
            if "ok" not in r:
                dis.append(f"to_file ok vs byte-level model text writer {r}")
                continue
            raw, mb = obs["rawb"], r["ok"]
            if list(raw) != mb:
                k = next((i for i, (x, y) in enumerate(zip(raw, mb)) if x != y), min(len(raw), len(mb)))
                dis.append(f"written text file differs from the model's at offset {k} of {len(raw)} (model {len(mb)} bytes): "
                           f"file {bytes(raw[max(0, k - 20):k + 20])!r} vs model {bytes(mb[max(0, k - 20):k + 20])!r}")
        elif role == "refbytes":
            cmp_refbytes(case, obs, r, dis)
        elif role == "lex":
            cmp_lex("file", obs["rawb"], r, dis)
        elif role == "tlex":
            cmp_lex("truncated file", obs["trawb"], r, dis)
        elif role == "write":
            if "ok" not in r:
                dis.append(f"to_file ok vs byte-level model writer {r}")
                continue
            raw, mb = obs["rawb"], r["ok"]
            if case["rep"] == "txt":   # the model writes the header; pandas writes the rows
                _, off = structure(raw)
                raw = raw[:off]
            if list(raw) != mb:
                k = next((i for i, (x, y) in enumerate(zip(raw, mb)) if x != y), min(len(raw), len(mb)))
                dis.append(f"written bytes differ from the model's at offset {k} of {len(raw)} (model {len(mb)} bytes): "
                           f"file {bytes(raw[max(0, k - 20):k + 20])!r} vs model {bytes(mb[max(0, k - 20):k + 20])!r}")


def compare(case, obs, rs):
    dis = compare_legacy(case, obs, rs)
    if not (obs.get("skip") or "adapter-crash" in obs.get("tags", [])):
        compare_bytes(case, obs, rs, dis)
    return dis


def compare_legacy(case, obs, rs):
    kind, dis = case["kind"], []
    if obs.get("skip") or "adapter-crash" in obs.get("tags", []):
        return dis
    if kind in ("rt", "trunc_rt"):
        w = rs[0]
        st = "ok" if "ok" in w else "err"
        if st != obs["write"]:
            dis.append(f"to_file {obs['write']} ({obs.get('write_exc')}) vs model {st} ({w.get('err')})")
            return dis
        if st == "ok":
            r = case["mesh"]
            scale = max([abs(Fraction(x)) for x in r["p1"] + r["p2"]])
            cmp_file("written file", obs["file"], w["ok"], dis, case["rep"], scale)
            cmp_read("read back", obs, rs[1], dis, text=(case["rep"] == "txt"))
            if "content" in obs:
                if "ok" not in rs[2]:
                    dis.append(f"independent reader ok vs model reference reader {rs[2]}")
                else:
                    cmp_content("reference reader", obs["content"], rs[2]["ok"], dis, exact=(case["rep"] != "txt"))
            ms = [[e["name"], [F(x) for x in e["pmin"]], [F(x) for x in e["pmax"]], e["dims"], e["units"], F(e["tol"])]
                  for e in rs[3]["ok"]]
            gs = [[k, [Fraction(x) for x in v["pmin"]], [Fraction(x) for x in v["pmax"]], v["dims"], v["units"],
                   Fraction(v["tolerance_factor"])] for k, v in (obs["side"] or {}).items()]
            if ms != gs:
                dis.append(f"side-car file: {obs['side']} vs model {rs[3]['ok']}")
            if "tfile" in obs:
                st2 = "ok" if "ok" in rs[4] else "err"
                if st2 != obs["tread"]:
                    dis.append(f"truncated file: from_file {obs['tread']} vs model {st2}")
    elif kind == "foreign":
        cmp_read("foreign file", obs, rs[0], dis, text=(case["w"] == 0))
        if "content" in obs and case.get("shuffle") is None:
            mf = rs[1]["ok"]
            # the model's reference writer against the harness writer: same key/value set, same data bytes
            g = {l[1]: l[2] for l in obs["file"]["lines"] if l[0] == "kv"}
            m = {l[1]: l[2] for l in mf["lines"] if l[0] == "kv"}
            for k in NUM_KEYS | {a + "nodes" for a in "xyz"} | ({"valuedim"} if case["v2"] else set()):
                if k not in m or k not in g or g[k][0] != m[k][0] or F(g[k][1]) != F(m[k][1]):
                    dis.append(f"reference writer: header {k}: harness file {g.get(k)} vs model {m.get(k)}")
            if mf["first"] != obs["file"]["first"]:
                dis.append(f"reference writer: first line {obs['file']['first']!r} vs model {mf['first']!r}")
            if "bin" in mf["body"] and mf["body"]["bin"] != obs["file"]["body"].get("bin"):
                dis.append("reference writer: data section bytes differ from the harness writer's")
    elif kind in ("sample", "trunc", "check", "obs_d19", "badfile"):
        cmp_read(kind + " file", obs, rs[0], dis, text=("text" in obs["file"]["body"]))
    elif kind == "bad":
        if case["what"] == "ext":
            if rs[0]["ok"] != obs["res"]:
                dis.append(f"extension {case['ext']!r}: impl write/read {obs['res']} vs model {rs[0]['ok']}")
        elif case["what"] in ("rep", "ndim", "units"):
            st = "ok" if "ok" in rs[0] else "err"
            if st != obs["res"]:
                dis.append(f"bad {case['what']}: to_file {obs['res']} vs model {st}")
    return dis


def nontrivial(case, obs):
    return bool(obs.get("nontrivial"))


def unit_outside_grammar(u):
    """units the `valueunits` header line cannot carry (finding D25)"""
    return u is not None and (u == "" or u == "None" or ":" in u or any(ch.isspace() for ch in u))


def known(case, text):
    # D25: a unit containing white space or ':', the string 'None', or the empty string comes back changed
    if case["kind"] == "sep" and case.get("labels") is None and unit_outside_grammar(case.get("unit")) \
            and text.startswith("field unit"):
        return "D25"
    return None


def shrink(failure):
    """greedy simplification of a failing round-trip case (same kind of oracle message)"""
    case, text = failure["case"], failure["text"]
    if case["kind"] != "rt":
        return failure
    key = text[:30]
    cur = {k: v for k, v in case.items() if not k.startswith("_")}
    for patch in (dict(subs=[]), dict(labels=None), dict(unit=None), dict(vals="int"), dict(ext=".omf"),
                  dict(mesh=dict(p1=[0.0, 0.0, 0.0], p2=[2.0, 1.0, 1.0], n=[2, 1, 1], unit="m", dims=None)),
                  dict(mesh=dict(p1=[0.0, 0.0, 0.0], p2=[1.0, 1.0, 1.0], n=[1, 1, 1], unit="m", dims=None))):
        if any(k == "labels" and cur["nvdim"] > 1 and "labels" in text for k in patch):
            continue
        trial = dict(cur, **patch)
        try:
            o = run_impl(trial)
        except Exception:
            continue
        hit = next((t for t in o["oracle"] if t[:30] == key), None)
        if hit:
            cur, text = trial, hit
    return dict(case=cur, kind="oracle", text=text)


def search(case, rng):
    for _ in range(400):
        yield gen_rt(rng)
        yield gen_foreign(rng)
