"""C17 — xarray export/import is lossless and uses cell centres as coordinates."""
import itertools
import os
import random
from fractions import Fraction

import numpy as np
import xarray as xr

from . import core, fieldio
from .core import Q, Qs, F

import discretisedfield as df

PID = "C17"
RULE = ("(rt) fields on 1-4-d meshes (cell counts incl. 1; renamed dims incl. names that are also attributes / methods of "
        "xarray.DataArray or keys of its attrs: values, attrs, name, cell, pmin, nvdim, T, data, coords, dims, shape, size, "
        "tolerance_factor, ...; per-axis units = ANY strings: default, ordinary, ALL axes dimensionless (''), SOME axes dimensionless, "
        "blank / falsy-looking / non-ASCII / long strings ('0', 'None', 'False', ' ', tab, 'µm', 40 chars, a dimension's name, 'units'); "
        "int- or float-typed corners; tolerance factor default / custom / 0 (legal and falsy) / 1; export name and unit arguments and the "
        "field's own unit incl. the empty string), 1-4 components, float64/float32/int64/int32/complex128/complex64/bool data incl. NaN/inf/-0.0, "
        "labels default/custom/absent (vector) or present (scalar), through Field.to_xarray (name/unit arguments) and Field.from_xarray on the real DataArray "
        "with attrs complete, EVERY subset of cell/pmin/pmax removed, tolerance_factor / one coordinate's units / EVERY coordinate's "
        "units / the label coordinate / everything removed, ONE coordinate's units replaced by '' / ' ' / '0' / 'None' / 'False' / 'µm', "
        "additional attributes on the array and on every coordinate; a long-axis stream (one axis of 60-250 and of 1000-6000 cells, all "
        "compared with the model: the driver runs linear-time forms proved equal to it); 40 % of these after a HISTORY of 1-3 in-place calls on field.mesh (translate; scale by scalar / "
        "per-axis / negative factors about pmin, pmax or the default centre; calls the code must refuse: wrong length, factor 0) preceded by "
        "one export: the model replays the history (T.stepM) from the state before it and its export is compared with the real one; "
        "exact regime (dyadic geometry: equality with the rational model) and tolerance regime "
        "(scales 1e-12..1e6, offsets up to 1000 cells: 16u bound); (uneven) one coordinate shifted by 0.3/0.05/0.01 cell (clear "
        "reject side of the relative spacing test rtol=1e-5), by 2e-5 / 5e-6 cell (a factor 2 above / below the threshold: model's rational "
        "inequality vs np.allclose) or 1e-8/1e-9 cell (clear accept side) at ALL scales 1e-12..1e6 and offsets up to 1e7 cells; (hand) hand-built 1-4-d DataArrays "
        "(arange/int coordinates, missing coordinates, consistent or inconsistent attrs given as lists or numpy arrays, single-cell axes "
        "with/without cell, evenly spaced DESCENDING coordinates, labels that are attribute names of Field; units on some / all "
        "coordinates incl. '' on exactly one and odd strings; regions with a corner exactly at 0 on every axis and pmin / pmax "
        "attributes equal to 0 that contradict the coordinates: a present attribute counts, falsy or not; complete attributes that "
        "contradict the DATA shape on one axis - one entry where they say several cells: numpy broadcasts it; single-cell axes on any "
        "subset of the axes); (uneven-long) the displaced coordinate far down an axis of 100-1500 cells; (bad) missing/zero/negative/float/"
        "numpy nvdim, vector without vdims axis, non-DataArray argument, wrong/scaled cell, shifted pmax, swapped corners, "
        "duplicate labels, a label naming a method/property of Field, nvdim != axis length, transposed axes, dropped coordinate, dimension called 'vdims', non-string "
        "name/unit arguments, a cell size that rounds to zero cells >= 1e15 cells from the origin. Oracle on the real code: coordinates == cell centres (exact Fractions) of the mesh as it is at export time, inside their own cell, with "
        "the region's units, label coordinate == labels, attrs == cell/pmin/pmax/nvdim/unit/tolerance; import(export(f)) == f in "
        "corners, n, dims, units, tolerance, every value token, labels, dtype; rebuilt mesh == original when n>=2 per axis or "
        "cell kept; single-cell axis without cell rejected; uneven (relative unevenness > 1e-3), missing nvdim, nvdim<1, vector "
        "without vdims axis, non-DataArray rejected. non-trivial = at least 2 cells, non-constant data, import succeeded")
TRUSTED = ["harness/c17.py, harness/fieldio.py + driver JSON glue (values travel as opaque repr tokens)",
           "xarray.DataArray as a container (dims, coords, attrs, default integer index for a dimension without coordinate)",
           "np.linspace / np.diff / mean / np.allclose / np.full broadcasting modelled by contract",
           "hasattr(field, label) is answered by the real class for the labels of each request (the model is parametric in the set "
           "of attribute names of Field; its theorems hold for every such set)"]
ASSUMPTIONS = ["exact regime: dyadic corners and cells, every binary64 operation on the code path (linspace, diff, mean, c/2, the in-place "
               "translate/scale arithmetic) is exact, equality demanded; tolerance regime: model computes on the exact rationals of "
               "the floats the code sees, continuous outputs within 16*2^-53*max(|pmin|,|pmax|,edge)",
               "label coordinates are strings, dimension coordinates numeric; the default labels x, y, z, v0, v1, ... are not attribute "
               "names of Field (hypothesis hdef of import_wf; asserted on the real class when the module is loaded)",
               "in-place histories consist of Mesh.translate / Mesh.scale on a mesh without subregions (a quarter turn of field.mesh in "
               "place changes the cell counts under the field's array and is not a state the property speaks about)",
               "cases whose largest spacing deviation is within a factor 3.3 of the spacing threshold 1e-5*|mean| (an incidental constant) are not compared "
               "(the code's rtol is a binary64 number and rtol*|mean| is rounded)"]
UNPROVED = ["units that are not strings on a hand-built DataArray (None, numbers) are outside the model (Coord.units : Option String) "
            "and outside the property; not generated",
            "labels of a vector field WITHOUT labels (vdims=[]) and of a scalar field WITH a label are not preserved: the importer "
            "assigns the constructor defaults (xa_roundtrip_unlabelled / xa_roundtrip_labels_iff prove exactly this of the model; finding D81)",
            "unit, validity mask, bc, subregions and vdim_mapping are not restored by from_xarray (xa_not_restored, export_import_export_idem: "
            "only the attribute units differs after export-import-export; not in the property's list)",
            "binary64 rounding of linspace / diff / mean / c/2 is not modelled: theorems are over Q, the tolerance regime of the "
            "correspondence run (16u bound) stands in; the spacing threshold is exact in the model (rtol = 1/100000, spacing_test_spec) "
            "while the code's rtol is the binary64 number nearest to 1e-5 and rtol*|mean| is rounded: cases within a factor 3.3 of the threshold "
            "are not compared (the constant is incidental: a benign retuning to 2e-5 must stay quiet)",
            "import_geometry_ok_iff states the acceptance of Region / Mesh with C01's rational tolerance band and the 0.1 % divisibility "
            "rule; in binary64 these two thresholds are incidental and the generators stay clear of them",
            "values of an accepted DataArray whose data do NOT have the mesh's shape (attributes that contradict the data, accepted when "
            "numpy can broadcast, e.g. one value into n cells): acceptance is proved exactly (import_ok_iff, data_fits_iff), the broadcast "
            "values themselves are compared by the correspondence run only (import_result_formula covers data of the mesh's shape)",
            "hand-built DataArrays with complete attributes: the coordinate values are never used (attrs_override_coordinates, "
            "import_geometry_ok_iff), so descending or contradicting coordinates are accepted without reordering the data - an "
            "observation about the code, outside the property's statement"]
BUDGET = {"quick": 85, "thorough": 800}

U = Fraction(1, 2 ** 53)
DIMS = ["x", "y", "z", "a", "b", "c", "u", "v", "w", "t", "xx", "r0", "dim_1", "ξ"]
# dimension names that are also names of attributes / methods of xarray.DataArray, keys of its attrs or names the importer
# itself uses: the importer must address coordinates and attributes by key, never by attribute access
XR_DIMS = ["values", "attrs", "name", "cell", "pmin", "pmax", "nvdim", "T", "data", "coords", "dims", "shape", "size", "n",
           "region", "mean", "self", "tolerance_factor", "sel", "loc", "item", "p1", "p2", "vdim", "unit"]
# VERIF_C17_DIM_UNITS=1: a dimension called "units" (finding D117: from_xarray reads `xa[i].units`, which xarray resolves to the
# COORDINATE called units, not to the attribute, so the import of the real export raises TypeError).  Off by default.
DIM_UNITS = os.environ.get("VERIF_C17_DIM_UNITS", "1") != "0"
UNITS = ["m", "nm", "um", "s", "rad", "1/m"]
# any string is a legal unit of a Region: the empty string (a dimensionless axis), strings that are falsy / look like None /
# numbers, blanks, non-ASCII, long ones, the attribute's own name
ODD_UNITS = ["", "", "", " ", "0", "1", "None", "False", "nan", "µm", "Å", "m/s^2", "m" * 40, "a b", "units", "\t", "%", "'"]
LABELS = [c for c in ["a", "b", "c", "d", "mx", "my", "mz", "p", "q", "α", "v_1", "x", "y", "z", "x1", "vx", "None"]
          if not hasattr(df.Field, c)]
RESERVED = [c for c in ["mesh", "array", "norm", "valid", "unit", "mean", "to_xarray", "nvdim", "vdims", "dtype", "_array", "_mesh",
                         "__class__", "__eq__", "allclose", "plane", "diff"] if hasattr(df.Field, c) or c.startswith("_")]
DTYPES = ["float64", "float64", "float64", "float32", "int64", "int32", "complex128", "complex64", "bool"]
GEOM_ATTRS = ("cell", "pmin", "pmax")


# --------------------------------------------------------------------------- the class's attribute names
_F0 = []


def field_has(c):
    """hasattr(field, c) as the vdims setter asks it on the object under construction (no labels yet, so the dynamic
    component access of __getattr__ finds nothing): is c a method / property / slot of Field?"""
    if not _F0:
        _F0.append(df.Field(df.Mesh(p1=0, p2=1, n=1), nvdim=1))
    return hasattr(_F0[0], str(c))


def attrs_of(labels):
    """the answers the model's FieldAttrs parameter is instantiated with: which of these labels are attribute names"""
    return sorted({str(c) for c in (labels or []) if field_has(c)})


# hypothesis `hdef` of import_wf / import_export_import: the constructor's default labels are not attributes of Field
assert not any(field_has(c) for c in ["x", "y", "z"] + [f"v{i}" for i in range(64)]), "a default label is an attribute of Field"
assert all(field_has(c) for c in RESERVED), "RESERVED contains a name that is not an attribute of Field"


# --------------------------------------------------------------------------- canonical forms
def toks(arr):
    return [repr(v) for v in np.asarray(arr).reshape(-1).tolist()]


def field_json(f):
    return dict(mesh=fieldio.mesh_json(f.mesh), nvdim=int(f.nvdim), shape=[int(k) for k in f.array.shape],
                data=toks(f.array), valid=[bool(v) for v in np.asarray(f.valid).reshape(-1).tolist()],
                vdims=([str(v) for v in f.vdims] if f.vdims is not None else None),
                vmap=[[k, v] for k, v in f.vdim_mapping.items() if v is not None],
                unit=f.unit, dtype=str(f.array.dtype))


def xa_json(xa):
    axes = []
    for d in xa.dims:
        size = int(xa.sizes[d])
        coord = None
        if d != "vdims" and d in xa.coords and xa[d].values.dtype.kind in "iuf":
            coord = dict(vals=Qs(xa[d].values.tolist()), units=xa[d].attrs.get("units"))
        axes.append(dict(name=str(d), size=size, coord=coord))
    at = xa.attrs
    nv = None
    if "nvdim" in at:
        v = at["nvdim"]
        nv = {"int": int(v)} if isinstance(v, int) else {"other": Q(float(v))}
    return dict(name=str(xa.name), axes=axes,
                vdims=([str(v) for v in xa["vdims"].values.tolist()] if "vdims" in xa.coords else None),
                shape=[int(k) for k in xa.values.shape], data=toks(xa.values),
                attrs=dict(units=at.get("units"),
                           cell=(Qs(np.asarray(at["cell"]).tolist()) if "cell" in at else None),
                           pmin=(Qs(np.asarray(at["pmin"]).tolist()) if "pmin" in at else None),
                           pmax=(Qs(np.asarray(at["pmax"]).tolist()) if "pmax" in at else None),
                           nvdim=nv, tol=(Q(at["tolerance_factor"]) if "tolerance_factor" in at else None)),
                dtype=str(xa.values.dtype))


# --------------------------------------------------------------------------- generators
def gen_units(rng, ndim, dims):
    """None (the constructor's default) / ordinary units / all axes dimensionless ("") / SOME axes dimensionless / any strings
    (falsy-looking, blank, non-ASCII, long, equal to a dimension name)"""
    r = rng.random()
    if r < 0.3:
        return None
    if r < 0.5:
        return [rng.choice(UNITS) for _ in range(ndim)]
    if r < 0.6:
        return [""] * ndim
    if r < 0.8:
        u = [rng.choice(UNITS) for _ in range(ndim)]
        for a in rng.sample(range(ndim), rng.randint(1, max(1, ndim - 1))):
            u[a] = ""
        return u
    pool = UNITS + ODD_UNITS + list(dims or ["x", "y"])
    return [rng.choice(pool) for _ in range(ndim)]


def units_tag(units):
    if units is None:
        return "units:default"
    if all(u == "" for u in units):
        return "units:all-empty"
    if any(u == "" for u in units):
        return "units:some-empty"
    return "units:odd" if any(u not in UNITS for u in units) else "units:ordinary"


def gen_dims(rng, ndim):
    r = rng.random()
    if r < 0.4:
        return None
    if r < 0.75:
        return rng.sample(DIMS, ndim)
    d = rng.sample(XR_DIMS, rng.randint(1, ndim))           # names xarray / the importer also use
    d = d + rng.sample(DIMS, ndim - len(d))
    rng.shuffle(d)
    if DIM_UNITS and rng.random() < 0.5:
        d[rng.randrange(ndim)] = "units"
    return d


def gen_geom(rng, tier, regime, min_n=1, ndim=None, emax=6, force3=False, far=False, long=False):
    ndim = ndim or rng.choice([1, 2, 2, 3, 3, 4])
    big = 6 if tier == "quick" else 9
    n = [max(min_n, rng.choice([1, 2, 2, 3, 3, 4, 5, big])) for _ in range(ndim)]
    while int(np.prod(n)) > 100:
        k = rng.randrange(ndim)
        n[k] = max(min_n, n[k] - 1)
    if long:                                                             # one axis of hundreds / thousands of cells
        n = [rng.choice([1, 2, 2, 3]) for _ in range(ndim)]
        n[rng.randrange(ndim)] = long if ndim == 1 else max(40, long // 4)
    if force3 and max(n) < 3:                                            # an axis on which spacing can be uneven
        n[rng.randrange(ndim)] = rng.choice([3, 4, 5, 7])
    if regime == "exact":
        cell = [Fraction(rng.choice([1, 1, 3, 5]), 2 ** rng.randint(0, 3)) for _ in range(ndim)]
        pmin = [Fraction(rng.randint(-40, 40), 2 ** rng.randint(0, 2)) for _ in range(ndim)]
        if rng.random() < 0.25:                                          # whole numbers: integer-typed corners possible
            cell = [Fraction(rng.choice([1, 1, 2, 3])) for _ in range(ndim)]
            pmin = [Fraction(rng.randint(-40, 40)) for _ in range(ndim)]
        pmax = [a + k * c for a, k, c in zip(pmin, n, cell)]
        if all(x.denominator == 1 for x in pmin + pmax) and rng.random() < 0.6:
            p1, p2 = [int(x) for x in pmin], [int(x) for x in pmax]      # integer-typed corners
        else:
            p1, p2 = [float(x) for x in pmin], [float(x) for x in pmax]
        scale_exp = 0
    else:
        scale_exp = rng.randint(-12, emax)
        cell = [10.0 ** scale_exp * rng.uniform(0.5, 5.0) for _ in range(ndim)]
        off = rng.choice([0, 1, 30, 1000] + ([10 ** 5, 10 ** 7, 10 ** 7] if far else []))   # far: offsets of 1e5 / 1e7 cells
        if not long and not force3 and min_n <= 1 and rng.random() < 0.2:
            # a film on a substrate far away: ONE cell along an axis, 1e5 .. 1e7 cells from the origin (the mesh is rebuilt
            # from the cell size when pmin / pmax are missing: cell against edge at the magnitude of the coordinates)
            n[rng.randrange(ndim)] = 1
            off = rng.choice([10 ** 5, 10 ** 6, 10 ** 7])
        p1 = [c * rng.uniform(-off - 1, off + 1) for c in cell]
        p2 = [a + k * c for a, k, c in zip(p1, n, cell)]
    if rng.random() < 0.3:                                               # corners in any order
        for a in range(ndim):
            if rng.random() < 0.5:
                p1[a], p2[a] = p2[a], p1[a]
    dims = gen_dims(rng, ndim)
    units = gen_units(rng, ndim, dims)
    tol = rng.choice([None, None, None, 1e-6, 1e-9, 0.5 ** 20, 0, 0.0, 1.0])     # 0: a legal (exact comparisons) falsy factor
    return dict(p1=p1, p2=p2, n=n, dims=dims, units=units, tol=tol, regime=regime, scale_exp=scale_exp)


def gen_fieldspec(rng, geom, allow_unlabelled=True):
    ndim = len(geom["n"])
    nv = rng.choice([1, 1, 2, 3, 3, 4])
    r = rng.random()
    if nv == 1:
        labels = [rng.choice(LABELS)] if (allow_unlabelled and r < 0.06) else None     # a scalar field may carry a label
    elif r < 0.5:
        labels = None
    elif r < 0.93 or nv == ndim or not allow_unlabelled:
        labels = rng.sample(LABELS, nv)
    else:
        labels = []                                                      # vector field without labels
    return dict(nvdim=nv, dtype=rng.choice(DTYPES), labels=labels, unit=rng.choice([None, None, "A/m", "T", ""]),
                special=rng.random() < 0.15, mask=rng.random() < 0.3)


def gen_meshop(rng, g, regime):
    """one in-place call on field.mesh: translate / scale (scalar or per-axis factor, also negative; reference point pmin,
    the centre (None) or a lattice point) / a call the code must refuse without changing anything (wrong length, factor 0)"""
    nd = len(g["n"])
    r = rng.random()
    if r < 0.35:
        return dict(op="translate", v=[rng.randint(-6, 6) * (1 if regime == "exact" else 1.37) for _ in range(nd)])
    if r < 0.85:
        fac = rng.choice([2.0, 0.5, 4.0, -2.0, -1.0]) if rng.random() < 0.5 else [rng.choice([2.0, 0.5, 1.0, 8.0, -2.0, -0.5]) for _ in range(nd)]
        return dict(op="scale", f=fac, ref=rng.choice(["pmin", "pmin", "centre", "pmax"]))
    return rng.choice([dict(op="translate", v=[1.0] * (nd + 1)), dict(op="scale", f=0.0, ref="centre"),
                       dict(op="scale", f=[2.0] * (nd + 1), ref="pmin")])


def apply_meshop(f, op, regime):
    """runs the call on the real field's mesh; returns the request for the model with the exact arguments the code received
    (None for the reference point = the code's default)"""
    if op["op"] == "translate":
        v = [float(x) for x in op["v"]]
        if regime != "exact" and len(v) == f.mesh.region.ndim:
            v = [x * float(c) for x, c in zip(v, f.mesh.cell)]
        req = dict(op="translate", v=Qs(v))
        call = lambda: f.mesh.translate(v, inplace=True)          # noqa: E731
    else:
        ref = None if op["ref"] == "centre" else [float(x) for x in getattr(f.mesh.region, op["ref"])]
        req = dict(op="scale", f=(Qs(op["f"]) if isinstance(op["f"], list) else Q(op["f"])), ref=(None if ref is None else Qs(ref)))
        call = lambda: f.mesh.scale(op["f"], reference_point=ref, inplace=True)   # noqa: E731
    try:
        call()
        return req, None
    except Exception as e:  # noqa: BLE001 — a refused call must leave the mesh as it was (checked against the model)
        return req, type(e).__name__


def build_field(geom, fs, sub):
    rng = random.Random(sub)
    kw = {}
    if geom["dims"]:
        kw["dims"] = geom["dims"]
    if geom["units"]:
        kw["units"] = geom["units"]
    region = df.Region(p1=geom["p1"], p2=geom["p2"], **kw)
    if geom["tol"] is not None:
        region.tolerance_factor = geom["tol"]
    mesh = df.Mesh(region=region, n=geom["n"])
    nv, dt = fs["nvdim"], np.dtype(fs["dtype"])
    shape = (*mesh.n, nv)
    size = int(np.prod(shape))
    if dt.kind == "b":
        arr = np.array([rng.random() < 0.5 for _ in range(size)], dtype=dt)
    elif dt.kind == "i":
        arr = np.array([rng.randint(-99, 99) for _ in range(size)], dtype=dt)
    elif dt.kind == "c":
        arr = np.array([complex(rng.randint(-40, 40) / 4, rng.randint(-40, 40) / 8) for _ in range(size)], dtype=dt)
    else:
        arr = np.array([rng.randint(-400, 400) / 8 if rng.random() < 0.7 else rng.uniform(-3, 3) for _ in range(size)], dtype=dt)
        if fs["special"]:
            for v in (np.nan, np.inf, -0.0):
                arr[rng.randrange(size)] = v
    arr = arr.reshape(shape)
    valid = np.array([rng.random() < 0.7 for _ in range(int(np.prod(mesh.n)))], dtype=bool).reshape(tuple(mesh.n)) if fs["mask"] else True
    return df.Field(mesh, nvdim=nv, value=arr, dtype=dt, vdims=fs["labels"], unit=fs["unit"], valid=valid)


def cases(rng, tier):
    """all streams, interleaved evenly so that a run cut short by the time budget still covers every kind"""
    items = []
    for pos, stream in enumerate(_streams(rng, tier)):
        stream = list(stream)
        items += [((k + 0.5) / len(stream), pos, c) for k, c in enumerate(stream)]
    items.sort(key=lambda t: (t[0], t[1]))
    for _, _, c in items:
        yield c


def _streams(rng, tier):
    q = tier == "quick"

    def rt(regime, cnt, long=None):
        """long: one axis of hundreds or thousands of cells; model and code are compared at every length (the driver runs the
        linear-time forms of the spacing test and of the cell inference, proved equal to the pointwise model: Props/C17.fast_import_eq)"""
        for _ in range(cnt):
            size = rng.choice(long) if long else False
            g = gen_geom(rng, tier, regime, ndim=(rng.choice([1, 1, 2, 3]) if long else None), long=size)
            pre = None
            if rng.random() < 0.4:       # history: export once, change the mesh in place (1-3 calls), then run the whole case on the changed field
                pre = [gen_meshop(rng, g, regime) for _ in range(rng.choice([1, 1, 2, 3]))]
            c = dict(kind="rt", geom=g, fs=gen_fieldspec(rng, g), sub=rng.getrandbits(32), pre=pre,
                     name=rng.choice([None, None, "m", "field_1", ""]), unit=rng.choice([None, None, "T", ""]))
            yield c

    def uneven(cnt):
        for _ in range(cnt):
            regime = rng.choice(["exact", "tol", "tol"])
            long = rng.choice([False] * 24 + [400, 1500])     # the displaced coordinate may sit far down a long axis
            g = gen_geom(rng, tier, regime, ndim=rng.choice([1, 2, 3]), force3=True, far=True, long=long)
            # 1/50000 and 1/200000 of a cell: a factor 2 above / below the threshold 1e-5 (model vs code: the rational
            # inequality of spacing_test_spec against np.allclose; binary64 noise is ~1e-10 of the threshold)
            delta = rng.choice(["3/10", "1/20", "1/100", "1/50000", "1/50000", "1/200000", "1/200000", "1/100000000", "1/1000000000"])
            yield dict(kind="uneven", geom=g, fs=gen_fieldspec(rng, g, False), sub=rng.getrandbits(32), delta=delta,
                       erase=[k for k in GEOM_ATTRS if rng.random() < 0.5])

    def hand(cnt):
        for _ in range(cnt):
            yield dict(kind="hand", sub=rng.getrandbits(32))

    def bad(cnt):
        muts = ["no_nvdim", "nvdim_lt1", "nvdim_float", "nvdim_npint", "no_vdims_dim", "not_dataarray", "cell_len", "cell_scaled",
                "pmax_shift", "swap_corners", "dup_labels", "nvdim_mismatch", "scalar_with_vdims_dim", "transpose", "drop_coord",
                "dim_named_vdims", "export_badargs", "pmin_only_single", "cell_rounds_to_zero", "reserved_label"]
        for i in range(cnt):
            g = gen_geom(rng, tier, "exact")
            yield dict(kind="bad", geom=g, fs=gen_fieldspec(rng, g, False), sub=rng.getrandbits(32), mut=muts[i % len(muts)])

    yield rt("exact", 700 if q else 5000)
    yield rt("tol", 450 if q else 3000)
    yield uneven(450 if q else 3500)
    yield hand(350 if q else 2500)
    yield bad(540 if q else 4000)
    yield rt("exact", 6 if q else 40, long=[60, 120, 250])
    yield rt("tol", 6 if q else 40, long=[60, 120, 250])
    yield rt("exact", 5 if q else 50, long=[1000, 2500, 4000, 6000])
    yield rt("tol", 5 if q else 50, long=[1000, 2500, 4000, 6000])


# --------------------------------------------------------------------------- running the real code
def try_import(arg):
    try:
        return df.Field.from_xarray(arg), None
    except Exception as e:  # noqa: BLE001 — the protocol distinguishes ok / err only
        return None, type(e).__name__


def rec_import(obs, name, xa, other=False):
    g, err = try_import(xa)
    skip = other or obs.get("nomodel")          # (oracle-only cases: nothing is sent to the model)
    obs["imports"].append(dict(name=name, xa=(None if skip else xa_json(xa)), err=err,
                               field=(field_json(g) if g is not None and not obs.get("nomodel") else None)))
    return g, err


def bound(f, regime):
    """absolute bound for continuous geometric outputs"""
    if regime == "exact":
        return Fraction(0)
    m = max([abs(Fraction(float(x))) for x in list(f.mesh.region.pmin) + list(f.mesh.region.pmax) + list(f.mesh.region.edges)])
    return 16 * U * m


def mesh_matches(g, f, bnd, fail, what, units=True, tol=True):
    """corners, n, dims (and, unless switched off, units and tolerance factor) of g equal f's"""
    ok = True
    if [int(k) for k in g.mesh.n] != [int(k) for k in f.mesh.n]:
        fail(f"{what}: n {g.mesh.n.tolist()} instead of {f.mesh.n.tolist()}")
        return False
    for key in ("pmin", "pmax"):
        a, b = getattr(g.mesh.region, key), getattr(f.mesh.region, key)
        if any(abs(Fraction(float(x)) - Fraction(float(y))) > bnd for x, y in zip(a, b)):
            fail(f"{what}: {key} {a.tolist()} instead of {b.tolist()}")
            ok = False
    if tuple(g.mesh.region.dims) != tuple(f.mesh.region.dims):
        fail(f"{what}: dims {g.mesh.region.dims} instead of {f.mesh.region.dims}")
        ok = False
    if units and tuple(g.mesh.region.units) != tuple(f.mesh.region.units):
        fail(f"{what}: units {g.mesh.region.units} instead of {f.mesh.region.units}")
        ok = False
    if tol and g.mesh.region.tolerance_factor != f.mesh.region.tolerance_factor:
        fail(f"{what}: tolerance_factor {g.mesh.region.tolerance_factor} instead of {f.mesh.region.tolerance_factor}")
        ok = False
    return ok


def values_match(g, f, fail, what):
    if g.nvdim != f.nvdim or g.array.shape != f.array.shape:
        fail(f"{what}: nvdim/shape {g.nvdim}/{g.array.shape} instead of {f.nvdim}/{f.array.shape}")
        return
    if g.array.dtype != f.array.dtype:
        fail(f"{what}: dtype {g.array.dtype} instead of {f.array.dtype}")
    ta, tb = toks(g.array), toks(f.array)
    if ta != tb:
        k = next(i for i, (x, y) in enumerate(zip(ta, tb)) if x != y)
        fail(f"{what}: value at flat position {k} is {ta[k]} instead of {tb[k]}")


def export_oracle(f, xa, case, fail):
    regime = case["geom"]["regime"]
    r, m = f.mesh.region, f.mesh
    bnd = bound(f, regime)
    exp_dims = tuple(r.dims) + (("vdims",) if f.nvdim > 1 else ())
    if tuple(xa.dims) != exp_dims:
        fail(f"export: dims {xa.dims} instead of {exp_dims}")
        return
    for a, d in enumerate(r.dims):
        lo, hi, n = Fraction(float(r.pmin[a])), Fraction(float(r.pmax[a])), int(m.n[a])
        c = (hi - lo) / n
        vals = xa[d].values
        if len(vals) != n:
            fail(f"export: {len(vals)} coordinates on {d} for {n} cells")
            return
        for j, v in enumerate(vals.tolist()):
            v = Fraction(float(v))
            centre = lo + (Fraction(2 * j + 1, 2)) * c
            if abs(v - centre) > bnd:
                fail(f"export: coordinate {j} of {d} is {float(v)!r}, the cell centre is {float(centre)!r} (pmin {float(lo)}, cell {float(c)})")
                return
            if not (lo + j * c < v < lo + (j + 1) * c):
                fail(f"export: coordinate {j} of {d} = {float(v)!r} lies outside its cell")
                return
        if xa[d].attrs.get("units") != r.units[a]:
            fail(f"export: units of {d} are {xa[d].attrs.get('units')!r} instead of {r.units[a]!r}")
    if f.nvdim > 1 and f.vdims is not None:
        if "vdims" not in xa.coords or [str(v) for v in xa["vdims"].values] != [str(v) for v in f.vdims]:
            fail(f"export: label coordinate {xa.coords.get('vdims')} instead of {f.vdims}")
    elif "vdims" in xa.coords:
        fail("export: label coordinate present for a field without labels")
    at = xa.attrs
    for key, exp in (("cell", m.cell), ("pmin", r.pmin), ("pmax", r.pmax)):
        if key not in at or not np.array_equal(np.asarray(at[key]), np.asarray(exp)):
            fail(f"export: attribute {key} is {at.get(key)} instead of {exp}")
    if at.get("nvdim") != f.nvdim or not isinstance(at.get("nvdim"), int):
        fail(f"export: attribute nvdim is {at.get('nvdim')!r} instead of {f.nvdim}")
    if at.get("tolerance_factor") != r.tolerance_factor:
        fail(f"export: attribute tolerance_factor is {at.get('tolerance_factor')} instead of {r.tolerance_factor}")
    exp_unit = case.get("unit") or f.unit
    if at.get("units") != exp_unit:
        fail(f"export: attribute units is {at.get('units')!r} instead of {exp_unit!r}")
    exp_name = case["name"] if case.get("name") is not None else "field"      # (an empty name is a string like any other)
    if xa.name != exp_name:
        fail(f"export: name {xa.name!r} instead of {exp_name!r}")
    src = f.array if f.nvdim > 1 else f.array[..., 0]
    if xa.values.shape != src.shape or toks(xa.values) != toks(src) or xa.values.dtype != f.array.dtype:
        fail("export: DataArray values differ from the field array")


def export(f, case):
    kw = {}
    if case.get("name") is not None:
        kw["name"] = case["name"]
    if case.get("unit") is not None:
        kw["unit"] = case["unit"]
    return f.to_xarray(**kw)


def strip(xa, keys):
    xa2 = xa.copy()
    xa2.attrs = {k: v for k, v in xa.attrs.items() if k not in keys}
    return xa2


def run_rt(case, obs, fail):
    geom, fs = case["geom"], case["fs"]
    f = build_field(geom, fs, case["sub"])
    regime = geom["regime"]
    pre = case.get("pre")
    if pre:
        if isinstance(pre, dict):                    # (corpus cases written before histories were lists)
            pre = [dict(op="translate", v=pre["v"]) if pre["op"] == "translate" else dict(op="scale", f=pre["f"], ref="pmin")]
        f.to_xarray()
        obs["field0"] = field_json(f)
        obs["hist"], refused = [], 0
        for op in pre:
            req, err = apply_meshop(f, op, regime)
            obs["hist"].append(req)
            refused += err is not None
        obs["tags"] += ["pre:" + "+".join(op["op"] for op in pre), f"pre-refused:{refused}"]
    bnd = bound(f, regime)
    obs["field"] = field_json(f)
    xa = export(f, case)
    if case.get("nomodel"):
        obs["nomodel"] = True
        obs["tags"].append("oracle-only")
    else:
        obs["xa"] = xa_json(xa)
    export_oracle(f, xa, case, fail)
    single = any(int(k) == 1 for k in f.mesh.n)
    # complete attributes
    g, err = rec_import(obs, "full", xa)
    if g is None:
        fail(f"round trip: from_xarray(to_xarray(f)) raised {err}")
    else:
        mesh_matches(g, f, Fraction(0), fail, "round trip")
        values_match(g, f, fail, "round trip")
        la, lb = (None if g.vdims is None else [str(v) for v in g.vdims]), (None if f.vdims is None else [str(v) for v in f.vdims])
        if la != lb:
            fail(f"labels changed: {lb} -> {la}")
        has_nan = f.array.dtype.kind in "fc" and bool(np.isnan(f.array).any())
        if not has_nan and not (g == f):
            fail("round trip: imported field != exported field")
    # every non-empty subset of the geometric attributes removed
    for k in (1, 2, 3):
        for keys in itertools.combinations(GEOM_ATTRS, k):
            g, err = rec_import(obs, "no:" + "+".join(keys), strip(xa, keys))
            if "cell" in keys and single:
                if g is not None:
                    fail(f"single-cell axis (n={f.mesh.n.tolist()}) without cell attribute accepted (removed {keys})")
            elif g is None:
                fail(f"rebuild: import without {keys} raised {err} (n={f.mesh.n.tolist()})")
            else:
                mesh_matches(g, f, bnd, fail, f"rebuild without {keys}")
                values_match(g, f, fail, f"rebuild without {keys}")
    # tolerance factor, units of one coordinate, label coordinate, everything
    g, err = rec_import(obs, "no:tol", strip(xa, ("tolerance_factor",)))
    if g is None:
        fail(f"import without tolerance_factor raised {err}")
    else:
        mesh_matches(g, f, Fraction(0), fail, "without tolerance_factor", tol=False)   # which default: model vs code only
    d = f.mesh.region.dims[case["sub"] % f.mesh.region.ndim]
    xa2 = xa.copy()
    xa2[d].attrs = {}
    g, err = rec_import(obs, "no:units", xa2)
    if g is None:
        fail(f"import without units on {d} raised {err}")
    else:
        mesh_matches(g, f, Fraction(0), fail, f"without units on {d}", units=False)
    # units attribute removed from EVERY coordinate (array attributes kept): which default, model vs code only
    xa5 = xa.copy()
    for dd in f.mesh.region.dims:
        xa5[dd].attrs = {}
    g, err = rec_import(obs, "no:units-all", xa5)
    if g is None:
        fail(f"import without units on any coordinate raised {err}")
    else:
        mesh_matches(g, f, Fraction(0), fail, "without units on any coordinate", units=False)
    # ONE coordinate's units replaced by another string - empty, blank, falsy-looking (model vs code: the importer takes the
    # strings the coordinates carry, whatever they are)
    newu = ["", "", " ", "0", "None", "µm", "False"][(case["sub"] >> 5) % 7]
    xa6 = xa.copy()
    xa6[d].attrs = dict(units=newu)
    g, err = rec_import(obs, "units:set", xa6)
    if g is None:
        fail(f"import with units {newu!r} on {d} raised {err}")
    else:
        mesh_matches(g, f, Fraction(0), fail, f"units {newu!r} on {d}", units=False)
    # attributes nobody asked for (on the array and on every coordinate) change nothing
    xa7 = xa.copy()
    xa7.attrs = dict(xa.attrs, long_name="a field", p1=[0.0], comment="", n=[1])
    for dd in f.mesh.region.dims:
        xa7[dd].attrs = dict(xa7[dd].attrs, long_name=dd, axis="X", unit="?")
    g, err = rec_import(obs, "extra-attrs", xa7)
    if g is None:
        fail(f"import with additional attributes raised {err}")
    else:
        mesh_matches(g, f, Fraction(0), fail, "with additional attributes")
        values_match(g, f, fail, "with additional attributes")
    if "vdims" in xa.coords:
        g, err = rec_import(obs, "no:labels", xa.drop_vars("vdims"))
        if g is None:
            fail(f"import without label coordinate raised {err}")
        else:
            values_match(g, f, fail, "without label coordinate")
    xa3 = strip(xa, GEOM_ATTRS + ("tolerance_factor", "units"))
    for dd in f.mesh.region.dims:
        xa3[dd].attrs = {}
    g, err = rec_import(obs, "bare", xa3)
    if single:
        if g is not None:
            fail("single-cell axis with all attributes removed accepted")
    elif g is None:
        fail(f"rebuild: bare DataArray raised {err}")
    else:
        mesh_matches(g, f, bnd, fail, "bare DataArray", units=False, tol=False)
        values_match(g, f, fail, "bare DataArray")
    obs["tags"] += [f"ndim:{f.mesh.region.ndim}", f"nvdim:{f.nvdim}", f"dtype:{f.array.dtype}", f"regime:{regime}",
                    "single-cell-axis" if single else "n>=2", "labels:" + ("default" if fs["labels"] is None else "none" if fs["labels"] == [] else "scalar-label" if fs["nvdim"] == 1 else "custom"),
                    "corners:" + str(f.mesh.region.pmin.dtype.kind), "renamed" if geom["dims"] else "default-dims",
                    units_tag(geom["units"]), "tol:" + ("default" if geom["tol"] is None else "0" if geom["tol"] == 0 else "custom"),
                    "name:" + ("default" if case.get("name") is None else "empty" if case["name"] == "" else "given"),
                    "field-unit:" + ("none" if fs["unit"] is None else "empty" if fs["unit"] == "" else "given")]
    if geom["dims"] and any(dd in XR_DIMS for dd in geom["dims"]):
        obs["tags"].append("dims:xarray-attribute-name")
    if geom["dims"] and "units" in geom["dims"]:
        obs["tags"].append("dims:units")
    if max(geom["n"]) >= 50:
        obs["tags"].append("long-axis:" + ("<1000" if max(geom["n"]) < 1000 else ">=1000"))
    if regime == "tol":
        obs["tags"].append(f"decade:{geom['scale_exp']}")
    obs["nontrivial"] = len(f.mesh) >= 2 and len(set(obs["field"]["data"])) > 1 and obs["imports"][0]["err"] is None


def unevenness(vals):
    """(largest |d - mean| / |mean|, largest |d - mean| / (1e-5|mean|)) exactly: the spacing test is purely relative"""
    v = [Fraction(float(x)) for x in vals]
    if len(v) < 2:
        return Fraction(0), Fraction(0)
    d = [b - a for a, b in zip(v, v[1:])]
    mean = sum(d) / len(d)
    dev = max(abs(x - mean) for x in d)
    rel = dev / abs(mean) if mean != 0 else Fraction(10 ** 9)
    return rel, rel * 10 ** 5


def run_uneven(case, obs, fail):
    geom, fs = case["geom"], case["fs"]
    f = build_field(geom, fs, case["sub"])
    rng = random.Random(case["sub"] ^ 0x5A5A)
    obs["field"] = field_json(f)
    xa = strip(export(f, {}), case["erase"])
    cand = [a for a, k in enumerate(f.mesh.n) if k >= 3]
    a = rng.choice(cand)
    d = f.mesh.region.dims[a]
    vals = xa[d].values.copy()
    j = rng.randrange(len(vals))
    vals[j] = vals[j] + float(Fraction(case["delta"])) * float(f.mesh.cell[a]) * rng.choice([-1, 1])
    attrs = dict(xa[d].attrs)
    xa2 = xa.assign_coords({d: vals})
    xa2[d].attrs = attrs
    rel, ratio = unevenness(xa2[d].values)
    obs["ratio"] = float(ratio)
    g, err = rec_import(obs, "uneven", xa2)
    # the threshold of the spacing test (rtol 1e-5) is an incidental constant no property pins: outcomes are only
    # compared on the two clear sides (more than a factor 3.3 away), so that a retuned constant stays quiet
    near = Fraction(3, 10) <= ratio <= Fraction(33, 10)
    obs["near"] = near
    if not near and rel > Fraction(1, 1000) and g is not None:
        fail(f"unevenly spaced coordinates accepted: {d} = {xa2[d].values.tolist()} (relative unevenness {float(rel):.3g}, "
             f"deviation/threshold {float(ratio):.3g}); mesh built: pmin={g.mesh.region.pmin.tolist()} n={g.mesh.n.tolist()}")
    if max(geom["n"]) >= 50:
        obs["tags"].append("uneven-long-axis")
    obs["tags"] += ["delta:" + case["delta"], f"regime:{geom['regime']}", "near-threshold-skipped" if near else ("rejected" if g is None else "accepted"),
                    "rel>1e-3" if rel > Fraction(1, 1000) else "rel<=1e-3"]
    obs["nontrivial"] = not near


def run_hand(case, obs, fail):
    rng = random.Random(case["sub"])
    rng2 = random.Random(case["sub"] ^ 0xB0CA)      # decisions added in round 2 (own stream: older cases replay unchanged)
    ndim = rng.choice([1, 2, 2, 3])
    if rng2.random() < 0.2:
        ndim = 4
    nv = rng.choice([1, 1, 2, 3])
    n = [rng.choice([1, 2, 3, 4, 5]) if rng.random() < 0.15 else rng.choice([2, 3, 4, 5]) for _ in range(ndim)]
    if rng2.random() < 0.1:             # single-cell axes (they REQUIRE the cell attribute), also the last one of a scalar array
        for a in rng2.sample(range(ndim), rng2.randint(1, ndim)):
            n[a] = 1
    dims = rng.sample(DIMS + XR_DIMS, ndim)
    h = [Fraction(rng.choice([1, 1, 3, 5]), 2 ** rng.randint(0, 3)) for _ in range(ndim)]
    v0 = [Fraction(rng.randint(-40, 40), 2 ** rng.randint(0, 2)) for _ in range(ndim)]
    integer = rng.random() < 0.3
    if integer:
        h = [Fraction(rng.choice([1, 1, 2, 3])) for _ in range(ndim)]
        v0 = [Fraction(rng.randint(-20, 20)) for _ in range(ndim)]
    zero = rng.random() < 0.12      # a region with a corner exactly at 0 on every axis: attributes that are present but falsy
    if zero:
        if integer:
            h = [Fraction(2)] * ndim
        n = [max(2, k) for k in n]
        v0 = [(x / 2 if rng.random() < 0.5 else -(k - 1) * x - x / 2) for x, k in zip(h, n)]
    coords = {}
    dropped = []
    bax = rng2.randrange(ndim) if rng2.random() < 0.12 and not zero else None
    if bax is not None:
        n[bax] = max(2, n[bax])         # the attributes will say n[bax] cells, the data and the coordinate have ONE entry there
    for a, d in enumerate(dims):
        if a != bax and rng.random() < 0.12:
            dropped.append(a)           # no coordinate: xarray indexes 0, 1, 2, …
            v0[a], h[a] = Fraction(0), Fraction(1)
            continue
        vals = [v0[a] + j * h[a] for j in range(1 if a == bax else n[a])]
        coords[d] = np.array([int(v) for v in vals]) if integer else np.array([float(v) for v in vals])
    desc = [d for d in coords if rng.random() < 0.06]    # evenly spaced but DESCENDING coordinates (model vs code only):
    for d in desc:                                       # refused without cell, taken unreordered with complete attrs
        coords[d] = coords[d][::-1].copy()
    shape = tuple(1 if a == bax else k for a, k in enumerate(n)) + ((nv,) if nv > 1 else ())
    data = np.array([rng.randint(-50, 50) / 2 for _ in range(int(np.prod(shape)))]).reshape(shape)
    xdims = dims + (["vdims"] if nv > 1 else [])
    labels = None
    if nv > 1 and rng.random() < 0.6:
        labels = rng.sample(LABELS, nv)
        if rng.random() < 0.08:
            labels[rng.randrange(nv)] = rng.choice(RESERVED)     # refused by the vdims setter (model vs code only)
        coords["vdims"] = labels
    attrs = dict(nvdim=nv)
    lo = [v0[a] - h[a] / 2 for a in range(ndim)]
    hi = [v0[a] + (n[a] - 1) * h[a] + h[a] / 2 for a in range(ndim)]
    mode = rng.choice(["none", "none", "consistent", "cell", "p", "inconsistent", "zero-corner"])
    if bax is not None:
        # complete attributes that contradict the DATA shape on one axis (one entry, the attributes say several cells): numpy
        # broadcasts the entry over the axis (np.full), model vs code only (import_ok_iff / import_values_formula)
        mode = "broadcast"
        attrs["cell"] = [float(x) for x in h]
        attrs["pmin"] = [float(x) for x in lo]
        attrs["pmax"] = [float(x) for x in hi]
    if mode in ("consistent", "cell"):
        attrs["cell"] = [float(x) for x in h]
    if mode in ("consistent", "p"):
        attrs["pmin"] = [float(x) for x in lo]
        attrs["pmax"] = [float(x) for x in hi]
    if mode == "inconsistent":
        k = rng.choice(["cell", "pmin", "pmax"])
        attrs[k] = [float(x) * rng.choice([2, 0.5]) + rng.choice([0, 1]) for x in (h if k == "cell" else lo if k == "pmin" else hi)]
    if mode == "zero-corner":
        # pmin (or pmax) = 0 on every axis although the coordinates say otherwise: a present attribute is used, falsy or not
        # (model vs code only; the edge / cell ratios stay >= 1/20 clear of the 0.1 % divisibility threshold)
        k = rng.choice(["pmin", "pmax"])
        attrs[k] = [0.0] * ndim
        if rng.random() < 0.5:
            attrs["cell"] = [float(x) for x in h]
    if rng.random() < 0.5:          # attributes as numpy arrays (as the exporter writes them) or as lists
        attrs = {k: (np.array(v) if isinstance(v, list) else v) for k, v in attrs.items()}
    xa = xr.DataArray(data, dims=xdims, coords=coords, attrs=attrs, name="hand")
    umode = rng.choice(["some", "some", "all", "all-odd", "one-empty"])
    for a, d in enumerate(dims):
        if d not in xa.coords:
            continue
        if umode == "some":
            if rng.random() < 0.4:
                xa[d].attrs["units"] = rng.choice(UNITS + ["", ""])
        elif umode == "all":
            xa[d].attrs["units"] = rng.choice(UNITS)
        else:
            xa[d].attrs["units"] = rng.choice(UNITS + ODD_UNITS)
    if umode == "one-empty" and any(d in xa.coords for d in dims):
        xa[rng.choice([d for d in dims if d in xa.coords])].attrs["units"] = ""
    g, err = rec_import(obs, "hand", xa)
    single = any(k == 1 for k in n)
    if labels is not None and attrs_of(labels):
        obs["tags"].append("reserved-label")
    elif desc:
        obs["tags"].append("descending:" + ("accepted" if g is not None else "rejected"))
    elif mode in ("none", "consistent", "cell", "p"):
        if single and "cell" not in attrs:
            if g is not None:
                fail(f"single-cell axis (n={n}) without cell attribute accepted")
        elif g is None:
            fail(f"hand-built DataArray with evenly spaced coordinates (n={n}, attrs {sorted(attrs)}) raised {err}")
        else:
            if [int(k) for k in g.mesh.n] != n:
                fail(f"rebuild: n {g.mesh.n.tolist()} instead of {n}")
            elif [Fraction(float(x)) for x in g.mesh.region.pmin] != lo or [Fraction(float(x)) for x in g.mesh.region.pmax] != hi:
                fail(f"rebuild: region {g.mesh.region.pmin.tolist()}..{g.mesh.region.pmax.tolist()} is not half a cell beyond the "
                     f"outermost centres {[float(x) for x in lo]}..{[float(x) for x in hi]}")
            if list(g.mesh.region.dims) != dims:
                fail(f"rebuild: dims {g.mesh.region.dims} instead of {dims}")
            src = data if nv > 1 else data[..., None]
            if g.array.shape != src.shape or toks(g.array) != toks(src):
                fail("rebuild: values differ from the DataArray's")
            if labels is not None and [str(v) for v in g.vdims] != labels:
                fail(f"rebuild: labels {g.vdims} instead of {labels}")
    ug = [xa[d].attrs.get("units") for d in dims if d in xa.coords]
    obs["tags"] += ["coord-units:" + ("none" if all(u is None for u in ug) else "partial" if any(u is None for u in ug) else units_tag(ug)[6:]),
                    "zero-corner" if zero else "corners-nonzero"]
    obs["tags"] += ["attrs:" + mode, f"hand-ndim:{ndim}", "int-coords" if integer else "float-coords", "dropped-coord" if dropped else "all-coords",
                    "single-cell-axis" if single else "n>=2", "accepted" if g is not None else "rejected"]
    obs["nontrivial"] = g is not None and int(np.prod(n)) >= 2


def run_bad(case, obs, fail):
    geom, fs, mut = case["geom"], case["fs"], case["mut"]
    rng = random.Random(case["sub"] ^ 0xBAD)
    if mut in ("no_vdims_dim", "dup_labels", "nvdim_mismatch", "transpose", "reserved_label") and fs["nvdim"] == 1:
        fs = dict(fs, nvdim=3, labels=None)
    if mut == "scalar_with_vdims_dim" and fs["nvdim"] == 1:
        fs = dict(fs, nvdim=2, labels=None)
    if mut == "dim_named_vdims":
        fs = dict(fs, nvdim=1, labels=None)
        base = geom["dims"] or [["x", "y", "z"][a] if len(geom["n"]) <= 3 else f"x{a}" for a in range(len(geom["n"]))]
        geom = dict(geom, dims=["vdims"] + list(base[1:]))
    if mut == "pmin_only_single":
        geom = dict(geom, n=[1] + list(geom["n"][1:]))
        lo = [Fraction(min(a, b)) for a, b in zip(geom["p1"], geom["p2"])]
        geom = dict(geom, p1=[float(a) for a in lo], p2=[float(a + Fraction(k, 2)) for a, k in zip(lo, geom["n"])])
    f = build_field(geom, fs, case["sub"])
    must_reject = False
    if mut == "export_badargs":
        which = rng.choice(["name", "unit", "name_none"])
        kw = {"name": 3} if which == "name" else {"unit": 5.0} if which == "unit" else {"name": None}
        obs["export_args"] = {"name": {"other": True}} if which == "name" else {"unit": {"other": True}} if which == "unit" else {"name": None}
        obs["field"] = field_json(f)
        try:
            f.to_xarray(**kw)
            obs["export_err"] = None          # (documented TypeError; not part of the property: model vs code only)
        except Exception as e:  # noqa: BLE001
            obs["export_err"] = type(e).__name__
        obs["tags"].append("mut:" + mut)
        obs["nontrivial"] = True
        return
    xa = export(f, {})
    nd = f.mesh.region.ndim
    d0 = f.mesh.region.dims[rng.randrange(nd)]
    other = False
    if mut == "no_nvdim":
        xa = strip(xa, ("nvdim",))
        must_reject = True
    elif mut == "nvdim_lt1":
        xa.attrs["nvdim"] = rng.choice([0, -1, -3])
        must_reject = True
    elif mut == "nvdim_float":
        xa.attrs["nvdim"] = rng.choice([float(f.nvdim), f.nvdim + 0.5, 0.5])
    elif mut == "nvdim_npint":
        xa.attrs["nvdim"] = np.int64(f.nvdim)
    elif mut == "no_vdims_dim":
        xa = xa.rename({"vdims": "comp"})
        must_reject = True
    elif mut == "not_dataarray":
        xa = rng.choice([xa.values, xa.to_dataset(name="field"), None, f, {"nvdim": 1}])
        other = True
        must_reject = True
    elif mut == "cell_len":
        c = list(np.asarray(xa.attrs["cell"]).tolist())
        xa.attrs["cell"] = c + [1.0] if rng.random() < 0.5 else (c[:-1] if len(c) > 1 else [])
    elif mut == "cell_scaled":
        xa.attrs["cell"] = [float(c) * rng.choice([2, 0.5, 3]) for c in xa.attrs["cell"]]
    elif mut == "pmax_shift":
        a = rng.randrange(nd)
        p = [float(x) for x in xa.attrs["pmax"]]
        p[a] += float(f.mesh.cell[a]) * rng.choice([1, 2, -1])
        xa.attrs["pmax"] = p
    elif mut == "swap_corners":
        xa.attrs["pmin"], xa.attrs["pmax"] = xa.attrs["pmax"], xa.attrs["pmin"]
    elif mut == "dup_labels":
        lab = [str(v) for v in xa["vdims"].values]
        lab[1] = lab[0]
        xa = xa.assign_coords(vdims=lab)
    elif mut == "nvdim_mismatch":
        xa.attrs["nvdim"] = f.nvdim + rng.choice([-1, 1])
    elif mut == "scalar_with_vdims_dim":
        xa.attrs["nvdim"] = 1
    elif mut == "transpose":
        xa = xa.transpose("vdims", ...)
    elif mut == "drop_coord":
        xa = strip(xa.drop_vars(d0), rng.choice([(), GEOM_ATTRS, ("cell",)]))
    elif mut == "dim_named_vdims":
        pass
    elif mut == "pmin_only_single":
        xa = strip(xa, rng.choice([("pmin",), ("pmax",), ("pmin", "pmax")]))
    elif mut == "reserved_label":
        # a label that is the name of a method / property / slot of Field: refused by the vdims setter's hasattr test
        lab = [str(v) for v in xa["vdims"].values] if "vdims" in xa.coords else rng.sample(LABELS, f.nvdim)
        lab[rng.randrange(len(lab))] = rng.choice(RESERVED)
        xa = xa.assign_coords(vdims=lab)
    elif mut == "cell_rounds_to_zero":
        # >= 1e15 cells from the origin the tolerant containment test of Mesh.__init__ lets a cell much larger than the
        # region through; round(edge / cell) = 0 is then refused by the constructor's last test (n >= 1).  All
        # thresholds on the way (1e-12 containment, 0.1 % divisibility) are passed with a margin >= 2.
        lo, w, c = rng.choice([(1e15, 0.125, 512.0), (1e16, 2.0, 4096.0), (1e17, 16.0, 32768.0), (-1e16, 2.0, 4096.0)])
        xa = xr.DataArray(np.zeros((1,)), dims=["x"], coords={"x": [lo]}, name="far",
                          attrs=dict(nvdim=1, cell=[c], pmin=[lo], pmax=[lo + w]))
    g, err = rec_import(obs, mut, xa, other=other)
    if must_reject and g is not None:
        fail(f"{mut}: accepted (must be rejected)")
    if mut == "pmin_only_single":
        if g is None:
            fail(f"single-cell axis with cell attribute kept raised {err}")
        else:
            mesh_matches(g, f, Fraction(0), fail, "single-cell axis, corners from coordinates and cell")
    obs["tags"] += ["mut:" + mut + (":accepted" if g is not None else ":rejected")]
    obs["nontrivial"] = True


def run_impl(case):
    obs = {"oracle": [], "tags": ["kind:" + case["kind"]], "imports": []}
    fail = obs["oracle"].append
    {"rt": run_rt, "uneven": run_uneven, "hand": run_hand, "bad": run_bad}[case["kind"]](case, obs, fail)
    return obs


# --------------------------------------------------------------------------- model side
def model_requests(case, obs):
    reqs = []
    if case.get("nomodel"):
        return reqs
    if "xa" in obs:
        r = dict(op="export", field=obs["field"], attrs=attrs_of(obs["field"]["vdims"]))
        if case.get("name") is not None:
            r["name"] = case["name"]
        if case.get("unit") is not None:
            r["unit"] = case["unit"]
        reqs.append(r)
    if "hist" in obs:
        r = dict(op="export_hist", field=obs["field0"], ops=obs["hist"], attrs=attrs_of(obs["field0"]["vdims"]))
        if case.get("name") is not None:
            r["name"] = case["name"]
        if case.get("unit") is not None:
            r["unit"] = case["unit"]
        reqs.append(r)
    if "export_args" in obs:
        reqs.append(dict(op="export", field=obs["field"], **obs["export_args"]))
    for imp in obs["imports"]:
        reqs.append(dict(op="import", xa=imp["xa"], attrs=attrs_of(imp["xa"]["vdims"])) if imp["xa"] is not None else dict(op="import"))
    return reqs


def cmp_rats(name, a, b, bnd, dis):
    if (a is None) != (b is None):
        dis.append(f"{name}: impl {a} vs model {b}")
        return
    if a is None:
        return
    if len(a) != len(b) or any(abs(F(x) - F(y)) > bnd for x, y in zip(a, b)):
        dis.append(f"{name}: impl {a} vs model {b}")


def cmp_xa(ix, mx, bnd, dis):
    for key in ("name", "vdims", "shape", "dtype"):
        if ix[key] != mx[key]:
            dis.append(f"export {key}: impl {ix[key]} vs model {mx[key]}")
    if [a["name"] for a in ix["axes"]] != mx["dims"] or [a["size"] for a in ix["axes"]] != [a["size"] for a in mx["axes"]]:
        dis.append(f"export dims/sizes: impl {[(a['name'], a['size']) for a in ix['axes']]} vs model {[(a['name'], a['size']) for a in mx['axes']]}")
        return
    for a, b in zip(ix["axes"], mx["axes"]):
        if (a["coord"] is None) != (b["coord"] is None):
            dis.append(f"export coordinate of {a['name']}: impl {a['coord']} vs model {b['coord']}")
        elif a["coord"] is not None:
            cmp_rats(f"export coordinate of {a['name']}", a["coord"]["vals"], b["coord"]["vals"], bnd, dis)
            if a["coord"]["units"] != b["coord"]["units"]:
                dis.append(f"export units of {a['name']}: impl {a['coord']['units']} vs model {b['coord']['units']}")
    if ix["data"] != mx["data"]:
        dis.append("export data tokens differ")
    ia, ma = ix["attrs"], mx["attrs"]
    for key in ("cell", "pmin", "pmax"):
        cmp_rats(f"export attr {key}", ia[key], ma[key], bnd, dis)
    if ia["units"] != ma["units"] or ia["nvdim"] != ma["nvdim"]:
        dis.append(f"export attrs units/nvdim: impl {ia['units']},{ia['nvdim']} vs model {ma['units']},{ma['nvdim']}")
    if (ia["tol"] is None) != (ma["tol"] is None) or (ia["tol"] is not None and F(ia["tol"]) != F(ma["tol"])):
        dis.append(f"export attr tolerance_factor: impl {ia['tol']} vs model {ma['tol']}")


def cmp_fld(name, fi, fm, bnd, dis):
    ri, rm = fi["mesh"]["region"], fm["mesh"]["region"]
    if fi["mesh"]["n"] != fm["mesh"]["n"]:
        dis.append(f"{name}: n impl {fi['mesh']['n']} vs model {fm['mesh']['n']}")
        return
    cmp_rats(f"{name}: pmin", ri["pmin"], rm["pmin"], bnd, dis)
    cmp_rats(f"{name}: pmax", ri["pmax"], rm["pmax"], bnd, dis)
    for key in ("dims", "units"):
        if ri[key] != rm[key]:
            dis.append(f"{name}: {key} impl {ri[key]} vs model {rm[key]}")
    if F(ri["tol"]) != F(rm["tol"]):
        dis.append(f"{name}: tolerance_factor impl {ri['tol']} vs model {rm['tol']}")
    if fi["mesh"]["bc"] != fm["mesh"]["bc"] or len(fi["mesh"]["subs"]) != len(fm["mesh"]["subs"]):
        dis.append(f"{name}: bc/subregions differ")
    for key in ("nvdim", "shape", "vdims", "unit", "dtype", "valid"):
        if fi[key] != fm[key]:
            dis.append(f"{name}: {key} impl {fi[key]} vs model {fm[key]}")
    if sorted(map(tuple, fi["vmap"])) != sorted(map(tuple, fm["vmap"])):
        dis.append(f"{name}: vdim_mapping impl {fi['vmap']} vs model {fm['vmap']}")
    if fi["data"] != fm["data"]:
        k = next((i for i, (x, y) in enumerate(zip(fi["data"], fm["data"])) if x != y), -1)
        dis.append(f"{name}: data differ (first at flat position {k})")


def case_bound(case, obs):
    if case["kind"] == "hand" or (case.get("geom", {}).get("regime") == "exact" and case["kind"] != "uneven"):
        return Fraction(0)      # (a shifted coordinate makes the arithmetic inexact even on dyadic geometry)
    r = obs.get("field", {}).get("mesh", {}).get("region")
    if r is None:
        return Fraction(0)
    lo, hi = [F(x) for x in r["pmin"]], [F(x) for x in r["pmax"]]
    return 16 * U * max([abs(x) for x in lo + hi] + [b - a for a, b in zip(lo, hi)])


def hist_bound(case, obs, bnd):
    """bound for the export after an in-place history replayed by the model from the state BEFORE it: every call rounds at the
    magnitude the geometry has at that moment and later factors multiply the error, so the bound is taken at the largest
    magnitude on the way (start and end geometry, translation vectors; x the product of the factors >= 1), not at the end
    state alone (a translation that lands next to the origin cancels most of the magnitude, not the rounding error)"""
    if bnd == 0:
        return bnd
    r0 = obs["field0"]["mesh"]["region"]
    lo, hi = [F(x) for x in r0["pmin"]], [F(x) for x in r0["pmax"]]
    mag = max([abs(x) for x in lo + hi] + [b - a for a, b in zip(lo, hi)])
    grow = Fraction(1)
    for op in obs["hist"]:
        if op["op"] == "translate":
            mag += max([abs(F(x)) for x in op["v"]] + [Fraction(0)])
        else:
            fs = op["f"] if isinstance(op["f"], list) else [op["f"]]
            grow *= max([Fraction(1)] + [2 * abs(F(x)) + 1 for x in fs])       # |ref + f (p - ref)| <= (2|f| + 1) max(|p|, |ref|)
    return max(bnd, 16 * U * mag * grow)


def compare(case, obs, rs):
    dis = []
    if case.get("nomodel"):
        return dis
    bnd = case_bound(case, obs)
    pos = 0
    if "xa" in obs:
        r = rs[pos]
        pos += 1
        if "ok" not in r:
            dis.append(f"export: impl ok vs model {r}")
        else:
            if r.get("wf") is not True:
                dis.append("the real field does not satisfy the model's well-formedness predicate (hypothesis of the theorems)")
            cmp_xa(obs["xa"], r["ok"], bnd, dis)
    if "hist" in obs:       # the model's in-place calls on the mesh (T.stepM) followed by the model's export vs the real export
        r = rs[pos]
        pos += 1
        if "ok" not in r:
            dis.append(f"export after in-place history {obs['hist']}: impl ok vs model {r}")
        else:
            if r.get("wf") is not True:
                dis.append("the model's field after the in-place history is not well-formed")
            tmp = []
            cmp_xa(obs["xa"], r["ok"], hist_bound(case, obs, bnd), tmp)
            dis += [f"after the in-place history {obs['hist']}: {d}" for d in tmp]
    if "export_args" in obs:
        r = rs[pos]
        pos += 1
        if ("ok" in r) != (obs["export_err"] is None):
            dis.append(f"to_xarray with bad arguments: impl {'ok' if obs['export_err'] is None else obs['export_err']} vs model {list(r)}")
    for imp, r in zip(obs["imports"], rs[pos:]):
        if case["kind"] == "uneven" and obs.get("near"):
            continue
        m_ok = "ok" in r
        if m_ok != (imp["err"] is None):
            marg = [F(x) for x in r.get("margin", [])]
            if any(Fraction(3, 10) <= x <= Fraction(33, 10) for x in marg):
                continue    # on the spacing threshold: either outcome
            dis.append(f"import[{imp['name']}]: impl {'ok' if imp['err'] is None else 'err ' + imp['err']} vs model {'ok' if m_ok else r}")
        elif m_ok:
            cmp_fld(f"import[{imp['name']}]", imp["field"], r["ok"], bnd, dis)
    return dis


def nontrivial(case, obs):
    return bool(obs.get("nontrivial"))


def known(case, text):
    # D117 (only generated with VERIF_C17_DIM_UNITS=1): a dimension called "units" - `xa[i].units` is the coordinate, not the attribute
    if "units" in (case.get("geom", {}).get("dims") or []) and "TypeError" in text:
        return None   # was finding D119 (fixed in /repo 5d7e5dea): nothing is excused any more
    # D81: labels survive only for labelled vector fields and unlabelled scalar fields: a vector field without labels
    # (vdims=[]) comes back with the default labels, a scalar field with a label comes back without
    if case["kind"] == "rt" and text.startswith("labels changed:"):
        fs = case["fs"]
        if (fs["nvdim"] > 1 and fs["labels"] == []) or (fs["nvdim"] == 1 and fs["labels"]):
            return "D81"
    return None


def search(case, rng):
    for _ in range(200):
        g = gen_geom(rng, "quick", "exact")
        yield dict(kind="rt", geom=g, fs=gen_fieldspec(rng, g, False), sub=rng.getrandbits(32), name=None, unit=None)
