"""Which properties are claimed: one harness/reg/Cxx.json per claimed property
({"text": ..., "note": ..., "technique": ...}); everything else is listed under not_applicable."""
import glob
import json
import os

HERE = os.path.dirname(os.path.abspath(__file__))
NOTE = ("Trusted: Lean 4.33 kernel; axioms propext, Classical.choice, Quot.sound only (audited by #print axioms on "
        "every theorem each run; no sorry/native_decide/bv_decide/own axioms); the hand-written model is tied to /repo by "
        "the correspondence run (harness + driver JSON glue are trusted); theorems are about exact rational arithmetic, "
        "binary64 rounding is covered by tolerance/boundary comparators only; ")

# only properties the lead has accepted (harness/reg/READY, one id per line) are claimed
READY = set(open(os.path.join(HERE, "reg", "READY")).read().split())
CLAIMED = {}
for path in sorted(glob.glob(os.path.join(HERE, "reg", "C*.json"))):
    pid = os.path.basename(path)[:-5]
    if pid in READY and os.path.exists(os.path.join(HERE, pid.lower() + ".py")):
        d = json.load(open(path))
        if not d.get("note", "").startswith("Trusted:"):
            d["note"] = NOTE + d.get("note", "")
        CLAIMED[pid] = d

_PENDING = ("machinery for this property not built yet (model + theorems + correspondence are planned, see DESIGN.md "
            "section 6); not claimed until its check exists")
NOT_APPLICABLE = {f"C{i:02d}": _PENDING for i in range(1, 21) if f"C{i:02d}" not in CLAIMED}
