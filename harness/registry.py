"""Which properties are claimed (with the text that goes into MANIFEST.json)."""
NOTE = ("Trusted: Lean 4.33 kernel; axioms propext, Classical.choice, Quot.sound only (audited by #print axioms on "
        "every theorem each run; no sorry/native_decide/bv_decide/own axioms); the hand-written model is tied to /repo by "
        "the correspondence run (harness + driver JSON glue are trusted); theorems are about exact rational arithmetic, "
        "binary64 rounding is covered by tolerance/boundary comparators only; ")

CLAIMED = {
    "C01": dict(
        text="Theorems for all dimensions/regions/counts/indices/points: n*cell=edge, centre formula, index->centre->index "
             "identity, containment of a point in its cell (lower face inclusive, last cell closed), cell disjointness, on the "
             "rational model of Region/Mesh; model tied to the code by exact-regime equality and tolerance-regime comparison "
             "of every observable of Mesh/Region named by the property.",
        note=NOTE + "NumPy floor/clip/linspace/isclose modelled by their documented contract."),
    "C04": dict(
        text="Theorems for every line length, mask, run position, step h and data: segment lemma (each maximal run of valid "
             "cells is differentiated on its own; delimiters give 0; prefix/suffix independent), locality, short runs zero, "
             "exactness of both stencils on polynomials of the admissible degree at every position of a run of any length, "
             "linearity of the whole split-differentiate-combine pass, centred wrap-around differences and shift-equivariance on "
             "fully valid rings; model tied to operators._split_diff_combine and Field.diff by exact equality on all masks up to "
             "L=8/12 and on random n-d fields.",
        note=NOTE + "np.gradient/np.convolve/np.pad(wrap) modelled by contract; ring_shift for masked rings is false of the code (known finding D17)."),
}

_PENDING = "machinery for this property not built yet in this round (model + theorems + correspondence are planned, see DESIGN.md section 6); not claimed until its check exists"
NOT_APPLICABLE = {f"C{i:02d}": _PENDING for i in range(1, 21) if f"C{i:02d}" not in CLAIMED}
