"""Which properties are claimed (with the text that goes into MANIFEST.json)."""
NOTE = ("Trusted: Lean 4.33 kernel; axioms propext, Classical.choice, Quot.sound only (audited by #print axioms on "
        "every theorem each run; no sorry/native_decide/bv_decide/own axioms); the hand-written model is tied to /repo by "
        "the correspondence run (harness + driver JSON glue are trusted); theorems are about exact rational arithmetic, "
        "binary64 rounding is covered by tolerance/boundary comparators only; ")

CLAIMED = {
    "C01": dict(
        text="Theorems for all dimensions/regions/counts/indices/points: n*cell=edge, centre formula, index->centre->index "
             "identity, containment of a point in its cell (lower face inclusive, last cell closed), cell disjointness, on the "
             "rational model of Region/Mesh; model tied to the code by exact-regime equality and tolerance-regime comparison "
             "of every observable of Mesh/Region named by the property.",
        note=NOTE + "NumPy floor/clip/linspace/isclose modelled by their documented contract."),
}

_PENDING = "machinery for this property not built yet in this round (model + theorems + correspondence are planned, see DESIGN.md section 6); not claimed until its check exists"
NOT_APPLICABLE = {f"C{i:02d}": _PENDING for i in range(1, 21) if f"C{i:02d}" not in CLAIMED}
