"""Core of the correspondence harness: Lean build + axiom audit, driver I/O, exact-rational
helpers, run bookkeeping, evidence, replays, known findings.

Every property module `harness/cNN.py` provides

    PID, THEOREM_FILE (optional, default Props/<PID>.lean)
    cases(rng, tier)            -> iterable of JSON-serialisable case dicts
    run_impl(case)              -> obs dict; obs["oracle"] is a list of property-level failures
                                   found on the real code alone (strings), obs["tags"] a list
                                   of branch/distribution tags
    model_requests(case, obs)   -> list of driver requests (dicts with "op")
    compare(case, obs, resps)   -> list of disagreement strings (model vs code)
    nontrivial(case, obs)       -> bool
    known(case, failure_text)   -> id of a known finding this failure belongs to, or None
    search(case, rng)           -> optional: neighbouring cases to try when model and code
                                   disagree but the oracle passes
    RULE, TRUSTED, ASSUMPTIONS, UNPROVED (strings / lists for the evidence file)
"""
import hashlib
import json
import os
import random
import re
import subprocess
import sys
import time
import traceback
from fractions import Fraction

VERIF = os.path.dirname(os.path.dirname(os.path.abspath(__file__)))
LEAN = os.path.join(VERIF, "lean")
REPO = os.environ.get("VERIF_REPO", "/repo")
ALLOWED_AXIOMS = {"propext", "Classical.choice", "Quot.sound"}
FORBIDDEN = re.compile(
    r"\bsorry\b|\badmit\b|^\s*axiom\s|native_decide|bv_decide|implemented_by|\bunsafe\s|maxHeartbeats\s+0\b"
)

os.environ.setdefault("PYTHONDONTWRITEBYTECODE", "1")
os.environ.setdefault("MPLBACKEND", "Agg")
os.environ.setdefault("UBERMAG_DISCRETISEDFIELD_VERIF", "1")
if REPO not in sys.path:
    sys.path.insert(0, REPO)


class MachineryError(Exception):
    """The checking machinery itself is broken (exit 2, never a VIOLATION)."""


class SkipCase(Exception):
    """The case cannot be run against this checkout for a reason that says nothing about the property (a private helper
    the harness calls directly has been renamed or removed): the case is counted as skipped, never as a failure."""


def private(obj, name):
    """`getattr(obj, name)` for names that are not public API: a harmless refactoring may rename them"""
    try:
        return getattr(obj, name)
    except AttributeError:
        raise SkipCase(f"private helper {getattr(obj, '__name__', type(obj).__name__)}.{name} is not available") from None


# --------------------------------------------------------------------------- rationals
class NonFinite(ValueError):
    """The implementation produced nan/inf where the comparator needs a rational."""


def Q(x):
    """Exact rational string of an int / float / Fraction / numpy scalar ("nan"/"inf"/"-inf" for
    non-finite floats: equal to no rational string; `F` raises NonFinite on them)."""
    try:
        if x != x or x in (float("inf"), float("-inf")):
            return "nan" if x != x else ("inf" if x > 0 else "-inf")
    except Exception:
        pass
    if isinstance(x, Fraction):
        f = x
    elif isinstance(x, bool):
        f = Fraction(int(x))
    elif isinstance(x, int):
        f = Fraction(x)
    else:
        try:
            import numpy as np

            if isinstance(x, np.integer):
                f = Fraction(int(x))
            elif isinstance(x, (np.floating, float)):
                f = Fraction(float(x))
            else:
                f = Fraction(x)
        except TypeError:
            f = Fraction(float(x))
    return str(f.numerator) if f.denominator == 1 else f"{f.numerator}/{f.denominator}"


def Qs(xs):
    return [Q(x) for x in xs]


def F(s):
    """Fraction of a driver rational string (or JSON int)."""
    if isinstance(s, str) and s in ("nan", "inf", "-inf"):
        raise NonFinite(s)
    if isinstance(s, float) and (s != s or s in (float("inf"), float("-inf"))):
        raise NonFinite(repr(s))
    return Fraction(s)


def Fs(xs):
    return [F(x) for x in xs]


def nested_F(x):
    if isinstance(x, list):
        return [nested_F(y) for y in x]
    return F(x)


def exact_eq(impl_val, model_val):
    """impl float/int == model rational, exactly."""
    try:
        return Fraction(impl_val) == F(model_val)
    except (ValueError, OverflowError, TypeError):
        return False


def close(impl_val, model_val, rel=2**-40, scale=0.0, abs_=0.0):
    """|impl - model| <= rel * max(|model|, scale) + abs_ (model exact)."""
    try:
        a = Fraction(float(impl_val))
    except (ValueError, OverflowError):
        return False
    b = F(model_val)
    return abs(a - b) <= Fraction(rel) * max(abs(b), Fraction(scale)) + Fraction(abs_)


def dyadic(rng, lo=-64, hi=64, bits=3):
    """k * 2^-m with small mantissa: exactly representable, exact under + - * by small ints."""
    return Fraction(rng.randint(lo, hi), 2 ** rng.randint(0, bits))


# --------------------------------------------------------------------------- lean side
def sh(cmd, cwd=None, timeout=3600, env=None):
    p = subprocess.run(cmd, cwd=cwd, shell=isinstance(cmd, str), capture_output=True, text=True,
                       timeout=timeout, env=env)
    return p.returncode, p.stdout, p.stderr


def lean_sources(pid=None):
    """Lean files a property's proofs and driver depend on (transitive `import DFV.*` closure of
    Props/<pid>, Drv/<pid>, Main/<pid>); all DFV files when pid is None."""
    if pid is None:
        out = []
        for root, _, files in os.walk(os.path.join(LEAN, "DFV")):
            out += [os.path.join(root, f) for f in files if f.endswith(".lean")]
        return sorted(out)
    seen, todo = set(), [f"DFV.Props.{pid}", f"DFV.Drv.{pid}", f"Main.{pid}"]
    while todo:
        mod = todo.pop()
        path = os.path.join(LEAN, *mod.split(".")) + ".lean"
        if path in seen or not os.path.exists(path):
            continue
        seen.add(path)
        for m in re.finditer(r"^\s*import\s+((?:DFV|Main)\.[\w.]+)", open(path).read(), flags=re.M):
            todo.append(m.group(1))
    return sorted(seen)


def strip_comments(src):
    src = re.sub(r"/-.*?-/", "", src, flags=re.S)
    src = re.sub(r"--.*", "", src)
    return src


def grep_forbidden(pid=None):
    hits = []
    for path in lean_sources(pid):
        for i, line in enumerate(strip_comments(open(path).read()).splitlines(), 1):
            if FORBIDDEN.search(line):
                hits.append(f"{os.path.relpath(path, LEAN)}:{i}: {line.strip()}")
    return hits


def theorem_names(props_file):
    """Fully qualified names of the theorems declared in a Props file."""
    src = strip_comments(open(props_file).read())
    ns, names = [], []
    for line in src.splitlines():
        m = re.match(r"\s*namespace\s+(\S+)", line)
        if m:
            ns.append(m.group(1))
            continue
        m = re.match(r"\s*end\s+(\S+)", line)
        if m and ns and ns[-1] == m.group(1):
            ns.pop()
            continue
        m = re.match(r"\s*(?:@\[[^\]]*\]\s*)?(?:private\s+|protected\s+)?theorem\s+([^\s:({\[]+)", line)
        if m:
            names.append(".".join(ns + [m.group(1)]))
    return names


def build_and_audit(pid, leanchecker=False):
    """lake build Props + driver, `#print axioms` on every property theorem.

    Returns dict(obligations, discharged, theorems, axioms, checker_cmd)."""
    t0 = time.time()
    rc, out, err = sh(["lake", "build", f"DFV.Props.{pid}", f"drv_{pid.lower()}"], cwd=LEAN, timeout=3000)
    if rc != 0:
        raise MachineryError(f"lake build failed for DFV.Props.{pid}:\n{out[-3000:]}\n{err[-2000:]}")
    hits = grep_forbidden(pid)
    if hits:
        raise MachineryError("forbidden tokens in Lean sources:\n" + "\n".join(hits))
    props = os.path.join(LEAN, "DFV", "Props", f"{pid}.lean")
    names = theorem_names(props)
    if not names:
        raise MachineryError(f"no theorems found in {props}")
    adir = os.path.join(LEAN, ".lake", "audit")
    os.makedirs(adir, exist_ok=True)
    afile = os.path.join(adir, f"{pid}.lean")
    with open(afile, "w") as f:
        f.write(f"import DFV.Props.{pid}\n")
        for n in names:
            f.write(f"#print axioms {n}\n")
    rc, out, err = sh(["lake", "env", "lean", afile], cwd=LEAN, timeout=1200)
    if rc != 0:
        raise MachineryError(f"axiom audit failed for {pid}:\n{out[-3000:]}\n{err[-2000:]}")
    axioms = {}
    text = out.replace("\n  ", " ")
    for m in re.finditer(r"'(\S+)' depends on axioms: \[([^\]]*)\]", text):
        axioms[m.group(1)] = [a.strip() for a in m.group(2).replace("\n", " ").split(",") if a.strip()]
    for m in re.finditer(r"'(\S+)' does not depend on any axioms", text):
        axioms[m.group(1)] = []
    discharged, bad = 0, []
    for n in names:
        if n not in axioms:
            bad.append(f"{n}: no audit line")
        elif set(axioms[n]) - ALLOWED_AXIOMS:
            bad.append(f"{n}: axioms {axioms[n]}")
        else:
            discharged += 1
    if bad:
        raise MachineryError("axiom audit: " + "; ".join(bad))
    res = dict(obligations=len(names), discharged=discharged, theorems=names,
               axioms_used=sorted({a for n in names for a in axioms[n]}),
               checker_cmd=f"cd lean && lake build DFV.Props.{pid} && lake env lean .lake/audit/{pid}.lean  (#print axioms on {len(names)} theorems)",
               lean_s=round(time.time() - t0, 2))
    if leanchecker:
        t1 = time.time()
        rc, out, err = sh(["lake", "env", "leanchecker", f"DFV.Props.{pid}"], cwd=LEAN, timeout=3000)
        res["leanchecker"] = "ok" if rc == 0 else f"failed rc={rc}: {(out + err)[-500:]}"
        res["leanchecker_s"] = round(time.time() - t1, 1)
        if rc != 0:
            raise MachineryError(f"leanchecker failed for DFV.Props.{pid}: {(out + err)[-1500:]}")
    return res


def driver(requests, pid):
    """Run the compiled model driver of property `pid` on a list of request dicts."""
    if not requests:
        return []
    exe = os.path.join(LEAN, ".lake", "build", "bin", f"drv_{pid.lower()}")
    if not os.path.exists(exe):
        rc, out, err = sh(["lake", "build", f"drv_{pid.lower()}"], cwd=LEAN, timeout=3000)
        if rc != 0:
            raise MachineryError("cannot build driver: " + out[-2000:] + err[-2000:])
    data = "\n".join(json.dumps(r, separators=(",", ":")) for r in requests) + "\n"
    p = subprocess.run([exe], input=data, capture_output=True, text=True, timeout=3000)
    if p.returncode != 0:
        raise MachineryError(f"driver exited {p.returncode}: {p.stderr[-2000:]}")
    lines = p.stdout.splitlines()
    if len(lines) != len(requests):
        raise MachineryError(f"driver returned {len(lines)} lines for {len(requests)} requests")
    out = []
    for req, line in zip(requests, lines):
        r = json.loads(line)
        if isinstance(r, dict) and "bad" in r:
            raise MachineryError(f"driver rejected request {json.dumps(req)[:400]}: {r['bad']}")
        out.append(r)
    return out


# --------------------------------------------------------------------------- findings
def load_known():
    path = os.path.join(VERIF, "known_findings.json")
    if not os.path.exists(path):
        return []
    return json.load(open(path))["findings"]


def case_hash(case):
    return hashlib.sha1(json.dumps(case, sort_keys=True, default=str).encode()).hexdigest()[:12]


def jsonable(x):
    try:
        import numpy as np
    except ImportError:  # pragma: no cover
        np = None
    if isinstance(x, dict):
        return {str(k): jsonable(v) for k, v in x.items()}
    if isinstance(x, (list, tuple)):
        return [jsonable(v) for v in x]
    if isinstance(x, Fraction):
        return Q(x)
    if np is not None:
        if isinstance(x, np.ndarray):
            return jsonable(x.tolist())
        if isinstance(x, np.generic):
            return x.item()
    if isinstance(x, complex):
        return [x.real, x.imag]
    if isinstance(x, (str, int, float, bool)) or x is None:
        return x
    return repr(x)


# --------------------------------------------------------------------------- main runner
def _noobs(obs):
    """no observables to compare with the model (the adapter raised, the case was skipped, or it is a witness)"""
    return any(t in obs.get("tags", []) for t in ("adapter-crash", "no-observables"))


def run_property(mod, tier, seed, replay=None, budget_s=None):
    pid = mod.PID
    t0 = time.time()
    audit = build_and_audit(pid, leanchecker=(tier == "thorough" and replay is None))
    rng = random.Random(seed * 1000003 + int(pid[1:]))
    known = [k for k in load_known() if k["property"] == pid]
    open_ids = {k["id"] for k in known if k["status"] == "open"}

    corpus_dir = os.path.join(VERIF, "harness", "corpus", pid)
    cases = []
    if replay:
        rp = json.load(open(replay))
        cases = [dict(rp["case"], _src="replay")]
    else:
        if os.path.isdir(corpus_dir):
            for f in sorted(os.listdir(corpus_dir)):
                if f.endswith(".json"):
                    cases.append(dict(json.load(open(os.path.join(corpus_dir, f))), _src="corpus:" + f))
        # the witnesses of earlier findings of this property (harness/witnesses.py) run first: a fixed defect that comes
        # back is reported with its witness as the replay
        from harness import witnesses
        fixed_ids = {k["id"] for k in known if k["status"] == "fixed"}
        for wid, (wp, _) in witnesses.ALL.items():
            if wp == pid and wid in fixed_ids:
                cases.append(dict(witness=wid, _src="witness:" + wid))
        ncorp = len(cases)
        gen = []
        for c in mod.cases(rng, tier):
            c.setdefault("_src", "gen")
            gen.append(c)
        # cases are independent of one another; a fixed shuffle makes a run that is cut short by its time budget
        # (loaded machine) lose a random subset instead of the streams its generator happens to yield last
        random.Random(seed * 7919 + 17).shuffle(gen)
        cases += gen

    budget = budget_s or getattr(mod, "BUDGET", {}).get(tier) or (100 if tier == "quick" else 1500)
    records = []  # (case, obs, requests)
    tags = {}
    evaluations = 0
    truncated = False
    from harness import aging
    age_every = int(os.environ.get("VERIF_AGE_EVERY", "5")) if getattr(mod, "AGING", True) else 0
    aged_runs = 0
    aged_time = 0.0

    def run_one(case):
        if case.get("witness"):
            from harness import witnesses
            try:
                r = witnesses.ALL[case["witness"]][1]()
            except Exception as e:
                r = f"witness raised {type(e).__name__}: {e}"
            return {"oracle": [] if r is None else [f"witness of fixed finding {case['witness']} fails again: {r}"],
                    "tags": ["no-observables", "witness:" + case["witness"]]}
        try:
            if case.get("_aged"):
                aging.reset(int(case_hash(jsonable({k: v for k, v in case.items() if not k.startswith("_")})), 16))
            with aging.aging(bool(case.get("_aged"))):
                aging.take_failures()
                obs = mod.run_impl(case)
            for t in aging.take_failures():      # an in-place detour that is exact for this object did not bring it back
                obs.setdefault("oracle", []).append("aged object: " + t)
            return obs
        except MachineryError:
            raise
        except SkipCase as e:   # says nothing about the property: no observables, no failure
            return {"oracle": [], "tags": ["adapter-crash", "skipped:" + str(e)]}
        except Exception as e:  # adapter crashed: treat as an oracle failure with traceback
            return {"oracle": [f"adapter raised {type(e).__name__}: {e}"], "tags": ["adapter-crash"],
                    "trace": traceback.format_exc()[-1500:]}

    for idx, case0 in enumerate(cases):
        if time.time() - t0 > budget and not replay:
            truncated = True
            break
        todo = [case0]
        if (age_every and not replay and not case0.get("_aged") and idx % age_every == age_every - 1
                and aged_time < 0.15 * budget):
            # the same case once more on aged objects (harness/aging.py): same inputs, other history
            todo.append(dict(case0, _aged=True, _src=str(case0.get("_src", "gen")) + "+aged"))
        for case in todo:
            t_case = time.time()
            obs = run_one(case)
            evaluations += 1
            if case.get("_aged"):
                aged_runs += 1
                aged_time += time.time() - t_case
                obs.setdefault("tags", []).append("aged-objects")
            for tg in obs.get("tags", []):
                tags[tg] = tags.get(tg, 0) + 1
            # an adapter that raised has no observables: the failure is reported, nothing is sent to the model
            reqs = [] if _noobs(obs) else mod.model_requests(case, obs)
            records.append((case, obs, reqs))

    flat = [r for _, _, reqs in records for r in reqs]
    resps = driver(flat, pid)
    pos = 0
    failures = []  # dict(case, kind, text)
    distinct = set()
    model_calls = 0
    for case, obs, reqs in records:
        rs = resps[pos:pos + len(reqs)]
        pos += len(reqs)
        model_calls += len(reqs)
        for r in rs:
            if isinstance(r, dict):
                for tg in r.get("tags", []) if isinstance(r.get("tags"), list) else []:
                    tags["model:" + tg] = tags.get("model:" + tg, 0) + 1
        try:
            dis = [] if _noobs(obs) else mod.compare(case, obs, rs)
        except MachineryError:
            raise
        except NonFinite as e:      # a non-finite number where the model has a rational is a disagreement, not a crash
            dis = [f"the implementation produced a non-finite number ({e}) where the model has a rational: "
                   f"{traceback.format_exc().strip().splitlines()[-3][:200]}"]
        except Exception as e:
            raise MachineryError(f"comparator crashed on case {json.dumps(jsonable(case))[:600]}: "
                                 f"{traceback.format_exc()[-1500:]}") from e
        for text in obs.get("oracle", []):
            failures.append(dict(case=case, kind="oracle", text=text))
        for text in dis:
            failures.append(dict(case=case, kind="correspondence", text=text))
        if not _noobs(obs) and mod.nontrivial(case, obs):
            c2 = {k: v for k, v in case.items() if not k.startswith("_")}
            distinct.add(case_hash(jsonable(c2)))

    # ---- classify failures
    known_seen, violations = {}, []
    for f in failures:
        kid = mod.known(f["case"], f["text"]) if hasattr(mod, "known") and "witness" not in f["case"] else None
        if kid and kid in open_ids:
            known_seen.setdefault(kid, f)
        else:
            violations.append(f)

    # ---- failing-input search for correspondence-only disagreements
    out_lines = []
    rdir = os.path.join(VERIF, "replays")
    reported = []
    if violations:
        os.makedirs(rdir, exist_ok=True)
        # group by case; prefer oracle failures (they are failing inputs on the real code)
        bycase = {}
        for f in violations:
            bycase.setdefault(case_hash(jsonable({k: v for k, v in f["case"].items() if not k.startswith("_")})), []).append(f)
        have_oracle = [h for h, fs in bycase.items() if any(x["kind"] == "oracle" for x in fs)]
        chosen = have_oracle[:1]
        found_by_search = None
        if not chosen:
            # model and code disagree but the property oracle passed: search neighbours
            h0, fs0 = next(iter(bycase.items()))
            if hasattr(mod, "search") and not replay:
                t1 = time.time()
                for c2 in mod.search(fs0[0]["case"], rng):
                    if time.time() - t1 > (60 if tier == "quick" else 300):
                        break
                    o2 = run_one(c2)
                    bad = [t for t in o2.get("oracle", [])
                           if not ((mod.known(c2, t) if hasattr(mod, "known") else None) in open_ids)]
                    if bad:
                        found_by_search = dict(case=c2, kind="oracle", text=bad[0])
                        break
            chosen = [h0]
        h = chosen[0]
        fs = bycase[h]
        if found_by_search:
            fs = [found_by_search] + fs
        primary = next((x for x in fs if x["kind"] == "oracle"), fs[0])
        if hasattr(mod, "shrink") and primary["kind"] == "oracle" and not replay:
            try:
                primary = mod.shrink(primary) or primary
            except Exception:
                pass
        rpath = os.path.join("replays", f"{pid}-{case_hash(jsonable(primary['case']))}.json")
        with open(os.path.join(VERIF, rpath), "w") as fh:
            json.dump(jsonable(dict(
                property=pid, kind=primary["kind"], what=primary["text"], case=primary["case"],
                all_failures_on_case=[dict(kind=x["kind"], text=x["text"]) for x in fs][:20],
                other_failing_cases=len(bycase) - 1,
                no_failing_input_found=(primary["kind"] != "oracle"),
                broken_obligation=(None if primary["kind"] == "oracle" else
                                   f"correspondence of model ops {sorted({r['op'] for r in mod.model_requests(primary["case"], run_one(primary["case"]))})} "
                                   f"with the implementation; theorems of DFV.Props.{pid} rest on it"),
                theorems=audit["theorems"],
                replay_cmd=f"./check {pid} --replay {rpath}",
            )), fh, indent=1)
        line = f"VIOLATION property={pid} replay={rpath}"
        if primary["kind"] != "oracle":
            line += " no-failing-input-found"
        out_lines.append(line)
        reported.append(primary)

    for kid, f in sorted(known_seen.items()):
        what = next((k["what"] for k in known if k["id"] == kid), f["text"])
        out_lines.insert(0, f"KNOWN-FINDING: property={pid} {kid} {what}")

    # ---- provenance of the code the correspondence ran against
    prov = {}
    try:
        prov["repo"] = REPO
        prov["repo_head"] = sh(["git", "-C", REPO, "rev-parse", "HEAD"])[1].strip()
        prov["repo_modified_files"] = [l[3:] for l in sh(["git", "-C", REPO, "status", "--porcelain"])[1].splitlines() if l.strip()][:20]
        for line in open(os.path.join(VERIF, "properties.jsonl")):
            pr = json.loads(line)
            if pr["id"] == pid:
                prov["anchor_sha256"] = {f: hashlib.sha256(open(os.path.join(REPO, f), "rb").read()).hexdigest()[:16]
                                         for f in pr["anchors"]["files"] if os.path.exists(os.path.join(REPO, f))}
    except Exception as e:  # provenance is informational only
        prov["error"] = str(e)

    # ---- evidence
    samples = []
    for case, obs, reqs in records[:3] + records[-2:]:
        samples.append(jsonable(dict(case={k: v for k, v in case.items()},
                                      model_ops=[r["op"] for r in reqs][:12],
                                      impl_tags=obs.get("tags", []))))
    ev = dict(
        property_id=pid, tier=tier, seed=seed, level="proof",
        coverage=dict(
            obligations=audit["obligations"], discharged=audit["discharged"],
            checker_cmd=audit["checker_cmd"],
            trusted_base=["Lean 4.33.0 kernel", "axioms: " + ", ".join(audit["axioms_used"] or ["none"])]
            + list(getattr(mod, "TRUSTED", [])),
            theorems=audit["theorems"],
            evaluations=evaluations, distinct_nontrivial=len(distinct),
            rule=getattr(mod, "RULE", ""),
            samples=samples,
            traces_validated_against_impl=evaluations,
            model_calls=model_calls,
            correspondence_disagreements=sum(1 for f in failures if f["kind"] == "correspondence"),
            oracle_failures=sum(1 for f in failures if f["kind"] == "oracle"),
            known_findings_seen=sorted(known_seen),
            distribution=dict(sorted(tags.items())),
            unproved_subclaims=list(getattr(mod, "UNPROVED", [])),
            truncated_by_budget=truncated,
            aged_runs=aged_runs, aged_time_s=round(aged_time, 1), aging=dict(aging.STATS),
            exhaustive=False,
            leanchecker=audit.get("leanchecker", "not run (thorough tier only)"),
            lean_s=audit["lean_s"],
            code_under_test=prov,
        ),
        assumptions=list(getattr(mod, "ASSUMPTIONS", [])),
        wall_s=round(time.time() - t0, 2),
        violations=len(reported),
    )
    if not replay and not os.environ.get("VERIF_NO_EVIDENCE"):
        os.makedirs(os.path.join(VERIF, "evidence"), exist_ok=True)
        with open(os.path.join(VERIF, "evidence", f"{pid}.json"), "w") as fh:
            json.dump(ev, fh, indent=1)
    for ln in out_lines:
        print(ln)
    print(f"[{pid}] tier={tier} seed={seed} theorems={audit['discharged']}/{audit['obligations']} "
          f"cases={evaluations} nontrivial={len(distinct)} model_calls={model_calls} "
          f"disagreements={ev['coverage']['correspondence_disagreements']} oracle_failures={ev['coverage']['oracle_failures']} "
          f"known={sorted(known_seen)} wall={ev['wall_s']}s")
    return 1 if reported else 0
