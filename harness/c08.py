"""C08 — validity masks follow the data through every operation that keeps or maps cells.

A case is a PROGRAM (SSA list of public Field operations over 1-3 input fields on one exact-regime
mesh, executed step by step on the real code; the model evaluates ONE inlined expression per
step), a SESSION (`hist`: statements over numbered variables mixing builds with IN-PLACE changes of
existing fields — `x.valid = spec`, `x.valid[idx] = v`, `x.rotate90(inplace=True)`, `y = +x`; the
model runs the same statements over its store of buffers AND mesh objects), a SETTER case (one assignment
`field.valid = spec` / `Field(..., valid=spec)`), a DICT case (`valid = {subregion: value, ..., "default": ...}` on a mesh
with overlapping / covering / partial subregions) or a GEO case (tolerance regime: one coordinate-located cell map -
resample / sel plane / sel range / field[region] - of a field whose values NUMBER its cells, on a mesh with arbitrary
binary64 corners; the result itself tells which cell every value came from, its validity must be that cell's).

Oracle (real code alone, after EVERY step): the result's `valid` is a bool array of shape
`mesh.n`; its values are what the property promises for that operation (operand's mask / AND of
both / the mask moved exactly like a tag field whose values name the source cells / what the
setter argument says); it shares no memory with any live field's mask; all live masks are
unchanged; flipping one entry of the result's mask changes no other mask.  Model (Lean driver):
the mask-level program is evaluated by the code-shaped evaluator, compared cell by cell, together
with the index-level reading and the buffer address of the store model (alias / fresh).
"""
import os
import random
import tempfile
from fractions import Fraction

import numpy as np

from . import core, fieldio
from .core import Q, Qs, F

import discretisedfield as df

PID = "C08"
RULE = ("programs: every public Field operation that returns a field (unary/derived: - abs norm orientation component "
        "real imag conjugate phase abs diff grad div curl laplace numpy-ufuncs constructor; with number/vector/array operand in "
        "both positions incl. numpy scalars/arrays on the left; field-with-field: + - * / dot cross angle << ufuncs, scalar with "
        "vector in both orders, different masks; sel plane/range, field[region], pad x 5 modes, resample, rotate90 (copy and "
        "in place, k=-5..6), VTK (txt/bin/xml) and HDF5 round trips; mean (one and two directions) / integrate / cumulative "
        "integrate / fftn / rfftn / ifftn: mask VALUES compared with the model) once per flavour on 1-4-d meshes plus random "
        "compositions of 2-5 steps (model: ONE inlined expression per step); sessions of 3-7 statements mixing builds with "
        "IN-PLACE changes of existing fields (x.valid = spec, x.valid[idx] = v, x.rotate90(inplace=True), y = +x): after every "
        "statement the masks of ALL variables, which variables are one object and which share memory are compared with the "
        "model's store - also which variables hold ONE Mesh object and every mesh.n (in-place turns of fields that share their "
        "mesh with operands / results, fix d0059dba) - and on the code alone: no other field's mask or values change, every live "
        "field keeps valid.shape == mesh.n; irfftn with / without shape / directly on a field; DICT stream: dictionaries over 1-4 "
        "(overlapping / covering / partial) subregions with number / array / list / (*n,1) / callable values, missing keys, "
        "foreign keys, number / callable / missing default, malformed values, by assignment and through the constructor, "
        "expected mask computed independently (first subregion wins); setter: None, numbers, bool/int/float "
        "arrays and nested lists of shape n, (*n,1) and broadcastable shapes, callables, 'norm' with lengths straddling 1e-8, "
        "Boolean scalar FIELDS on the same / a larger / a non-containing region, malformed arguments, by assignment and "
        "through the constructor; GEO stream (tolerance regime): resample / sel(point) / sel(range) / field[region] of a field "
        "whose values number its cells on meshes with arbitrary binary64 corners (cell sizes 1e-13..1e8, regions at, across and "
        "far from the origin up to 2^30 cells away, corners in any order, 1-3 dims, up to 4000 cells along one axis and up to 8192 "
        "after resampling, dtypes float64/float32/complex128/int64, 1-3 components, stripes/checkerboard/blocks/random/single-cell "
        "masks): resampling to every relation of cell counts (even ratios and other counts that put new cell centres exactly ON "
        "the border of two old cells so that rounding of the coordinates decides the source cell, odd ratios, up-sampling, "
        "n+-1,2, unrelated counts), selection points / box corners at 1e-1..1e-17 of a cell on either side of every cell face and "
        "of the region boundary and at 0-3 ulps around the face as floating-point arithmetic gives it (13-25 positions per "
        "mesh); oracle on the code alone: every result cell carries the validity of the operand cell whose VALUE it holds, a "
        "selection the mesh accepts does not fail for the field; model: nearest-cell map compared off the exact ties, and the "
        "lookup model given the observed tie decisions / observed block compared on all cells, observed source cells admissible "
        "by exact rational geometry. non-trivial = some input mask mixed")
TRUSTED = ["harness/c08.py, harness/fieldio.py + driver JSON glue (compound operations grad/div/curl/laplace/sum/<< number/"
           "reflected/ufunc are built by the Lean model, not by the harness)",
           "np.pad / np.rot90 / fancy slicing / xarray nearest lookup / h5py / VTK modelled by contract (index maps), validated by the run",
           "np.shares_memory as the observation of buffer identity"]
ASSUMPTIONS = ["programs / sessions / setter: exact-regime geometry (dyadic corners and cells): plane/range/region arguments and "
               "resampling targets decide their cell without rounding; resampling targets are tie-free unless the target cell size "
               "is dyadic.  GEO stream: no such restriction; coordinates resolve at least 2^-22 of a cell (|corner| / cell <= 2^30), "
               "so only EXACT ties (new centre on an old border) are decided by rounding: there either neighbour is admitted for "
               "the DATA, the validity must follow the data's choice; selection points closer than 5e-3 of a cell to a face may "
               "be attributed to either side (no property pins it), again validity must follow the data",
               "'norm': cells whose squared length is within 2^-30 (relative) of 1e-16 are not compared"]
UNPROVED = ["ownership (a result's validity is its own) is a REQUIREMENT stated on the store model (every statement that "
            "builds a field or assigns validity binds a new buffer; theorems session_invariant / session_ownership / "
            "session_write_isolated / session_result_shares_mesh_not_validity over all histories with in-place changes, "
            "result_owns_validity / write_leaves_operands per expression) and OBSERVED on the code with np.shares_memory, "
            "write-through probes and persistent in-place writes in sessions; that NumPy's np.array(..., dtype=bool) copies is "
            "not provable in Lean; unary plus returns its operand (open finding D7, mirrored by the model: "
            "session_unary_plus_shares).  Likewise WHICH Mesh object a result holds (meshOf: the operand's for operations that "
            "keep the cells, a new one otherwise and after an in-place quarter turn, repo fix d0059dba) is modelled "
            "(session_mesh_consistent / session_mesh_immutable / session_build_shares_mesh / session_rotate_unshares_mesh over all "
            "histories) and OBSERVED with `is` after every statement; the model's sharing is compared as an upper bound (a "
            "library that copies a mesh where the model shares it is only counted, tag mesh:impl-copies)",
            "masks of mean / integrate / fftn family (new cell sets, not named by the property): modelled (all cells valid, shape "
            "of the new mesh: valid_fresh; tied to the C06 model's integrate / mean and to the C11 model's k-meshes by "
            "link_c06_fresh / link_c11_kmesh - the C11 model carries no validity, so only the SHAPE is linked there) and compared "
            "with the code, irfftn with / without shape and directly on a field included; the oracle on the code alone checks "
            "them only structurally; an irfftn shape the library refuses is not generated",
            "setter: one total function of every argument kind with refusal iff malformed (setter_accepted_iff, "
            "setValid_accepted_iff, setter_any_accepted_iff); a dict over the subregions of the mesh is modelled "
            "(dict_setter_first_wins; number / array / callable values and defaults; a Field or a nested dict as a VALUE of the "
            "dictionary, and an array as default, are not generated or modelled; numpy's broadcasting of a sub-array whose block "
            "of region2slices differs from mesh[name].n does not occur in the exact regime); a scalar FIELD as the argument is "
            "modelled at mask level for Boolean fields only (setter_field_lookup, resample_is_field_setter) - a REAL-valued "
            "field used to keep its float dtype (finding D111, fixed in /repo 4c0fafc6; the class is generated and checked by "
            "the oracle)",
            "object level: the validity array of the results of the field-level models is linked to Props/C08 by theorems on "
            "THEIR definitions: C03 every expression (link_c03_expression via the translation progOf, link_c03_operations), C05 "
            "grad / div / curl / laplace / diff (link_c05_derivatives), C07 sel / field[...] / pad / resample "
            "(link_c07_sel / _getitem / _pad / _resample: value array and validity array are ONE MapOp), the shared rotation "
            "model of C12/C13 (link_c12_rotate90), C06 (link_c06_fresh), C11 (shape only), C15 (norm_history_keeps_validity, "
            "norm_orientation_keep_validity, norm_mask_agrees_c15 under C15.SqrtAt).  NOT linked: the file codecs of the C09 / "
            "C10 / C16 models (VTK / HDF5 round trips are stated on this model's own codec only), C02's constructor paths other "
            "than the validity setter, C04.diff's restrict2valid=False flavour beyond `valid` being passed through; the link "
            "theorems take the SUCCESS of the C03/C05/C07 operation as hypothesis (acceptance is those properties' matter) and, "
            "for C07 pad / resample, the mesh invariants (>= 1 cell per axis, positive edges, arrays of the mesh shape)",
            "GEO stream: which source cell the DATA of a resampled / selected field comes from is read off the result (values "
            "number the cells) and only checked for admissibility; for the large cases (thousands of cells along an axis, tag "
            "geo-model:fast-large) the model evaluates the ARRAY only - resample through the closed form of the source cell "
            "(nearest_closed_form, resample_fast_is_resample), selections through the mapping operation alone - without the "
            "index-level reading, the store model and the lookup with the observed border decisions; a selection the library "
            "refuses (point outside the region by rounding) has no result and is only counted (tag geo-raised)",
            "mesh objects changed BEHIND the Field API (f.mesh.rotate90(inplace=True), f.mesh.n = ... on a mesh shared by several "
            "fields) are outside the sessions: session_mesh_immutable speaks about the statements of the model (Field "
            "operations), not about what a user does to the Mesh object directly (C12/C13 matter)"]
BUDGET = {"quick": 150, "thorough": 1600}

PAD_MODES = ["constant", "edge", "wrap", "symmetric", "reflect"]
REFUSALS = ("Missing information about vector orientation", "Cannot compute divergence", "Cannot compute curl",
            "Curl can only be computed")
UFUNC1 = ["sin", "negative", "square", "absolute", "sign", "exp", "isfinite"]


# ============================================================================ types of values
def defmap(dims, nv):
    return list(dims) if (nv == len(dims) and nv > 1) else []


def leaf_type(mesh_spec, nvdim, cplx):
    nd = len(mesh_spec["n"])
    dims = mesh_spec["dims"] or (["x", "y", "z"][:nd] if nd <= 3 else [f"x{i}" for i in range(nd)])
    edges = [Fraction(b) - Fraction(a) for a, b in zip(mesh_spec["p1"], mesh_spec["p2"])]
    return dict(n=list(mesh_spec["n"]), dims=list(dims), nvdim=nvdim, cplx=cplx, vd=nvdim >= 2,
                mp=defmap(dims, nvdim), grp="L", edges=[Q(e) for e in edges], exact=True)


def with_(t, **kw):
    r = dict(t)
    r.update(kw)
    return r


def scalar(t):
    return with_(t, nvdim=1, vd=False, mp=[], cplx=False)


# ============================================================================ operation table
# every entry: arity, kind (same | and | mapped | free | alias | setv), gen(tys, rng) -> args | None, rtype(tys, args)
OPS = {}


def op(name, arity, kind):
    def deco(cls):
        cls.name, cls.arity, cls.kind = name, arity, kind
        OPS[name] = cls
        return cls
    return deco


def real_(t):
    return not t["cplx"]


class Base:
    @staticmethod
    def gen(tys, rng):
        return {}

    @staticmethod
    def rtype(tys, a):
        return dict(tys[0])


# ---- unary / derived ---------------------------------------------------------------------
@op("pos", 1, "alias")
class _Pos(Base):
    run = staticmethod(lambda fs, a: +fs[0])
    node = staticmethod(lambda cs, a, o: dict(t="pos", p=cs[0]))


def simple_unary(name, fn, rt=None, cond=None):
    @op(name, 1, "same")
    class _U(Base):
        run = staticmethod(lambda fs, a: fn(fs[0]))
        node = staticmethod(lambda cs, a, o: dict(t="un", p=cs[0]))

        @staticmethod
        def gen(tys, rng):
            return {} if (cond is None or cond(tys[0])) else None

        @staticmethod
        def rtype(tys, a):
            return rt(tys[0]) if rt else dict(tys[0])
    return _U


simple_unary("neg", lambda f: -f)
simple_unary("abs", lambda f: abs(f), rt=lambda t: with_(t, cplx=False))
simple_unary("norm", lambda f: f.norm, rt=scalar)
simple_unary("orientation", lambda f: f.orientation, cond=real_)
simple_unary("real", lambda f: f.real, rt=lambda t: with_(t, cplx=False))
simple_unary("imag", lambda f: f.imag, rt=lambda t: with_(t, cplx=False))
simple_unary("conjugate", lambda f: f.conjugate)
simple_unary("phase", lambda f: f.phase, rt=lambda t: with_(t, cplx=False))
simple_unary("absprop", lambda f: f.abs, rt=lambda t: with_(t, cplx=False))


@op("clone", 1, "same")
class _Clone(Base):
    """the constructor: a new Mesh object and `Field(mesh, value=f.array, valid=f.valid, ...)`"""
    run = staticmethod(lambda fs, a: clone(fs[0]))
    node = staticmethod(lambda cs, a, o: dict(t="un", p=cs[0]))


@op("comp", 1, "same")
class _Comp(Base):
    @staticmethod
    def gen(tys, rng):
        return dict(i=rng.randrange(tys[0]["nvdim"])) if tys[0]["vd"] else None

    rtype = staticmethod(lambda tys, a: with_(scalar(tys[0]), cplx=tys[0]["cplx"]))
    run = staticmethod(lambda fs, a: getattr(fs[0], fs[0].vdims[a["i"]]))
    node = staticmethod(lambda cs, a, o: dict(t="un", p=cs[0]))


@op("diff", 1, "same")
class _Diff(Base):
    @staticmethod
    def gen(tys, rng):
        if tys[0]["cplx"]:
            return None
        return dict(ax=rng.randrange(len(tys[0]["n"])), order=rng.choice([1, 2]), restrict=rng.random() < 0.8)

    run = staticmethod(lambda fs, a: fs[0].diff(fs[0].mesh.region.dims[a["ax"]], order=a["order"], restrict2valid=a["restrict"]))
    node = staticmethod(lambda cs, a, o: dict(t="un", p=cs[0]))


def un(c):
    return dict(t="un", p=c)


def binF(p, q):
    return dict(t="binF", p=p, q=q)


def binC(p):
    return dict(t="binC", p=p)


def ufunc(*cs):
    """a NumPy ufunc with these field inputs (`Field.__array_ufunc__`): the model's `ufuncProg`"""
    return dict(t="ufunc", ps=list(cs))


# grad / div / curl / laplace / sum / stacking / f << number / reflected operators are COMPOUND operations of
# field.py: their programs are built by the Lean model itself (gradProg, divProg, ... in Model/C08.lean)


@op("grad", 1, "same")
class _Grad(Base):
    gen = staticmethod(lambda tys, rng: {} if (tys[0]["nvdim"] == 1 and real_(tys[0])) else None)

    @staticmethod
    def rtype(tys, a):
        nd = len(tys[0]["n"])
        return with_(tys[0], nvdim=nd, vd=nd >= 2, mp=defmap(tys[0]["dims"], nd))

    run = staticmethod(lambda fs, a: fs[0].grad)
    node = staticmethod(lambda cs, a, o: dict(t="grad", nd=o["ndim_in"], p=cs[0]))


@op("div", 1, "same")
class _Div(Base):
    @staticmethod
    def gen(tys, rng):
        t = tys[0]
        ok = real_(t) and t["nvdim"] == len(t["n"]) and t["nvdim"] >= 2 and t["vd"] and sorted(t["mp"]) == sorted(t["dims"])
        return {} if ok else None

    rtype = staticmethod(lambda tys, a: scalar(tys[0]))
    run = staticmethod(lambda fs, a: fs[0].div)
    node = staticmethod(lambda cs, a, o: dict(t="div", nv=o["nvdim_in"], p=cs[0]))


@op("curl", 1, "same")
class _Curl(Base):
    @staticmethod
    def gen(tys, rng):
        t = tys[0]
        ok = real_(t) and t["nvdim"] == 3 and len(t["n"]) == 3 and t["vd"] and sorted(t["mp"]) == sorted(t["dims"])
        return {} if ok else None

    rtype = staticmethod(lambda tys, a: with_(tys[0], mp=list(tys[0]["dims"])))
    run = staticmethod(lambda fs, a: fs[0].curl)
    node = staticmethod(lambda cs, a, o: dict(t="curl", p=cs[0]))


@op("laplace", 1, "same")
class _Laplace(Base):
    @staticmethod
    def gen(tys, rng):
        t = tys[0]
        return {} if (real_(t) and (t["nvdim"] == 1 or t["vd"])) else None

    @staticmethod
    def rtype(tys, a):
        t = tys[0]
        # mapping of the stacked result: the operand's (current code) or the default one (older code) — keep what both give
        return dict(t) if t["nvdim"] == 1 else with_(t, mp=[d for d in t["mp"] if d in defmap(t["dims"], t["nvdim"])])

    run = staticmethod(lambda fs, a: fs[0].laplace)

    node = staticmethod(lambda cs, a, o: dict(t="laplace", nd=o["ndim_in"], nv=o["nvdim_in"], p=cs[0]))


def _ufunc1(f, name):
    return getattr(np, name)(f)


@op("ufunc1", 1, "same")
class _Ufunc1(Base):
    gen = staticmethod(lambda tys, rng: dict(u=rng.choice(UFUNC1)) if real_(tys[0]) else None)
    run = staticmethod(lambda fs, a: _ufunc1(fs[0], a["u"]))
    node = staticmethod(lambda cs, a, o: ufunc(cs[0]))


# ---- binary with a number / vector / array --------------------------------------------------
def _vec(nv):
    return tuple(float(k + 1) for k in range(nv))


BINC = {
    "mul2": (lambda f: f * 2, None, None),
    "rmul2": (lambda f: 2 * f, None, None),
    "add1": (lambda f: f + 1, None, None),
    "radd1": (lambda f: 1.5 + f, None, None),
    "sub1": (lambda f: f - 1, None, None),
    "rsub1": (lambda f: 1 - f, None, "rsub"),
    "div2": (lambda f: f / 2, None, None),
    "rdiv2": (lambda f: 2 / f, None, None),
    "pow2": (lambda f: f ** 2, real_, None),
    "mulvec": (lambda f: f * _vec(f.nvdim), None, None),
    "addlist": (lambda f: f + list(_vec(f.nvdim)), None, None),
    "mularr": (lambda f: f * (2.0 * np.ones(f.array.shape)), None, None),
    "npf64_left": (lambda f: np.float64(2.0) * f, real_, "ufunc"),
    "npf64_right": (lambda f: f * np.float64(2.0), None, None),
    "npint_left": (lambda f: np.int64(3) + f, real_, "ufunc"),
    "ndarray_left": (lambda f: np.array(_vec(f.nvdim)) * f, real_, "ufunc"),
    "ndarray_full_left": (lambda f: (2.0 * np.ones(f.array.shape)) - f, real_, "ufunc"),
    "np_add_num": (lambda f: np.add(f, 2.0), real_, "ufunc"),
    "np_mul_num_left": (lambda f: np.multiply(2.0, f), real_, "ufunc"),
}


def _mk_binc(name, fn, cond, special):
    @op(name, 1, "same")
    class _B(Base):
        gen = staticmethod(lambda tys, rng: {} if (cond is None or cond(tys[0])) else None)
        run = staticmethod(lambda fs, a: fn(fs[0]))
        # __rsub__ is `-self + other` (model: rsubProg); NumPy scalars / arrays on the left and np.<ufunc>(f, number) go
        # through Field.__array_ufunc__ (model: ufuncProg with one field input)
        node = staticmethod({"rsub": (lambda cs, a, o: dict(t="rsub", p=cs[0])),
                             "ufunc": (lambda cs, a, o: ufunc(cs[0])),
                             None: (lambda cs, a, o: binC(cs[0]))}[special])
    return _B


for _n, (_f, _c, _s) in BINC.items():
    _mk_binc(_n, _f, _c, _s)


def _mk_binc_shape(name, fn, cond, rt, node):
    @op(name, 1, "same")
    class _B(Base):
        gen = staticmethod(lambda tys, rng: {} if cond(tys[0]) else None)
        rtype = staticmethod(lambda tys, a: rt(tys[0]))
        run = staticmethod(lambda fs, a: fn(fs[0]))
    _B.node = staticmethod(node)
    return _B


_mk_binc_shape("dotvec", lambda f: f.dot(_vec(f.nvdim)), real_, scalar, lambda cs, a, o: binC(cs[0]))
_mk_binc_shape("matmulvec", lambda f: f @ list(_vec(f.nvdim)), real_, scalar, lambda cs, a, o: binC(cs[0]))
_mk_binc_shape("rmatmulvec", lambda f: _vec(f.nvdim) @ f, real_, scalar, lambda cs, a, o: binC(cs[0]))
_mk_binc_shape("crossvec", lambda f: f & (0.0, 0.0, 1.0), lambda t: real_(t) and t["nvdim"] == 3 and t["vd"],
               lambda t: with_(t, mp=defmap(t["dims"], 3)), lambda cs, a, o: binC(cs[0]))
_mk_binc_shape("rcrossvec", lambda f: (0.0, 1.0, 0.0) & f, lambda t: real_(t) and t["nvdim"] == 3 and t["vd"],
               lambda t: with_(t, mp=defmap(t["dims"], 3)), lambda cs, a, o: dict(t="rcross", p=cs[0]))
_mk_binc_shape("anglevec", lambda f: f.angle(_vec(f.nvdim)), real_, scalar, lambda cs, a, o: binC(cs[0]))


def _lshift_type(t, extra):
    nv = t["nvdim"] + extra
    return with_(t, nvdim=nv, vd=True, mp=defmap(t["dims"], nv))


_mk_binc_shape("lshiftnum", lambda f: f << 3, real_, lambda t: _lshift_type(t, 1), lambda cs, a, o: dict(t="lshiftC", p=cs[0]))
_mk_binc_shape("rlshiftnum", lambda f: 3 << f, real_, lambda t: _lshift_type(t, 1), lambda cs, a, o: dict(t="rlshiftC", p=cs[0]))
_mk_binc_shape("lshiftvec", lambda f: f << (1.0, 2.0), real_, lambda t: _lshift_type(t, 2), lambda cs, a, o: dict(t="lshiftC", p=cs[0]))
_mk_binc_shape("rlshiftvec", lambda f: [1.0, 2.0] << f, real_, lambda t: _lshift_type(t, 2), lambda cs, a, o: dict(t="rlshiftC", p=cs[0]))


# ---- binary between two fields -------------------------------------------------------------
def same_mesh(t1, t2):
    return t1["grp"] == t2["grp"] and t1["n"] == t2["n"]


def arith_ok(tys):
    a, b = tys
    return same_mesh(a, b) and (a["nvdim"] == b["nvdim"] or a["nvdim"] == 1 or b["nvdim"] == 1)


def arith_type(tys, a=None):
    x, y = tys
    base = y if (x["nvdim"] == 1 and y["nvdim"] > 1) else x
    return with_(base, cplx=x["cplx"] or y["cplx"])


def ufunc2_type(tys, a=None):
    x, y = tys
    nv = max(x["nvdim"], y["nvdim"])
    return with_(x, nvdim=nv, vd=nv >= 2, mp=(list(x["mp"]) if x["nvdim"] == nv else []))


BINF = {
    "add": (lambda f, g: f + g, arith_ok, arith_type),
    "sub": (lambda f, g: f - g, arith_ok, arith_type),
    "mul": (lambda f, g: f * g, arith_ok, arith_type),
    "truediv": (lambda f, g: f / g, arith_ok, arith_type),
    "pow": (lambda f, g: f ** g, lambda tys: arith_ok(tys) and real_(tys[0]) and real_(tys[1]), arith_type),
    "np_add": (lambda f, g: np.add(f, g), lambda tys: arith_ok(tys) and real_(tys[0]) and real_(tys[1]), ufunc2_type),
    "np_multiply": (lambda f, g: np.multiply(f, g), lambda tys: arith_ok(tys) and real_(tys[0]) and real_(tys[1]), ufunc2_type),
    "np_maximum": (lambda f, g: np.maximum(f, g), lambda tys: arith_ok(tys) and real_(tys[0]) and real_(tys[1]), ufunc2_type),
    # two outputs, two field inputs: a tuple of fields
    "np_divmod0": (lambda f, g: np.divmod(f, g)[0], lambda tys: arith_ok(tys) and real_(tys[0]) and real_(tys[1]), ufunc2_type),
    "np_divmod1": (lambda f, g: np.divmod(f, g)[1], lambda tys: arith_ok(tys) and real_(tys[0]) and real_(tys[1]), ufunc2_type),
    "dot": (lambda f, g: f.dot(g), lambda tys: same_mesh(*tys) and tys[0]["nvdim"] == tys[1]["nvdim"] and real_(tys[0]) and real_(tys[1]),
            lambda tys, a=None: scalar(tys[0])),
    "matmul": (lambda f, g: f @ g, lambda tys: same_mesh(*tys) and tys[0]["nvdim"] == tys[1]["nvdim"] and real_(tys[0]) and real_(tys[1]),
               lambda tys, a=None: scalar(tys[0])),
    "cross": (lambda f, g: f.cross(g), lambda tys: same_mesh(*tys) and tys[0]["nvdim"] == 3 == tys[1]["nvdim"] and tys[0]["vd"]
              and real_(tys[0]) and real_(tys[1]), lambda tys, a=None: with_(tys[0], mp=defmap(tys[0]["dims"], 3))),
    "and_": (lambda f, g: f & g, lambda tys: same_mesh(*tys) and tys[0]["nvdim"] == 3 == tys[1]["nvdim"] and tys[0]["vd"]
             and real_(tys[0]) and real_(tys[1]), lambda tys, a=None: with_(tys[0], mp=defmap(tys[0]["dims"], 3))),
    "angle": (lambda f, g: f.angle(g), lambda tys: same_mesh(*tys) and tys[0]["nvdim"] == tys[1]["nvdim"] and real_(tys[0]) and real_(tys[1]),
              lambda tys, a=None: scalar(tys[0])),
    "lshift": (lambda f, g: f << g, lambda tys: same_mesh(*tys) and real_(tys[0]) and real_(tys[1]),
               lambda tys, a=None: _lshift_type(tys[0], tys[1]["nvdim"])),
}


def _mk_binf(name, fn, cond, rt):
    @op(name, 2, "and")
    class _B(Base):
        gen = staticmethod(lambda tys, rng: {} if cond(tys) else None)
        rtype = staticmethod(lambda tys, a: rt(tys, a))
        run = staticmethod(lambda fs, a: fn(fs[0], fs[1]))
        # np.add(f, g) ... go through Field.__array_ufunc__ (np.logical_and.reduce over the field inputs)
        # (the j-th element of a tuple of results is built on the mesh of the j-th field input: `np.divmod(f, g)[1]` on g's)
        node = staticmethod((lambda cs, a, o: ufunc(cs[1], cs[0])) if name == "np_divmod1" else
                            (lambda cs, a, o: ufunc(cs[0], cs[1])) if name.startswith("np_") else (lambda cs, a, o: binF(cs[0], cs[1])))
    return _B


for _n, (_f, _c, _r) in BINF.items():
    _mk_binf(_n, _f, _c, _r)


# ---- operations that map cells --------------------------------------------------------------
def drop(xs, i):
    return [x for k, x in enumerate(xs) if k != i]


@op("sel_plane", 1, "mapped")
class _SelPlane(Base):
    @staticmethod
    def gen(tys, rng):
        t = tys[0]
        if len(t["n"]) < 2:
            return None
        ax = rng.randrange(len(t["n"]))
        if t["exact"] and rng.random() < 0.3:
            return dict(ax=ax, k=t["n"][ax] // 2, centre=True)
        return dict(ax=ax, k=rng.randrange(t["n"][ax]), centre=False)

    @staticmethod
    def rtype(tys, a):
        t = tys[0]
        return with_(t, n=drop(t["n"], a["ax"]), dims=drop(t["dims"], a["ax"]), edges=drop(t["edges"], a["ax"]),
                     mp=[d for d in t["mp"] if d != t["dims"][a["ax"]]], grp=t["grp"] + f"|p{a['ax']},{a['k']}")

    @staticmethod
    def run(fs, a):
        f = fs[0]
        d = f.mesh.region.dims[a["ax"]]
        if a["centre"]:
            return f.sel(d)
        return f.sel(**{d: float(getattr(f.mesh.cells, d)[a["k"]])})

    node = staticmethod(lambda cs, a, o: dict(t="map", op=dict(k="take", ax=a["ax"], i=a["k"]), p=cs[0]))


@op("sel_range", 1, "mapped")
class _SelRange(Base):
    @staticmethod
    def gen(tys, rng):
        t = tys[0]
        ax = rng.randrange(len(t["n"]))
        k1 = rng.randrange(t["n"][ax])
        k2 = rng.randrange(k1, t["n"][ax])
        return dict(ax=ax, k1=k1, k2=k2, rev=rng.random() < 0.3)

    @staticmethod
    def rtype(tys, a):
        t = tys[0]
        n = list(t["n"])
        e = list(t["edges"])
        e[a["ax"]] = Q(F(e[a["ax"]]) * (a["k2"] - a["k1"] + 1) / n[a["ax"]])
        n[a["ax"]] = a["k2"] - a["k1"] + 1
        return with_(t, n=n, edges=e, grp=t["grp"] + f"|r{a['ax']},{a['k1']},{a['k2']}")

    @staticmethod
    def run(fs, a):
        f = fs[0]
        d = f.mesh.region.dims[a["ax"]]
        c = getattr(f.mesh.cells, d)
        pair = (float(c[a["k1"]]), float(c[a["k2"]]))
        return f.sel(**{d: tuple(reversed(pair)) if a["rev"] else pair})

    node = staticmethod(lambda cs, a, o: dict(t="map", op=dict(k="slice", ax=a["ax"], lo=a["k1"], hi=a["k2"] + 1), p=cs[0]))


@op("crop", 1, "mapped")
class _Crop(Base):
    @staticmethod
    def gen(tys, rng):
        t = tys[0]
        lo, hi = [], []
        for n in t["n"]:
            a = rng.randrange(n)
            lo.append(a)
            hi.append(rng.randint(a + 1, n))
        return dict(lo=lo, hi=hi, inset=(not t["exact"]) or rng.random() < 0.3)

    @staticmethod
    def rtype(tys, a):
        t = tys[0]
        n = [h - l for l, h in zip(a["lo"], a["hi"])]
        e = [Q(F(x) * k / m) for x, k, m in zip(t["edges"], n, t["n"])]
        return with_(t, n=n, edges=e, grp=t["grp"] + f"|c{a['lo']},{a['hi']}")

    @staticmethod
    def run(fs, a):
        f = fs[0]
        pmin = [Fraction(float(x)) for x in f.mesh.region.pmin]
        cell = [Fraction(float(x)) for x in f.mesh.cell]
        q = Fraction(1, 4) if a["inset"] else 0  # a box a quarter cell inside the block selects the same cells
        p1 = [float(p + (l + q) * c) for p, l, c in zip(pmin, a["lo"], cell)]
        p2 = [float(p + (h - q) * c) for p, h, c in zip(pmin, a["hi"], cell)]
        return f[df.Region(p1=p1, p2=p2, dims=f.mesh.region.dims, units=f.mesh.region.units)]

    node = staticmethod(lambda cs, a, o: dict(t="map", op=dict(k="crop", lo=a["lo"], hi=a["hi"]), p=cs[0]))


@op("pad", 1, "mapped")
class _Pad(Base):
    @staticmethod
    def gen(tys, rng):
        t = tys[0]
        w = [[0, 0] for _ in t["n"]]
        axes = rng.sample(range(len(t["n"])), rng.randint(1, min(2, len(t["n"]))))
        for ax in axes:
            big = rng.random() < 0.25
            w[ax] = [rng.randint(0, 2 * t["n"][ax] + 1 if big else 2), rng.randint(0, 2 * t["n"][ax] + 1 if big else 2)]
        if int(np.prod([n + l + r for n, (l, r) in zip(t["n"], w)])) > 400:
            return None
        return dict(w=w, axes=axes, mode=rng.choice(PAD_MODES))

    @staticmethod
    def rtype(tys, a):
        t = tys[0]
        n = [k + l + r for k, (l, r) in zip(t["n"], a["w"])]
        e = [Q(F(x) * k / m) for x, k, m in zip(t["edges"], n, t["n"])]
        return with_(t, n=n, edges=e, grp=t["grp"] + f"|pad{a['w']}")

    @staticmethod
    def run(fs, a):
        f = fs[0]
        pw = {f.mesh.region.dims[ax]: tuple(a["w"][ax]) for ax in a["axes"]}
        return f.pad(pw, mode=a["mode"])

    node = staticmethod(lambda cs, a, o: dict(t="map", op=dict(k="pad", mode=a["mode"], w=a["w"]), p=cs[0]))


def tie_free(n, n2):
    for j in range(n2):
        num = (2 * j + 1) * n
        if num % (2 * n2) == 0 and 1 <= num // (2 * n2) <= n - 1:
            return False
    return True


def dyadic_small(x):
    d = x.denominator
    return d & (d - 1) == 0 and abs(x.numerator) < 2 ** 20


@op("resample", 1, "mapped")
class _Resample(Base):
    @staticmethod
    def gen(tys, rng):
        t = tys[0]
        n2 = []
        for n, e in zip(t["n"], t["edges"]):
            cand = [m for m in range(1, 9) if tie_free(n, m) or (t["exact"] and dyadic_small(F(e) / m))]
            if not cand:
                return None
            n2.append(rng.choice(cand))
        if int(np.prod(n2)) > 300:
            return None
        return dict(n=n2)

    rtype = staticmethod(lambda tys, a: with_(tys[0], n=list(a["n"]), grp=tys[0]["grp"] + f"|rs{a['n']}",
                                              exact=tys[0]["exact"] and all(dyadic_small(F(e) / m) for e, m in zip(tys[0]["edges"], a["n"]))))
    run = staticmethod(lambda fs, a: fs[0].resample(tuple(a["n"])))
    node = staticmethod(lambda cs, a, o: dict(t="map", op=dict(k="resample", n=a["n"]), p=cs[0]))


def _rot_gen(tys, rng):
    t = tys[0]
    nd = len(t["n"])
    if nd < 2 or t["cplx"]:
        return None
    a, b = rng.sample(range(nd), 2)
    if t["nvdim"] > 1 and not (t["vd"] and t["dims"][a] in t["mp"] and t["dims"][b] in t["mp"]):
        return None
    return dict(a=a, b=b, turns=rng.randint(-5, 6), ref=rng.random() < 0.3)


def _rot_type(tys, a):
    t = tys[0]
    n, e = list(t["n"]), list(t["edges"])
    if a["turns"] % 2:
        n[a["a"]], n[a["b"]] = n[a["b"]], n[a["a"]]
        e[a["a"]], e[a["b"]] = e[a["b"]], e[a["a"]]
    # the rotated corners go through cos/sin(k*pi/2) in floats: not exactly on the dyadic grid any more
    return with_(t, n=n, edges=e, grp=t["grp"] + f"|rot{a['a']},{a['b']},{a['turns'] % 4},{a['ref']}", exact=False)


def clone(f):
    r = f.mesh.region
    mesh = df.Mesh(region=df.Region(p1=tuple(r.pmin), p2=tuple(r.pmax), dims=r.dims, units=r.units), n=tuple(f.mesh.n), bc=f.mesh.bc)
    return df.Field(mesh, nvdim=f.nvdim, value=f.array, vdims=f.vdims, unit=f.unit, valid=f.valid,
                    vdim_mapping=f.vdim_mapping, dtype=f.array.dtype)


def _rot_run(inplace):
    def run(fs, a):
        f = fs[0]
        d = f.mesh.region.dims
        kw = dict(k=a["turns"])
        if a["ref"]:
            kw["reference_point"] = tuple(float(x) for x in f.mesh.region.pmin)
        if inplace:
            g = clone(f)
            r = g.rotate90(d[a["a"]], d[a["b"]], inplace=True, **kw)
            if r is not g:
                raise AssertionError("in-place rotate90 did not return the field itself")
            return g
        return f.rotate90(d[a["a"]], d[a["b"]], **kw)
    return run


@op("rot", 1, "mapped")
class _Rot(Base):
    gen = staticmethod(_rot_gen)
    rtype = staticmethod(_rot_type)
    run = staticmethod(_rot_run(False))
    node = staticmethod(lambda cs, a, o: dict(t="map", op=dict(k="rot", a=a["a"], b=a["b"], turns=a["turns"]), p=cs[0]))


@op("rot_inplace", 1, "mapped")
class _RotI(Base):
    gen = staticmethod(_rot_gen)
    rtype = staticmethod(lambda tys, a: with_(_rot_type(tys, a), grp=_rot_type(tys, a)["grp"] + "i"))
    run = staticmethod(_rot_run(True))
    # clone = constructor (own buffer), then np.rot90 and the setter
    node = staticmethod(lambda cs, a, o: dict(t="map", op=dict(k="rot", a=a["a"], b=a["b"], turns=a["turns"]), p=un(cs[0])))


def file_roundtrip(f, ext, rep=None):
    with tempfile.TemporaryDirectory() as d:
        p = os.path.join(d, "f." + ext)
        if rep:
            f.to_file(p, representation=rep)
        else:
            f.to_file(p)
        return df.Field.from_file(p)


@op("vtk", 1, "mapped")
class _Vtk(Base):
    @staticmethod
    def gen(tys, rng):
        t = tys[0]
        if len(t["n"]) != 3 or t["cplx"] or not (t["nvdim"] == 1 or t["vd"]):
            return None
        return dict(rep=rng.choice(["bin", "txt", "xml"]))

    rtype = staticmethod(lambda tys, a: with_(tys[0], dims=["x", "y", "z"], mp=defmap(["x", "y", "z"], tys[0]["nvdim"]),
                                              grp="VTK(" + tys[0]["grp"] + "," + a["rep"] + ")", exact=False))
    run = staticmethod(lambda fs, a: file_roundtrip(fs[0], "vtk", a["rep"]))
    node = staticmethod(lambda cs, a, o: dict(t="vtk", p=cs[0]))


@op("hdf5", 1, "mapped")
class _H5(Base):
    gen = staticmethod(lambda tys, rng: dict(ext=rng.choice(["h5", "hdf5"])))
    rtype = staticmethod(lambda tys, a: with_(tys[0], mp=defmap(tys[0]["dims"], tys[0]["nvdim"])))
    run = staticmethod(lambda fs, a: file_roundtrip(fs[0], a["ext"]))
    node = staticmethod(lambda cs, a, o: dict(t="hdf5", p=cs[0]))


# ---- results on new cell sets (built without `valid=`): the property does not name them, so the oracle checks them
# structurally only; their VALUES (all cells valid, shape of the new mesh) are compared with the model's `fresh` nodes
def fresh(k, c, **kw):
    return dict(t="fresh", op=dict(k=k, **kw), p=c)


def _mk_free(name, fn, cond, rt, node):
    @op(name, 1, "free")
    class _Fr(Base):
        @staticmethod
        def gen(tys, rng):
            return dict(ax=rng.randrange(len(tys[0]["n"]))) if cond(tys[0]) else None

        rtype = staticmethod(lambda tys, a: rt(tys[0], a))
        run = staticmethod(lambda fs, a: fn(fs[0], fs[0].mesh.region.dims[a["ax"]]))
    _Fr.node = staticmethod(node)
    return _Fr


def _red_type(t, a):
    return with_(t, n=drop(t["n"], a["ax"]), dims=drop(t["dims"], a["ax"]), edges=drop(t["edges"], a["ax"]),
                 mp=[d for d in t["mp"] if d != t["dims"][a["ax"]]], grp=t["grp"] + f"|red{a['ax']}")


_mk_free("mean_dir", lambda f, d: f.mean(direction=d), lambda t: len(t["n"]) >= 2, _red_type,
         lambda cs, a, o: fresh("reduce", cs[0], axes=[a["ax"]]))
_mk_free("integrate_dir", lambda f, d: f.integrate(direction=d), lambda t: len(t["n"]) >= 2 and real_(t), _red_type,
         lambda cs, a, o: fresh("reduce", cs[0], axes=[a["ax"]]))
_mk_free("integrate_cum", lambda f, d: f.integrate(direction=d, cumulative=True), real_, lambda t, a: dict(t),
         lambda cs, a, o: fresh("same", cs[0]))


def _other_ax(a, nd):
    return (a["ax"] + 1 + a.get("off", 0)) % nd


@op("mean_dirs", 1, "free")
class _MeanDirs(Base):
    """mean over two directions at once (tuple / list argument): `mesh.sel(d)` for each of them"""
    @staticmethod
    def gen(tys, rng):
        nd = len(tys[0]["n"])
        if nd < 3:
            return None
        return dict(ax=rng.randrange(nd), off=rng.randrange(nd - 1), aslist=rng.random() < 0.5)

    @staticmethod
    def rtype(tys, a):
        t = tys[0]
        gone = sorted({a["ax"], _other_ax(a, len(t["n"]))}, reverse=True)
        r = dict(t)
        for ax in gone:
            r = _red_type(r, dict(ax=ax))
        return r

    @staticmethod
    def run(fs, a):
        d = fs[0].mesh.region.dims
        dirs = [d[a["ax"]], d[_other_ax(a, len(d))]]
        return fs[0].mean(direction=dirs if a["aslist"] else tuple(dirs))

    node = staticmethod(lambda cs, a, o: fresh("reduce", cs[0], axes=[a["ax"], _other_ax(a, o["ndim_in"])]))


def _odd_shape(f):
    n = [int(k) for k in f.mesh.n]
    return tuple(n[:-1] + [2 * n[-1] - 1])


_FINAL_ONLY = {"fftn": (lambda f, d: f.fftn(), lambda cs, a, o: fresh("spectrum", cs[0])),
               "rfftn": (lambda f, d: f.rfftn(), lambda cs, a, o: fresh("rfft", cs[0])),
               "fft_roundtrip": (lambda f, d: f.fftn().ifftn(), lambda cs, a, o: fresh("spectrum", fresh("spectrum", cs[0]))),
               # irfftn: back from the half spectrum with the original shape named / not named (an odd last count is then
               # not recovered), and applied directly to a field read as a half spectrum (default and odd last count)
               "irfftn_shape": (lambda f, d: f.rfftn().irfftn(shape=tuple(int(k) for k in f.mesh.n)),
                                lambda cs, a, o: fresh("irfft", fresh("rfft", cs[0]), last=o["n_in"][-1])),
               "irfftn_default": (lambda f, d: f.rfftn().irfftn(), lambda cs, a, o: fresh("irfft", fresh("rfft", cs[0]), last=None)),
               "irfftn_direct": (lambda f, d: f.irfftn(), lambda cs, a, o: fresh("irfft", cs[0], last=None)),
               "irfftn_direct_odd": (lambda f, d: f.irfftn(shape=_odd_shape(f)),
                                     lambda cs, a, o: fresh("irfft", cs[0], last=2 * o["n_in"][-1] - 1))}
for _n, (_f, _nd) in _FINAL_ONLY.items():
    _mk_free(_n, _f, real_, lambda t, a: with_(t, cplx=True, grp="K"), _nd)


# ---- assigning validity to a freshly built result ----------------------------------------------------
SETV_KINDS = ["none", "const", "arr_bool", "arr_int", "arr_float", "arr_col", "func_half", "func_affine", "norm"]


@op("setv", 1, "setv")
class _Setv(Base):
    @staticmethod
    def gen(tys, rng):
        kinds = [k for k in SETV_KINDS if not (k == "norm" and tys[0]["cplx"]) and not (k == "func_affine" and not tys[0]["exact"])]
        return dict(spec=rng.choice(kinds), seed=rng.getrandbits(32), ctor=rng.random() < 0.4)

    run = None
    node = None


ALL_SAME = [n for n, c in OPS.items() if c.kind == "same"]
ALL_AND = [n for n, c in OPS.items() if c.kind == "and"]
ALL_MAPPED = [n for n, c in OPS.items() if c.kind == "mapped"]
ALL_FREE = [n for n, c in OPS.items() if c.kind == "free"]


# ============================================================================ case generation
def gen_leaves(rng, nleaves, nvdims=None, cplx_prob=0.12):
    out = []
    for k in range(nleaves):
        nv = nvdims[k] if nvdims else rng.choice([1, 1, 2, 3, 3, 4])
        out.append(dict(nvdim=nv, cplx=rng.random() < cplx_prob, density=rng.choice([0.85, 0.7, 0.5, 0.3])))
    return out


def small_mesh(rng, ndim=None):
    return fieldio.gen_mesh_spec(rng, ndim=ndim, max_cells=48, nmax=5, bc_prob=0.25)


def try_step(rng, types, name, operands=None):
    """one step applying `name` to randomly chosen (or given) values; None if not applicable"""
    cls = OPS[name]
    for _ in range(12):
        ins = operands or [rng.randrange(len(types)) for _ in range(cls.arity)]
        tys = [types[i] for i in ins]
        if name in _FINAL_ONLY:
            pass
        args = cls.gen(tys, rng)
        if args is not None:
            return dict(op=name, **{"in": ins}, args=args), cls.rtype(tys, args)
        if operands:
            return None
    return None


def gen_program(rng, mesh, leaves, nsteps, must=None):
    types = [leaf_type(mesh, l["nvdim"], l["cplx"]) for l in leaves]
    steps = []
    pool = (ALL_SAME * 2 + ALL_AND * 3 + ALL_MAPPED * 4 + ["setv"] * 6 + ["pos"] * 2 + ["mean_dir", "integrate_dir", "integrate_cum", "mean_dirs"])
    tries = 0
    while len(steps) < nsteps and tries < 200:
        tries += 1
        name = must if (must and not any(s["op"] == must for s in steps) and len(steps) == nsteps - 1) else rng.choice(pool)
        # prefer building on the newest value so that the steps compose
        operands = None
        cls = OPS[name]
        if steps and rng.random() < 0.75:
            last = len(types) - 1
            others = [rng.randrange(len(types)) for _ in range(cls.arity - 1)]
            operands = [last] + others
            if cls.arity == 2 and rng.random() < 0.5:
                operands.reverse()
        r = try_step(rng, types, name, operands)
        if r is None:
            continue
        step, ty = r
        if ty["grp"] in ("K",):
            continue
        if name == "setv" and (step["in"][0] < len(leaves) and False):
            continue
        steps.append(step)
        types.append(ty)
    return steps


def sweep_cases(rng, reps):
    """every operation flavour at least `reps` times, as the last step after 0-1 preparing steps"""
    for name in OPS:
        cls = OPS[name]
        done, guard = 0, 0
        while done < reps and guard < 60 * reps:
            guard += 1
            ndim = 3 if name in ("vtk", "curl") else None
            mesh = small_mesh(rng, ndim)
            nvd = None
            if name in ("curl", "cross", "and_", "crossvec", "rcrossvec"):
                nvd = [3, 3, 1]
            elif name in ("div",):
                nvd = [len(mesh["n"]), 1, 1]
            elif name in ("grad",):
                nvd = [1, 1, 3]
            elif cls.kind == "and" and rng.random() < 0.5:
                nvd = rng.choice([[3, 1, 3], [1, 3, 1], [2, 2, 1]])
            leaves = gen_leaves(rng, 3, nvd, cplx_prob=0.0 if cls.kind != "same" else 0.1)
            if nvd and name in ("div",) and nvd[0] < 2:
                continue
            types = [leaf_type(mesh, l["nvdim"], l["cplx"]) for l in leaves]
            steps = []
            if rng.random() < 0.3 and name not in ("div", "curl", "vtk"):
                pre = try_step(rng, types, rng.choice(["neg", "mul2", "sel_range", "pad", "hdf5", "comp"]))
                if pre:
                    steps.append(pre[0])
                    types.append(pre[1])
            cand = None
            if cls.arity == 2:
                # both orders, different masks: (0,1) and (1,0)
                cand = [0, 1] if done % 2 == 0 else [1, 0]
                if steps and rng.random() < 0.5:
                    cand[0] = len(types) - 1
            elif steps:
                cand = [len(types) - 1]
            r = try_step(rng, types, name, cand) or try_step(rng, types, name)
            if r is None:
                continue
            steps.append(r[0])
            done += 1
            yield dict(kind="prog", mesh=mesh, leaves=leaves, steps=steps, sub=rng.getrandbits(32), why="sweep:" + name)


# ---- sessions: builds interleaved with IN-PLACE changes of existing fields -----------------------------------------
HIST_BUILD_POOL = None


def gen_hist(rng):
    """a history over numbered variables: `x_new = op(...)`, `x_i.valid = spec`, `x_i.valid[idx] = v`,
    `x_i.rotate90(..., inplace=True)`; the generator tracks which variables are names of one object (`+f`)"""
    global HIST_BUILD_POOL
    if HIST_BUILD_POOL is None:
        # (`clone` = the harness's own re-construction on a NEW Mesh object: not a library operation, kept out of the
        # sessions, whose model also tracks which variables hold ONE Mesh object)
        HIST_BUILD_POOL = ([n for n in ALL_SAME if n != "clone"] * 2 + ALL_AND * 3 + [n for n in ALL_MAPPED if n != "rot_inplace"] * 3
                           + ["pos"] * 8 + ["mean_dir", "integrate_dir", "integrate_cum", "mean_dirs"])
    mesh = small_mesh(rng)
    leaves = gen_leaves(rng, rng.choice([1, 2, 2, 3]), cplx_prob=0.05)
    types = [leaf_type(mesh, l["nvdim"], l["cplx"]) for l in leaves]
    objs = list(range(len(leaves)))
    stmts = []
    want = rng.choice([3, 4, 5, 6, 7])
    tries = 0

    def build(name, operands=None):
        r = try_step(rng, types, name, operands)
        if r is None:
            return False
        step, ty = r
        if ty["grp"] in ("K",):
            return False
        stmts.append(dict(s="build", **step))
        types.append(ty)
        objs.append(objs[step["in"][0]] if name == "pos" else max(objs) + 1)
        return True

    while len(stmts) < want and tries < 200:
        tries += 1
        u = rng.random()
        if u < 0.45 or not stmts:
            name = rng.choice(HIST_BUILD_POOL)
            cls = OPS[name]
            operands = None
            if rng.random() < 0.7:
                operands = [len(types) - 1] + [rng.randrange(len(types)) for _ in range(cls.arity - 1)]
                if cls.arity == 2 and rng.random() < 0.5:
                    operands.reverse()
            build(name, operands)
        elif u < 0.65:
            i = rng.randrange(len(types))
            kinds = [k for k in SETV_KINDS if not (k == "norm" and types[i]["cplx"]) and not (k == "func_affine" and not types[i]["exact"])]
            stmts.append(dict(s="assign", i=i, spec=rng.choice(kinds), seed=rng.getrandbits(32)))
        elif u < 0.88:
            i = rng.randrange(len(types))
            stmts.append(dict(s="poke", i=i, pos=rng.randrange(int(np.prod(types[i]["n"]))), v=rng.random() < 0.5))
        else:
            # any field, also one that shares its Mesh object with its operand / its results (repo fix d0059dba: the turned
            # field gets a NEW mesh object, the shared one stays as it is)
            i = rng.randrange(len(types))
            if rng.random() < 0.5:
                i = len(types) - 1
            a = _rot_gen([types[i]], rng)
            if a is None:
                continue
            stmts.append(dict(s="rotI", i=i, args=a))
            for j in range(len(types)):
                if objs[j] == objs[i]:
                    types[j] = with_(_rot_type([types[j]], a), grp=_rot_type([types[j]], a)["grp"] + "I")
    return dict(kind="hist", mesh=mesh, leaves=leaves, stmts=stmts, sub=rng.getrandbits(32))


SETTER_SPECS = ["none", "true", "false", "int0", "int1", "int2", "neg1", "float0", "float_half", "npfloat", "npint", "negzero",
                "arr_bool", "arr_int", "arr_float", "arr_tiny", "list_bool", "list_int", "arr_col", "arr_bcast", "arr_ones_col",
                "func_half", "func_affine", "func_ball", "func_npbool", "func_list", "norm", "norm", "norm",
                "field_same", "field_same", "field_super", "field_outside",
                "bad_shape", "bad_last", "bad_str", "bad_obj", "bad_rev", "bad_empty"]


# `f.valid = <REAL-valued scalar field>` kept the field's float dtype (finding D111, fixed in /repo 4c0fafc6): generated by default
FIELD_REAL_SPEC = os.environ.get("VERIF_C08_FIELD_REAL", "1") != "0"


def cases(rng, tier):
    quick = tier == "quick"
    yield from sweep_cases(rng, 8 if quick else 60)
    for _ in range(600 if quick else 9000):
        c = gen_hist(rng)
        if c["stmts"]:
            yield c
    for _ in range(3400 if quick else 52000):
        mesh = small_mesh(rng)
        leaves = gen_leaves(rng, rng.choice([1, 2, 2, 3]))
        steps = gen_program(rng, mesh, leaves, rng.choice([2, 3, 3, 4, 5]))
        if steps:
            yield dict(kind="prog", mesh=mesh, leaves=leaves, steps=steps, sub=rng.getrandbits(32), why="random")
    # geometry stream: coordinate-located cell maps on arbitrary binary64 meshes (ties of resample, points next to faces)
    for _ in range(1500 if quick else 25000):
        yield gen_geo(rng, "small")
    for _ in range(250 if quick else 4000):
        yield gen_geo(rng, "long")
    # a dictionary over the subregions of the mesh as validity (the dict branch of `_as_array`)
    for _ in range(260 if quick else 4000):
        mesh = fieldio.gen_mesh_spec(rng, max_cells=60, nmax=5)
        yield dict(kind="dict", mesh=mesh, nvdim=rng.choice([1, 2, 3]), flavour=rng.choice(DICT_FLAVOURS), ctor=rng.random() < 0.4,
                   sub=rng.getrandbits(32))
    for rep in range(10 if quick else 150):
        for spec in SETTER_SPECS + (["field_real"] if FIELD_REAL_SPEC else []):
            mesh = small_mesh(rng)
            yield dict(kind="setter", mesh=mesh, nvdim=rng.choice([1, 2, 3]), spec=spec, ctor=rng.random() < 0.4,
                       tiny=(spec == "norm" or rng.random() < 0.1), sub=rng.getrandbits(32))


# ============================================================================ running the real code
def build_leaf(mesh, leaf, rng):
    n = tuple(int(k) for k in mesh.n)
    nv = leaf["nvdim"]
    arr = fieldio.gen_int_array(rng, (*n, nv), -6, 6)
    # some cells hold the zero vector / a tiny vector: operations with a data-dependent branch (division, orientation,
    # angle, 'norm') must not let the VALUES decide the validity
    for idx in np.ndindex(*n):
        u = rng.random()
        if u < 0.12:
            arr[idx] = 0.0
        elif u < 0.18:
            arr[idx] = 1e-9
    if leaf["cplx"]:
        arr = arr + 1j * fieldio.gen_int_array(rng, (*n, nv), -4, 4)
    mask = fieldio.gen_mask(rng, n, leaf["density"])
    kw = dict(dtype=complex) if leaf["cplx"] else {}
    return df.Field(mesh, nvdim=nv, value=arr, valid=mask, unit=rng.choice([None, "T", "A/m"]), **kw)


def mask_bytes(f):
    v = f.valid
    return (v.dtype.str, v.shape, v.tobytes())


def tag_field(f):
    n = tuple(int(k) for k in f.mesh.n)
    tags = (np.arange(int(np.prod(n)), dtype=float) + 1.0).reshape(*n, 1)
    return df.Field(f.mesh, nvdim=1, value=tags, valid=f.valid.copy())


def centres_exact(mesh):
    pmin = [Fraction(float(x)) for x in mesh.region.pmin]
    pmax = [Fraction(float(x)) for x in mesh.region.pmax]
    n = [int(k) for k in mesh.n]
    cell = [(b - a) / k for a, b, k in zip(pmin, pmax, n)]
    return pmin, cell


def make_spec(kind, f, rng):
    """setter argument of the given kind for field `f`: (python value, model spec (mask level), expected mask or None,
    expect_error)"""
    n = tuple(int(k) for k in f.mesh.n)
    size = int(np.prod(n))
    pmin, cell = centres_exact(f.mesh)

    def arr_spec(a):
        a = np.asarray(a)
        return dict(kind="arr", shape=list(a.shape), data=Qs(a.astype(float).reshape(-1).tolist()))

    if kind == "none":
        return None, dict(kind="none"), np.ones(n, bool), False
    consts = {"true": True, "false": False, "int0": 0, "int1": 1, "int2": 2, "neg1": -1, "float0": 0.0, "float_half": 0.5,
              "npfloat": np.float64(2.5), "npint": np.int64(0), "negzero": -0.0, "const": rng.choice([True, False, 0, 3, 0.0, 1e-300])}
    if kind in consts:
        v = consts[kind]
        return v, dict(kind="const", v=Q(Fraction(float(v)))), np.full(n, bool(v)), False
    if kind in ("arr_bool", "list_bool"):
        a = fieldio.gen_mask(rng, n, rng.choice([0.8, 0.5, 0.2]))
        return (a.tolist() if kind == "list_bool" else a), arr_spec(a), a.copy(), False
    if kind in ("arr_int", "list_int"):
        a = np.array([rng.choice([0, 0, 1, 1, 2, -3]) for _ in range(size)], dtype=np.int64).reshape(n)
        return (a.tolist() if kind == "list_int" else a), arr_spec(a), a != 0, False
    if kind == "arr_float":
        a = np.array([rng.choice([0.0, -0.0, 1.0, 0.25, -2.5]) for _ in range(size)]).reshape(n)
        return a, arr_spec(a), a != 0, False
    if kind == "arr_tiny":
        a = np.array([rng.choice([0.0, 2.0 ** -1000, -2.0 ** -1060, 1.0]) for _ in range(size)]).reshape(n)
        return a, arr_spec(a), a != 0, False
    if kind == "arr_col":  # shape (*n, 1)
        a = np.array([rng.choice([0.0, 1.0, 3.0]) for _ in range(size)]).reshape(*n, 1)
        return a, arr_spec(a), a[..., 0] != 0, False
    if kind == "arr_ones_col":  # shape (1, ..., 1)
        a = np.array([rng.choice([0, 1])], dtype=float).reshape((1,) * (len(n) + 1))
        return a, arr_spec(a), np.full(n, bool(a.reshape(-1)[0])), False
    if kind == "arr_bcast":  # trailing part of n, then 1, some axes replaced by 1
        k = rng.randint(0, len(n))
        shp = [m if rng.random() < 0.7 else 1 for m in n[len(n) - k:]] + [1]
        if tuple(shp) == n:
            shp = [1]
        a = np.array([rng.choice([0.0, 1.0]) for _ in range(int(np.prod(shp)))]).reshape(shp)
        exp = np.broadcast_to(a, (*n, 1))[..., 0] != 0
        return a, arr_spec(a), exp.copy(), False
    if kind in ("func_half", "func_npbool"):
        ax = rng.randrange(len(n))
        # a quarter of a cell beyond a cell face: a quarter cell away from every centre AND from every cell corner (a callable
        # asked at a corner instead of the centre answers differently)
        c = pmin[ax] + (rng.randint(0, n[ax]) + Fraction(rng.choice([-1, 1]), 4)) * cell[ax]
        cf = float(c)
        fn = (lambda p: p[ax] < cf) if kind == "func_half" else (lambda p: np.bool_(p[ax] < cf))
        exp = np.zeros(n, bool)
        for idx in np.ndindex(*n):
            exp[idx] = pmin[ax] + (idx[ax] + Fraction(1, 2)) * cell[ax] < c
        return fn, dict(kind="func", fun=dict(kind="halfspace", ax=ax, c=Q(c)), pmin=Qs(pmin), cell=Qs(cell)), exp, False
    if kind in ("func_affine", "func_list"):
        w = [rng.randint(-2, 2) for _ in n]
        idx0 = [rng.randrange(m) for m in n]
        c = sum(wk * (p + (i + Fraction(1, 2)) * h) for wk, p, i, h in zip(w, pmin, idx0, cell))
        cf = float(c)
        wf = [float(x) for x in w]
        if kind == "func_affine":
            fn = lambda p: sum(a * b for a, b in zip(wf, p)) - cf  # noqa: E731  (0.0 exactly at idx0 and on its level set)
        else:
            fn = lambda p: [sum(a * b for a, b in zip(wf, p)) - cf]  # noqa: E731
        exp = np.zeros(n, bool)
        for idx in np.ndindex(*n):
            exp[idx] = sum(wk * (p + (i + Fraction(1, 2)) * h) for wk, p, i, h in zip(w, pmin, idx, cell)) - c != 0
        return fn, dict(kind="func", fun=dict(kind="affine", w=Qs(w), c=Q(c)), pmin=Qs(pmin), cell=Qs(cell)), exp, False
    if kind == "func_ball":
        idx0 = [rng.randrange(m) for m in n]
        ctr = [p + (i + Fraction(1, 2)) * h for p, i, h in zip(pmin, idx0, cell)]
        r2 = (rng.randint(1, 3) * min(cell)) ** 2 + Fraction(1, 1024) * min(cell) ** 2
        cf, r2f = [float(x) for x in ctr], float(r2)
        fn = lambda p: sum((a - b) ** 2 for a, b in zip(p, cf)) <= r2f  # noqa: E731
        exp = np.zeros(n, bool)
        for idx in np.ndindex(*n):
            exp[idx] = sum((p + (i + Fraction(1, 2)) * h - c0) ** 2 for p, i, h, c0 in zip(pmin, idx, cell, ctr)) <= r2
        return fn, dict(kind="func", fun=dict(kind="ball", centre=Qs(ctr), r2=Q(r2)), pmin=Qs(pmin), cell=Qs(cell)), exp, False
    if kind == "norm":
        vals = np.asarray(f.array).real.reshape(size, f.nvdim).copy()
        # NaN / inf lengths are "not close to 0": stand-in value 1 for the rational model
        vals[~np.isfinite(vals).all(axis=1)] = 1.0
        spec = dict(kind="norm", shape=list(n), vals=[Qs(row) for row in vals.tolist()])
        sq = [sum(Fraction(float(x)) ** 2 for x in row) for row in vals.tolist()]
        thr = Fraction(1, 10 ** 16)
        exp = np.array([s > thr for s in sq]).reshape(n)
        return "norm", spec, exp, False
    if kind in ("field_same", "field_super", "field_outside", "field_real"):
        # a scalar FIELD as validity (what `resample` hands to the constructor): nearest-cell lookup at the cell centres
        pmax = [p + k * c for p, k, c in zip(pmin, n, cell)]
        if kind == "field_super":  # the same cells, some more around them
            lo = [rng.randint(0, 2) for _ in n]
            hi = [rng.randint(0, 2) for _ in n]
            ns = [k + a + b for k, a, b in zip(n, lo, hi)]
            smin = [p - a * c for p, a, c in zip(pmin, lo, cell)]
            smax = [p + b * c for p, b, c in zip(pmax, hi, cell)]
        elif kind == "field_outside":  # shifted by a cell along one axis: does not contain the receiving region
            ax = rng.randrange(len(n))
            sgn = rng.choice([-1, 1])
            ns = list(n)
            smin = [p + (sgn * c if k == ax else 0) for k, (p, c) in enumerate(zip(pmin, cell))]
            smax = [p + (sgn * c if k == ax else 0) for k, (p, c) in enumerate(zip(pmax, cell))]
        else:  # the same region, another number of cells (tie-free, or everything dyadic)
            ns = [rng.choice([m for m in range(1, 8) if tie_free(m, k) or dyadic_small((b - a) / m)])
                  for k, a, b in zip(n, pmin, pmax)]
            smin, smax = pmin, pmax
        r = f.mesh.region
        smesh = df.Mesh(region=df.Region(p1=[float(x) for x in smin], p2=[float(x) for x in smax], dims=r.dims, units=r.units), n=ns)
        sm = fieldio.gen_mask(rng, tuple(ns), rng.choice([0.8, 0.5, 0.3]))
        if kind == "field_real":
            g = df.Field(smesh, nvdim=1, value=np.where(sm, 2.5, 0.0)[..., None])
        else:
            g = df.Field(smesh, nvdim=1, value=sm[..., None], dtype=bool)
        scell = [(b - a) / k for a, b, k in zip(smin, smax, ns)]
        cs = [[a + (i + Fraction(1, 2)) * c for i in range(k)] for a, c, k in zip(smin, scell, ns)]
        xs = [[a + (i + Fraction(1, 2)) * c for i in range(k)] for a, c, k in zip(pmin, cell, n)]
        spec = dict(kind="lookup", src=dict(shape=list(ns), data=sm.reshape(-1).tolist()), inside=kind != "field_outside",
                    cs=[Qs(row) for row in cs], xs=[Qs(row) for row in xs])
        if kind == "field_outside":
            return g, spec, None, True
        near = [[max(range(len(c)), key=lambda i: (-abs(c[i] - x), i)) for x in xrow] for c, xrow in zip(cs, xs)]
        exp = np.zeros(n, bool)
        for idx in np.ndindex(*n):
            exp[idx] = sm[tuple(near[b][idx[b]] for b in range(len(n)))]
        return g, spec, exp, False
    # malformed
    if kind == "bad_shape":
        shp = list(n)
        shp[rng.randrange(len(n))] += 1
        a = np.ones(shp, bool)
        return a, arr_spec(a), None, True
    if kind == "bad_last":
        a = np.ones((*n, 2), bool)
        return a, arr_spec(a), None, True
    if kind == "bad_rev":
        shp = tuple(reversed(n)) if tuple(reversed(n)) != n else (*n, 3)
        a = np.array([rng.choice([0.0, 1.0]) for _ in range(int(np.prod(shp)))]).reshape(shp)
        if shp[-1] == 1:
            try:
                exp = np.broadcast_to(a, (*n, 1))[..., 0] != 0
                return a, arr_spec(a), exp.copy(), False
            except ValueError:
                pass
        return a, arr_spec(a), None, True
    if kind == "bad_empty":
        return [], dict(kind="arr", shape=[0], data=[]), None, True
    if kind == "bad_str":
        return rng.choice(["abs", "Norm", "", "true"]), dict(kind="bad"), None, True
    if kind == "bad_obj":
        return object(), dict(kind="bad"), None, True
    raise ValueError(kind)


def norm_band(f):
    """cells whose squared length is too close to the 1e-16 threshold to demand either outcome"""
    n = tuple(int(k) for k in f.mesh.n)
    vals = np.asarray(f.array).real.reshape(-1, f.nvdim).copy()
    vals[~np.isfinite(vals).all(axis=1)] = 1.0
    thr = Fraction(1, 10 ** 16)
    return np.array([abs(sum(Fraction(float(x)) ** 2 for x in row) - thr) <= thr / 2 ** 30 for row in vals.tolist()]).reshape(n)


def check_result(tag, res, live, snaps, fail, expect_alias=False):
    """structural + ownership checks of one result against all live fields; returns the list of live indices it shares
    memory with"""
    if not isinstance(res, df.Field):
        fail(f"[{tag}] returned {type(res).__name__}, not a Field")
        return None
    v = res.valid
    if not isinstance(v, np.ndarray) or v.dtype != np.bool_:
        fail(f"[{tag}] validity has dtype {getattr(v, 'dtype', type(v))}, not bool")
    if tuple(v.shape) != tuple(int(k) for k in res.mesh.n):
        fail(f"[{tag}] validity has shape {tuple(v.shape)}, mesh.n is {tuple(int(k) for k in res.mesh.n)}")
    shared = [i for i, g in enumerate(live) if np.shares_memory(v, g.valid)]
    if shared:
        fail(f"[{tag}] result validity shares memory with value(s) {shared} (not its own)")
    for i, g in enumerate(live):
        if mask_bytes(g) != snaps[i]:
            fail(f"[{tag}] changed the validity of value {i}")
    return shared


def write_probe(tag, res, live, snaps, rng, fail):
    """flip one entry of result.valid, re-read every OTHER live value (`live` excludes the result's own slot)"""
    v = res.valid
    if v.size == 0 or not v.flags.writeable:
        return
    idx = tuple(rng.randrange(k) for k in v.shape)
    old = bool(v[idx])
    v[idx] = not old
    try:
        hit = [i for i, g in enumerate(live) if mask_bytes(g) != snaps[i]]
        if hit:
            fail(f"[{tag}] write-through: flipping result.valid{list(idx)} changed the validity of value(s) {hit}")
    finally:
        v[idx] = old


def run_prog(case):
    rng = random.Random(case["sub"])
    obs = {"oracle": [], "tags": ["kind:prog", "why:" + case.get("why", "?").split(":")[0], f"ndim:{len(case['mesh']['n'])}"],
           "steps": [], "leafmasks": []}
    fail = obs["oracle"].append
    mesh = fieldio.build_mesh(case["mesh"])
    vals = [build_leaf(mesh, l, rng) for l in case["leaves"]]
    nleaves = len(vals)
    obs["leafmasks"] = [dict(shape=[int(k) for k in f.valid.shape], data=f.valid.reshape(-1).tolist()) for f in vals]
    obs["nontrivial"] = any(0 < int(f.valid.sum()) < f.valid.size for f in vals)
    for si, st in enumerate(case["steps"]):
        name, args = st["op"], st["args"]
        cls = OPS[name]
        tag = name
        obs["tags"].append("op:" + name)
        ins = [vals[i] for i in st["in"]]
        snaps = [mask_bytes(g) for g in vals]
        so = dict(ok=False, ndim_in=int(ins[0].mesh.region.ndim), nvdim_in=int(ins[0].nvdim), n_in=[int(k) for k in ins[0].mesh.n])
        obs["steps"].append(so)
        spec_info = None
        try:
            if name == "setv":
                srng = random.Random(args["seed"])
                src = ins[0]
                pyval, mspec, exp, _ = make_spec(args["spec"], src, srng)
                spec_info = (pyval, mspec, exp)
                if args["ctor"]:
                    res = df.Field(src.mesh, nvdim=src.nvdim, value=src.array, vdims=src.vdims, unit=src.unit,
                                   valid=pyval, vdim_mapping=src.vdim_mapping, dtype=src.array.dtype)
                else:
                    res = df.Field(src.mesh, nvdim=src.nvdim, value=src.array, vdims=src.vdims, unit=src.unit,
                                   valid=src.valid, vdim_mapping=src.vdim_mapping, dtype=src.array.dtype)
                    before = res.array.copy()
                    res.valid = pyval
                    if not np.array_equal(before, res.array, equal_nan=True):
                        fail(f"[setv:{args['spec']}] assigning validity changed the stored values")
                if not np.array_equal(res.array, src.array, equal_nan=True):
                    fail(f"[setv:{args['spec']}] stored values differ from the source after setting validity")
                tag = "setv:" + args["spec"]
            else:
                res = cls.run(ins, args)
        except Exception as e:  # the generator only issues applicable operations
            if isinstance(e, (RuntimeError, ValueError)) and any(r in str(e) for r in REFUSALS):
                # explicit refusal about component labels / their mapping to axes (C03/C05/C12 matters, tracked only
                # approximately by the generator): no result, nothing for C08 to check
                obs["tags"].append("refused:" + name)
                so["raised"] = "refused"
                break
            fail(f"[{tag}] raised {type(e).__name__}: {str(e)[:160]}")
            so["raised"] = type(e).__name__
            break
        # (unary plus: the property wants an own validity; the code returns the operand — D7, tag "pos")
        shared = check_result(tag, res, vals, snaps, fail)
        if not isinstance(res, df.Field):
            break
        # ---- values of the mask
        m0 = np.frombuffer(snaps[st["in"][0]][2], dtype=bool).reshape(snaps[st["in"][0]][1])
        if cls.kind in ("same", "alias"):
            if res.valid.shape != m0.shape or not np.array_equal(res.valid, m0):
                fail(f"[{tag}] result validity differs from the operand's ({int(res.valid.sum())} vs {int(m0.sum())} valid cells)")
        elif cls.kind == "and":
            m1 = np.frombuffer(snaps[st["in"][1]][2], dtype=bool).reshape(snaps[st["in"][1]][1])
            if res.valid.shape != m0.shape or not np.array_equal(res.valid, m0 & m1):
                fail(f"[{tag}] result validity is not the cell-wise AND of both operands "
                     f"(result {int(res.valid.sum())}, AND {int((m0 & m1).sum())}, left {int(m0.sum())}, right {int(m1.sum())} valid cells)")
        elif cls.kind == "mapped":
            try:
                rt = cls.run([tag_field(ins[0])], args)
                tags = np.rint(np.asarray(rt.array).real.reshape(-1)).astype(int)
                exp = np.array([False if t == 0 else bool(m0.reshape(-1)[t - 1]) for t in tags])
                if rt.valid.size != res.valid.size or not np.array_equal(res.valid.reshape(-1), exp):
                    fail(f"[{tag}] validity is not moved like the data: a tag field through the same call {args} puts source "
                         f"cells {tags.tolist()[:12]}.. there, their validity is {exp.astype(int).tolist()[:12]}.., result has "
                         f"{res.valid.reshape(-1).astype(int).tolist()[:12]}..")
                if not np.array_equal(rt.valid.reshape(-1), exp):
                    fail(f"[{tag}] tag field: values and validity of the SAME result disagree about their source cells")
                if name == "pad":
                    ref = np.pad(m0, [tuple(w) for w in args["w"]], mode=args["mode"])
                    if not np.array_equal(ref, res.valid):
                        fail(f"[{tag}] validity is not np.pad(valid, {args['w']}, mode={args['mode']!r})")
            except Exception as e:
                fail(f"[{tag}] on a tag field raised {type(e).__name__}: {str(e)[:120]}")
        elif cls.kind == "setv":
            pyval, mspec, exp = spec_info
            if exp is not None:
                band = norm_band(ins[0]) if args["spec"] == "norm" else np.zeros(exp.shape, bool)
                if res.valid.shape != exp.shape or not np.array_equal(res.valid[~band], exp[~band]):
                    fail(f"[{tag}] mask is not what the argument says ({int(res.valid.sum())} vs {int(exp.sum())} valid cells)")
                so["band"] = band.reshape(-1).tolist()
                if band.any() and res.valid.shape == exp.shape:
                    # lengths within rounding of the threshold: either outcome is allowed; the model is told the observed one
                    # (stand-in length 1 / 0) so that later steps of the program stay comparable
                    mspec = dict(mspec, vals=[(Qs([1.0] + [0.0] * (len(row) - 1)) if v else Qs([0.0] * len(row))) if b else row
                                              for row, b, v in zip(mspec["vals"], so["band"], res.valid.reshape(-1).tolist())])
            if isinstance(pyval, np.ndarray):
                if np.shares_memory(res.valid, pyval):
                    fail(f"[{tag}] stored validity shares memory with the array that was assigned")
                keep = res.valid.copy()
                pyval[...] = 1 - pyval if pyval.dtype != bool else ~pyval
                if not np.array_equal(keep, res.valid):
                    fail(f"[{tag}] changing the assigned array afterwards changed the field's validity")
            so["mspec"] = mspec
        write_probe(tag, res, vals, snaps, rng, fail)
        vals.append(res)
        so.update(ok=True, shape=[int(k) for k in res.valid.shape], mask=res.valid.reshape(-1).astype(bool).tolist(),
                  shared=shared or [], same_obj=[i for i, g in enumerate(vals[:-1]) if g is res])
    return obs


def patch_band(mspec, band, observed):
    """'norm' cells whose length is within rounding of the threshold: either outcome is allowed, the model is told the
    observed one (stand-in length 1 / 0)"""
    return dict(mspec, vals=[(Qs([1.0] + [0.0] * (len(row) - 1)) if v else Qs([0.0] * len(row))) if b else row
                             for row, b, v in zip(mspec["vals"], band, observed)])


def snapshot(vals):
    return [dict(shape=[int(k) for k in f.valid.shape], data=np.asarray(f.valid).astype(bool).reshape(-1).tolist(),
                 same=min(j for j, g in enumerate(vals) if g is f),
                 mem=min(j for j, g in enumerate(vals) if np.shares_memory(g.valid, f.valid)),
                 mesh=min(j for j, g in enumerate(vals) if g.mesh is f.mesh), meshn=[int(k) for k in f.mesh.n])
            for f in vals]


def run_hist(case):
    rng = random.Random(case["sub"])
    obs = {"oracle": [], "tags": ["kind:hist", f"ndim:{len(case['mesh']['n'])}"], "stmts": [], "leafmasks": []}
    fail = obs["oracle"].append
    # every input field on a Mesh object of its own (equal meshes)
    vals = [build_leaf(fieldio.build_mesh(case["mesh"]), l, rng) for l in case["leaves"]]
    obs["leafmasks"] = [dict(shape=[int(k) for k in f.valid.shape], data=f.valid.reshape(-1).tolist()) for f in vals]
    obs["nontrivial"] = any(0 < int(f.valid.sum()) < f.valid.size for f in vals) and any(st["s"] != "build" for st in case["stmts"])
    for st in case["stmts"]:
        kind = st["s"]
        snaps = [mask_bytes(g) for g in vals]
        arrays = [np.array(g.array, copy=True) for g in vals]
        so = dict(ok=False, s=kind)
        obs["stmts"].append(so)
        tag = kind
        try:
            if kind == "build":
                name, args = st["op"], st["args"]
                cls = OPS[name]
                tag = name
                obs["tags"].append("op:" + name)
                ins = [vals[i] for i in st["in"]]
                so.update(ndim_in=int(ins[0].mesh.region.ndim), nvdim_in=int(ins[0].nvdim), n_in=[int(k) for k in ins[0].mesh.n])
                res = cls.run(ins, args)
                check_result(tag, res, vals, snaps, fail)
                if not isinstance(res, df.Field):
                    break
                vals.append(res)
            else:
                i = st["i"]
                tgt = vals[i]
                obs["tags"].append("inplace:" + kind)
                old_buf = tgt.valid  # a reference taken before the statement (`v = f.valid`)
                old_bytes = old_buf.tobytes()
                if kind == "assign":
                    tag = "assign:" + st["spec"]
                    pyval, mspec, exp, _ = make_spec(st["spec"], tgt, random.Random(st["seed"]))
                    tgt.valid = pyval
                    if exp is not None:
                        band = norm_band(tgt) if st["spec"] == "norm" else np.zeros(exp.shape, bool)
                        if tgt.valid.shape != exp.shape or not np.array_equal(tgt.valid[~band], exp[~band]):
                            fail(f"[{tag}] mask is not what the argument says ({int(tgt.valid.sum())} vs {int(exp.sum())} valid cells)")
                        elif band.any():
                            mspec = patch_band(mspec, band.reshape(-1).tolist(), tgt.valid.reshape(-1).tolist())
                    if isinstance(pyval, np.ndarray) and np.shares_memory(tgt.valid, pyval):
                        fail(f"[{tag}] stored validity shares memory with the array that was assigned")
                    so["mspec"] = mspec
                elif kind == "poke":
                    idx = tuple(int(k) for k in np.unravel_index(st["pos"], tgt.valid.shape))
                    tgt.valid[idx] = st["v"]
                elif kind == "rotI":
                    a = st["args"]
                    if any((g is not tgt) and (g.mesh is tgt.mesh) for g in vals):
                        obs["tags"].append("rotI:shared-mesh")
                    d = tgt.mesh.region.dims
                    kw = dict(k=a["turns"])
                    if a["ref"]:
                        kw["reference_point"] = tuple(float(x) for x in tgt.mesh.region.pmin)
                    r = tgt.rotate90(d[a["a"]], d[a["b"]], inplace=True, **kw)
                    if r is not tgt:
                        fail("[rotI] in-place rotate90 did not return the field itself")
                # store model: assignment / in-place rotation bind a NEW buffer, the old one stays as it was
                so["old_buffer_kept"] = kind == "poke" or (old_buf.tobytes() == old_bytes and not np.shares_memory(old_buf, tgt.valid))
                # ---- the property, on the real code alone
                v = tgt.valid
                if not isinstance(v, np.ndarray) or v.dtype != np.bool_:
                    fail(f"[{tag}] validity has dtype {getattr(v, 'dtype', type(v))}, not bool")
                if tuple(v.shape) != tuple(int(k) for k in tgt.mesh.n):
                    fail(f"[{tag}] validity has shape {tuple(v.shape)}, mesh.n is {tuple(int(k) for k in tgt.mesh.n)}")
                if kind in ("assign", "poke") and not np.array_equal(arrays[i], tgt.array, equal_nan=True):
                    fail(f"[{tag}] changing the validity of value {i} changed its stored values")
                for j, g in enumerate(vals):
                    if g is tgt:
                        continue
                    if mask_bytes(g) != snaps[j]:
                        fail(f"[{tag}] changing the validity of value {i} in place changed the validity of value {j}")
                    if not np.array_equal(arrays[j], g.array, equal_nan=True):
                        fail(f"[{tag}] changing value {i} in place changed the stored values of value {j}")
            # every live field: validity is a Boolean array of the shape of ITS mesh (an in-place change of another field
            # that shares the Mesh object must not pull the mesh away from under it)
            for j, g in enumerate(vals):
                if tuple(g.valid.shape) != tuple(int(k) for k in g.mesh.n):
                    fail(f"[{tag}] afterwards value {j} has validity of shape {tuple(g.valid.shape)} on a mesh with n = "
                         f"{tuple(int(k) for k in g.mesh.n)}")
        except Exception as e:
            if isinstance(e, (RuntimeError, ValueError)) and any(r in str(e) for r in REFUSALS):
                obs["tags"].append("refused:" + tag)
                so["raised"] = "refused"
                break
            fail(f"[{tag}] raised {type(e).__name__}: {str(e)[:160]}")
            so["raised"] = type(e).__name__
            break
        so.update(ok=True, state=snapshot(vals))
    return obs


def run_setter(case):
    rng = random.Random(case["sub"])
    obs = {"oracle": [], "tags": ["kind:setter", "spec:" + case["spec"], "ctor:" + str(case["ctor"])]}
    fail = obs["oracle"].append
    mesh = fieldio.build_mesh(case["mesh"])
    n = tuple(int(k) for k in mesh.n)
    nv = case["nvdim"]
    size = int(np.prod(n))
    if case["tiny"]:
        pool = [0.0, 3e-9, -4e-9, 5e-9, 6e-9, -9e-9, 7e-9, 7.1e-9, 1e-8, -1e-8, 1.2e-8, 1e-7, 1.0, 1e-12, 9.9e-9, 1.01e-8]
        arr = np.array([rng.choice(pool) for _ in range(size * nv)]).reshape(*n, nv)
    else:
        arr = fieldio.gen_int_array(rng, (*n, nv), -3, 3)
    m0 = fieldio.gen_mask(rng, n, 0.6)
    f = df.Field(mesh, nvdim=nv, value=arr, valid=m0, unit="T")
    obs["field"] = fieldio.field_json(f)
    tag = "set:" + case["spec"]
    pyval, mspec, exp, _ = make_spec(case["spec"], f, rng)
    obs["mspec"] = mspec
    before = f.array.copy()
    before_valid = f.valid.copy()
    try:
        if case["ctor"]:
            g = df.Field(mesh, nvdim=nv, value=arr, valid=pyval, unit="T")
        else:
            g = f
            g.valid = pyval
        obs["ok"] = True
    except Exception as e:
        obs["ok"] = False
        obs["err"] = type(e).__name__
        if not np.array_equal(f.array, before) or not np.array_equal(f.valid, before_valid):
            fail(f"[{tag}] a rejected assignment changed the field")
        if exp is not None:
            fail(f"[{tag}] raised {type(e).__name__}: {str(e)[:120]}")
        obs["nontrivial"] = True
        return obs
    obs["res"] = fieldio.field_json(g)
    v = g.valid
    if not isinstance(v, np.ndarray) or v.dtype != np.bool_:
        fail(f"[{tag}] validity has dtype {getattr(v, 'dtype', type(v))}, not bool")
    if tuple(v.shape) != n:
        fail(f"[{tag}] validity has shape {tuple(v.shape)}, mesh.n is {n}")
    if not np.array_equal(g.array, before):
        fail(f"[{tag}] setting validity changed the stored values")
    band = norm_band(g) if case["spec"] == "norm" else np.zeros(n, bool)
    obs["band"] = band.reshape(-1).tolist()
    if exp is not None and tuple(v.shape) == n and not np.array_equal(v[~band], exp[~band]):
        bad = np.argwhere((v != exp) & ~band)[0].tolist()
        fail(f"[{tag}] mask is not what the argument says: cell {bad} is {bool(v[tuple(bad)])}, value there {g.array[tuple(bad)].tolist()}")
    # (a malformed argument that is accepted is not a property failure as long as the result is a bool array of the mesh
    #  shape; accept/reject is compared with the model)
    if isinstance(pyval, np.ndarray):
        if np.shares_memory(v, pyval):
            fail(f"[{tag}] stored validity shares memory with the assigned array")
        keep = v.copy()
        pyval[...] = (~pyval) if pyval.dtype == bool else (1 - pyval)
        if not np.array_equal(keep, g.valid):
            fail(f"[{tag}] changing the assigned array afterwards changed the field's validity")
    if isinstance(pyval, df.Field) and (np.shares_memory(v, pyval.array) or np.shares_memory(v, pyval.valid)):
        fail(f"[{tag}] stored validity shares memory with the field that was assigned")
    obs["nontrivial"] = exp is not None and 0 < int(exp.sum()) < exp.size
    return obs


# ============================================================================ dictionary over subregions (kind "dict")
DICT_FLAVOURS = ["cover", "cover", "partial_const", "partial_func", "partial_none", "overlap", "overlap", "missing_keys",
                 "bad_value", "bad_shape", "random", "random", "random"]


def _dict_blocks(flavour, n, rng):
    """subregions as blocks of whole cells [lo, hi) per axis, in the order they are handed to the mesh"""
    nd = len(n)
    if flavour == "cover":  # two or three slabs along one axis that together cover the mesh (possibly overlapping)
        ax = rng.randrange(nd)
        if n[ax] == 1:
            return [([0] * nd, list(n))]
        cut = rng.randint(1, n[ax] - 1)
        cut2 = rng.randint(0, cut)  # second slab starts at or before the end of the first: overlap
        a = ([0] * nd, [cut if b == ax else n[b] for b in range(nd)])
        b_ = ([cut2 if b == ax else 0 for b in range(nd)], list(n))
        blocks = [a, b_]
        rng.shuffle(blocks)
        return blocks
    k = rng.choice([1, 2, 2, 3])
    blocks = []
    for _ in range(k):
        lo = [rng.randrange(m) for m in n]
        hi = [rng.randint(l + 1, m) for l, m in zip(lo, n)]
        blocks.append((lo, hi))
    if flavour == "overlap" and len(blocks) >= 1:
        lo, hi = blocks[0]
        blocks.append(([max(0, l - 1) for l in lo], [min(m, h + rng.randint(0, 1)) for h, m in zip(hi, n)]))
    return blocks


def _dict_value(kind, subn, pmin, cell, lo, rng):
    """(python value, model DVal, expected mask on the block or None = must be rejected)"""
    subn = tuple(subn)
    size = int(np.prod(subn))
    if kind == "const":
        v = rng.choice([True, False, 0, 1, 2.5, 0.0, -1])
        return v, dict(kind="const", v=Q(Fraction(float(v)))), np.full(subn, bool(v))
    if kind in ("arr", "list"):
        a = np.array([rng.choice([0.0, 1.0, -2.0, 0.0]) for _ in range(size)]).reshape(subn)
        if rng.random() < 0.5:
            a = a != 0
        py = a.tolist() if kind == "list" else a
        return py, dict(kind="arr", shape=list(a.shape), data=Qs(np.asarray(a, dtype=float).reshape(-1).tolist())), np.asarray(a) != 0
    if kind == "arr_col":
        a = np.array([rng.choice([0.0, 1.0]) for _ in range(size)]).reshape(*subn, 1)
        return a, dict(kind="arr", shape=list(a.shape), data=Qs(a.reshape(-1).tolist())), a[..., 0] != 0
    if kind == "arr_one":
        a = np.array([rng.choice([0.0, 1.0])]).reshape((1,) * (len(subn) + 1))
        if tuple(a.shape) == subn:
            a = a.reshape((1,) * (len(subn) + 2))
            return a, dict(kind="arr", shape=list(a.shape), data=Qs(a.reshape(-1).tolist())), None
        return a, dict(kind="arr", shape=list(a.shape), data=Qs(a.reshape(-1).tolist())), np.full(subn, bool(a.reshape(-1)[0]))
    if kind == "func":
        ax = rng.randrange(len(subn))
        c = pmin[ax] + (rng.randint(0, 6) + Fraction(rng.choice([-1, 1]), 4)) * cell[ax]  # 1/4 cell off a face: off centres and corners
        cf = float(c)
        exp = np.zeros(subn, bool)
        for idx in np.ndindex(*subn):
            exp[idx] = pmin[ax] + (lo[ax] + idx[ax] + Fraction(1, 2)) * cell[ax] < c
        return (lambda p: p[ax] < cf), dict(kind="func", fun=dict(kind="halfspace", ax=ax, c=Q(c))), exp
    if kind == "bad":
        return rng.choice(["abc", None, "norm"]), dict(kind="bad"), None
    if kind == "bad_shape":
        shp = list(subn)
        shp[rng.randrange(len(shp))] += 1
        a = np.ones(shp)
        if tuple(shp) == subn or shp[-1] == 1:
            shp = list(subn) + [2]
            a = np.ones(shp)
        return a, dict(kind="arr", shape=list(a.shape), data=Qs(a.reshape(-1).tolist())), None
    raise ValueError(kind)


def run_dict(case):
    rng = random.Random(case["sub"])
    fl = case["flavour"]
    obs = {"oracle": [], "tags": ["kind:dict", "flavour:" + fl, "ctor:" + str(case["ctor"])]}
    fail = obs["oracle"].append
    m0 = fieldio.build_mesh(case["mesh"])
    n = tuple(int(k) for k in m0.n)
    pmin, cell = centres_exact(m0)
    blocks = _dict_blocks(fl, n, rng)
    names = [f"r{k}" for k in range(len(blocks))]
    subregions = {nm: df.Region(p1=[float(p + l * c) for p, l, c in zip(pmin, lo, cell)],
                                p2=[float(p + h * c) for p, h, c in zip(pmin, hi, cell)])
                  for nm, (lo, hi) in zip(names, blocks)}
    mesh = fieldio.build_mesh(case["mesh"], subregions=subregions)
    nv = case["nvdim"]
    arr = fieldio.gen_int_array(rng, (*n, nv), -3, 3)
    mask0 = fieldio.gen_mask(rng, n, 0.6)
    f = df.Field(mesh, nvdim=nv, value=arr, valid=mask0, unit="T")
    obs["field"] = fieldio.field_json(f)
    # ---- the dictionary
    good = ["const", "const", "arr", "list", "arr_col", "arr_one", "func", "func"]
    val, entries, exps = {}, [], {}
    for k, (nm, (lo, hi)) in enumerate(zip(names, blocks)):
        if fl in ("missing_keys", "random", "partial_none") and rng.random() < 0.35:
            continue
        kind = rng.choice(good)
        if fl == "bad_value" and (k == 0 or rng.random() < 0.3):
            kind = "bad"
        if fl == "bad_shape" and (k == 0 or rng.random() < 0.3):
            kind = "bad_shape"
        py, mv, exp = _dict_value(kind, [h - l for l, h in zip(lo, hi)], pmin, cell, lo, rng)
        val[nm] = py
        entries.append(dict(name=nm, val=mv))
        exps[nm] = exp
    if fl in ("random", "missing_keys") and rng.random() < 0.2:
        val["nosuchregion"] = True  # a key that names no subregion is never looked at
        entries.append(dict(name="nosuchregion", val=dict(kind="const", v=Q(1))))
    dk = {"partial_const": "const", "partial_func": "func", "partial_none": "none"}.get(fl) or rng.choice(["none", "const", "func", "none"])
    dflt_exp = None
    if dk == "const":
        v = rng.choice([True, False, 0, 3])
        val["default"] = v
        dj = dict(kind="const", v=Q(Fraction(float(v))))
        dflt_exp = np.full(n, bool(v))
    elif dk == "func":
        ax = rng.randrange(len(n))
        c = pmin[ax] + (rng.randint(0, n[ax]) + Fraction(rng.choice([-1, 1]), 4)) * cell[ax]
        cf = float(c)
        val["default"] = lambda p: p[ax] < cf
        dj = dict(kind="func", fun=dict(kind="halfspace", ax=ax, c=Q(c)))
        dflt_exp = np.zeros(n, bool)
        for idx in np.ndindex(*n):
            dflt_exp[idx] = pmin[ax] + (idx[ax] + Fraction(1, 2)) * cell[ax] < c
    else:
        dj = dict(kind="none")
    obs["default"], obs["entries"] = dj, entries
    # ---- what the property promises: the FIRST subregion (mesh order) that is a key and contains the cell, else the default
    expect_err = any(nm in exps and exps[nm] is None for nm in names)
    exp = np.zeros(n, bool)
    if not expect_err:
        for idx in np.ndindex(*n):
            for nm, (lo, hi) in zip(names, blocks):
                if nm in exps and all(l <= i < h for i, l, h in zip(idx, lo, hi)):
                    exp[idx] = exps[nm][tuple(i - l for i, l in zip(idx, lo))]
                    break
            else:
                if dflt_exp is None:
                    expect_err = True
                    break
                exp[idx] = dflt_exp[idx]
    tag = "dict:" + fl
    before, before_valid = f.array.copy(), f.valid.copy()
    try:
        if case["ctor"]:
            g = df.Field(mesh, nvdim=nv, value=arr, valid=val, unit="T")
        else:
            g = f
            g.valid = val
        obs["ok"] = True
    except Exception as e:
        obs["ok"] = False
        obs["err"] = type(e).__name__
        if not np.array_equal(f.array, before) or not np.array_equal(f.valid, before_valid):
            fail(f"[{tag}] a rejected assignment changed the field")
        if not expect_err:
            fail(f"[{tag}] raised {type(e).__name__}: {str(e)[:120]}")
        obs["nontrivial"] = True
        return obs
    obs["res"] = fieldio.field_json(g)
    v = g.valid
    if not isinstance(v, np.ndarray) or v.dtype != np.bool_:
        fail(f"[{tag}] validity has dtype {getattr(v, 'dtype', type(v))}, not bool")
    if tuple(v.shape) != n:
        fail(f"[{tag}] validity has shape {tuple(v.shape)}, mesh.n is {n}")
    if not np.array_equal(g.array, before):
        fail(f"[{tag}] setting validity changed the stored values")
    if not expect_err and tuple(v.shape) == n and not np.array_equal(v, exp):
        bad = np.argwhere(v != exp)[0].tolist()
        fail(f"[{tag}] mask is not what the dictionary says: cell {bad} is {bool(v[tuple(bad)])}")
    for nm, py in val.items():
        if isinstance(py, np.ndarray) and np.shares_memory(v, py):
            fail(f"[{tag}] stored validity shares memory with the array under key {nm!r}")
    obs["nontrivial"] = (not expect_err) and 0 < int(exp.sum()) < exp.size
    return obs


# ============================================================================ geometry stream (kind "geo")
# The cell-mapping operations that LOCATE cells from coordinates (resample: nearest old cell of every new cell centre;
# sel / field[region]: the cell of a point) on meshes of the tolerance regime: arbitrary binary64 corners (cell sizes
# 1e-12 .. 1e6, regions at / across / far from the origin), up to thousands of cells along one axis, all value dtypes,
# new cell centres exactly ON the border of two old cells (even down-sampling ratios: floating-point rounding of the
# coordinates decides the source cell, differently from cell to cell) and selection points at 1e-1 .. 1e-15 of a cell on
# either side of a cell face / the region boundary.  The field's values NAME its cells, so the result itself tells which
# cell every value was taken from; the property demands that its validity is the validity of exactly that cell.
GEO_OPS = ["resample", "resample", "resample", "sel_plane", "sel_range", "crop"]
GEO_DTYPES = ["float64", "float64", "float64", "complex128", "float32", "int64"]
GEO_PATTERNS = ["stripes", "stripes", "checker", "random", "random", "one_invalid", "one_valid", "blocks"]
GEO_MODEL_COST = 40000  # model cost of a resample request ~ cells of the result x cells per axis of the source


def _geo_near(rng, n, sharp=False):
    """a position near cell face k (0..n, the region boundary included): (k, exponent e, side s) = face k + s*10^-e cells"""
    k = rng.choice([0, n, rng.randint(0, n), rng.randint(0, n)])
    s = rng.choice([-1, 1])
    if k in (0, n) and rng.random() < 0.8:
        s = 1 if k == 0 else -1  # mostly just inside the region boundary (just outside: the library refuses the point)
    if rng.random() < (0.6 if sharp else 0.3):
        # the binary64 numbers around the face itself: the face as floating-point arithmetic gives it, 0-3 ulps away
        return dict(k=k, ulp=s * rng.choice([0, 1, 1, 2, 3]), via=rng.choice(["exact", "mul"]))
    return dict(k=k, e=rng.randint(12, 17) if sharp else rng.choice([rng.randint(1, 15), rng.randint(12, 17)]), s=s)


def _geo_resample_target(rng, n, long_axis):
    """cells of the resampled axis: every relation to the old count - even ratios (new centres ON old cell borders), odd
    ratios (centre on centre), up-sampling, neighbouring counts (centres drift across the borders), unrelated counts"""
    cap = 8192 if long_axis else 24
    opts = ["any", "same", "pm1", "up"]
    divs_even = [m for m in range(1, n) if n % m == 0 and (n // m) % 2 == 0]
    divs_odd = [m for m in range(1, n) if n % m == 0 and (n // m) % 2 == 1]
    # n / gcd(n, m) even  <=>  some centre of the m-cell axis lies exactly on a border of the n-cell axis
    tie_other = [m for m in ([rng.randint(1, cap) for _ in range(40)] if long_axis else range(1, cap + 1))
                 if (n // np.gcd(n, m)) % 2 == 0 and n % m != 0]
    if divs_even:
        opts += ["even"] * 4
    if divs_odd:
        opts += ["odd"]
    if tie_other:
        opts += ["tie_other"] * 2
    k = rng.choice(opts)
    if k == "any":
        m = rng.randint(1, min(cap, 3 * n + 2))
    elif k == "same":
        m = n
    elif k == "pm1":
        m = max(1, n + rng.choice([-2, -1, 1, 2]))
    elif k == "up":
        m = n * rng.randint(2, 4)
    elif k == "even":
        m = rng.choice(divs_even)
    elif k == "odd":
        m = rng.choice(divs_odd)
    else:
        m = rng.choice(tie_other)
    return int(min(max(m, 1), cap))


def gen_geo(rng, size_class):
    nd = rng.choice([1, 1, 2, 2, 3])
    la = None
    if size_class == "long":
        la = rng.randrange(nd)
        n = [rng.randint(1, 3) for _ in range(nd)]
        n[la] = rng.choice([rng.randint(300, 1200), rng.randint(1200, 4000), 2 ** rng.randint(9, 12), 1000, 3000, 6 * rng.randint(50, 600)])
    else:
        n = [rng.choice([rng.randint(1, 12), rng.randint(1, 12), 2 * rng.randint(1, 8), 6, 10]) for _ in range(nd)]
        while int(np.prod(n)) > 500:
            n[n.index(max(n))] = max(1, max(n) // 2)
    # ---- geometry: arbitrary floats
    e10 = rng.randint(-12, 6)
    p1, p2 = [], []
    for a in range(nd):
        style = rng.choice(["decimal", "decimal", "uniform", "dyadic"])
        if style == "decimal":
            m = rng.choice([1.0, 2.0, 2.5, 3.0, 5.0, 7.0, 0.3, 0.6, 1.25, 4.0 / 3.0, 2.0 / 3.0])
        elif style == "uniform":
            m = rng.uniform(1.0, 10.0)
        else:
            m = 2.0 ** rng.randint(-3, 3)
        cell = m * 10.0 ** (e10 + rng.choice([0, 0, 0, 1, 2]))
        if style == "dyadic" and rng.random() < 0.5:
            cell = m  # cells and corners on the binary grid
        edge = cell * n[a]
        off = rng.choice(["zero", "zero", "across", "centred", "aligned", "aligned", "far", "far"])
        if off == "zero":
            lo = 0.0
        elif off == "across":
            lo = -edge * rng.random()
        elif off == "centred":
            lo = -edge / 2
        elif off == "aligned":  # a multiple of the cell, like a region cut out of a larger grid
            lo = cell * rng.randint(-1000, 1000)
        else:  # far from the origin; coordinates still resolve 2^-22 of a cell
            kmax = max(0, int(np.floor(np.log10(2.0 ** 30 / n[a]))))
            lo = rng.choice([-1, 1]) * edge * 10.0 ** rng.randint(0, kmax) * rng.choice([1.0, rng.uniform(1.0, 3.0)])
        hi = lo + edge
        if rng.random() < 0.25:
            lo, hi = hi, lo  # corners in any order
        p1.append(float(lo))
        p2.append(float(hi))
    op = rng.choice(GEO_OPS)
    if op == "sel_plane" and nd == 1:
        op = "resample"
    if op == "resample":
        args = dict(n=[_geo_resample_target(rng, n[a], a == la) for a in range(nd)])
        if la is None:
            while int(np.prod(args["n"])) > 1500:
                b = args["n"].index(max(args["n"]))
                args["n"][b] = max(1, args["n"][b] // 2)
    elif op == "sel_plane":
        ax = rng.randrange(nd)
        args = dict(ax=ax, at=_geo_near(rng, n[ax]))
    elif op == "sel_range":
        ax = rng.randrange(nd)
        args = dict(ax=ax, a=_geo_near(rng, n[ax]), b=_geo_near(rng, n[ax]))
    else:
        args = dict(lo=[_geo_near(rng, m) for m in n], hi=[_geo_near(rng, m) for m in n])
    if op != "resample":
        # the same kind of selection at 12-24 further positions of this mesh, mostly within a few ulps / 1e-12 cells of a face
        more = []
        for _ in range(rng.randint(12, 24)):
            if op == "sel_plane":
                more.append(dict(ax=args["ax"], at=_geo_near(rng, n[args["ax"]], sharp=True)))
            elif op == "sel_range":
                more.append(dict(ax=args["ax"], a=_geo_near(rng, n[args["ax"]], sharp=True), b=_geo_near(rng, n[args["ax"]], sharp=True)))
            else:
                more.append(dict(lo=[_geo_near(rng, m, sharp=True) for m in n], hi=[_geo_near(rng, m, sharp=True) for m in n]))
        args["more"] = more
    # patterns that tell neighbouring cells apart along the axis that matters are drawn more often
    pattern = rng.choice(GEO_PATTERNS + (["stripes_ax"] * 6 + ["checker"] * 3 if op in ("sel_plane", "sel_range") else ["checker"] * 5))
    return dict(kind="geo", p1=p1, p2=p2, n=n, nvdim=rng.choice([1, 1, 2, 3]), dtype=rng.choice(GEO_DTYPES),
                pattern=pattern, op=op, args=args, size=size_class, sub=rng.getrandbits(32))


def geo_mask(pattern, n, rng, ax=None):
    idx = np.indices(n)
    if pattern == "stripes_ax":
        return (idx[ax if ax is not None else 0] + rng.randrange(2)) % 2 == 0
    if pattern == "stripes":
        ax = rng.randrange(len(n))
        return (idx[ax] + rng.randrange(2)) % 2 == 0
    if pattern == "checker":
        return (idx.sum(axis=0) + rng.randrange(2)) % 2 == 0
    if pattern == "blocks":
        ax = rng.randrange(len(n))
        w = rng.randint(1, 3)
        return (idx[ax] // w) % 2 == 0
    if pattern in ("one_invalid", "one_valid"):
        m = np.full(n, pattern == "one_invalid")
        m[tuple(rng.randrange(k) for k in n)] = pattern != "one_invalid"
        return m
    return fieldio.gen_mask(rng, n, rng.choice([0.8, 0.5, 0.3]))


def _geo_point(lo, cell, pos):
    """the binary64 number nearest to face k + s*10^-e cells, or a neighbour (in ulps) of face k as computed in floats"""
    if "ulp" in pos:
        if pos["via"] == "exact":
            x = float(lo + pos["k"] * cell)
        else:
            x = float(lo) + pos["k"] * float(cell)
        for _ in range(abs(pos["ulp"])):
            x = float(np.nextafter(x, np.inf if pos["ulp"] > 0 else -np.inf))
        return x
    return float(lo + (pos["k"] + Fraction(pos["s"], 10 ** pos["e"])) * cell)


def _geo_dist_tag(pos):
    return "geo-face-distance:" + (f"{abs(pos['ulp'])}ulp" if "ulp" in pos else f"1e-{pos['e']:02d}")


def geo_call(f, case):
    """the public call of the case on a field (or on a mesh); returns (result, exact positions of the arguments in cell
    units or None)"""
    op, a = case["op"], case["args"]
    mesh = f if isinstance(f, df.Mesh) else f.mesh
    d = mesh.region.dims
    lo = [Fraction(float(x)) for x in mesh.region.pmin]
    hi = [Fraction(float(x)) for x in mesh.region.pmax]
    n = [int(k) for k in mesh.n]
    cell = [(h - l) / k for l, h, k in zip(lo, hi, n)]
    if op == "resample":
        return f.resample(tuple(a["n"])), None
    if op == "sel_plane":
        x = _geo_point(lo[a["ax"]], cell[a["ax"]], a["at"])
        return f.sel(**{d[a["ax"]]: x}), [(Fraction(x) - lo[a["ax"]]) / cell[a["ax"]]]
    if op == "sel_range":
        xs = [_geo_point(lo[a["ax"]], cell[a["ax"]], a[key]) for key in ("a", "b")]
        return f.sel(**{d[a["ax"]]: tuple(xs)}), [(Fraction(x) - lo[a["ax"]]) / cell[a["ax"]] for x in sorted(xs)]
    q1 = [_geo_point(l, c, p) for l, c, p in zip(lo, cell, a["lo"])]
    q2 = [_geo_point(l, c, p) for l, c, p in zip(lo, cell, a["hi"])]
    pos = [[(Fraction(min(x, y)) - l) / c for x, y, l, c in zip(q1, q2, lo, cell)],
           [(Fraction(max(x, y)) - l) / c for x, y, l, c in zip(q1, q2, lo, cell)]]
    return f[df.Region(p1=q1, p2=q2, dims=d, units=mesh.region.units)], pos


def _cell_candidates(x, n, upper=False):
    """cells (0..n-1) a point at exact position x (cell units) may be attributed to: the cell that contains it; next to a
    face (closer than 5e-3 of a cell - no property pins the treatment of such points) the cell on either side.  `upper`:
    the point is the UPPER end of a box (a box ending ON a face does not reach into the next cell)"""
    k = x.numerator // x.denominator
    c = {k - 1 if (upper and x == k) else k}
    fr = x - k
    if fr < Fraction(5, 1000):
        c |= {k - 1, k}
    if 1 - fr < Fraction(5, 1000):
        c |= {k, k + 1}
    return {min(max(i, 0), n - 1) for i in c}


def geo_probe(f, ids, mask, before, case, snaps, obs, extra=False):
    """one public call on the cell-numbered field `f`: structural and ownership checks, then the property - every result
    cell carries the validity of the operand cell whose value it holds.  Returns (result, exact argument positions,
    source cell of every result cell) or None (no result / not a field / values not readable)"""
    op, a = case["op"], case["args"]
    fail = obs["oracle"].append
    n = tuple(int(k) for k in f.mesh.n)
    size = int(np.prod(n))
    tag = "geo:" + op
    if extra:
        obs["tags"] += ["geo-extra-probe"] + [_geo_dist_tag(p) for p in ([a["at"]] if op == "sel_plane" else [a["a"], a["b"]] if op == "sel_range"
                                                                      else a["lo"] + a["hi"])]
    try:
        res, pos = geo_call(f, case)
    except Exception as e:
        if op == "resample":
            fail(f"[{tag}] raised {type(e).__name__}: {str(e)[:160]} (region {case['p1']}..{case['p2']}, n {list(n)} -> {a['n']})")
        # a point / box the library does not accept (outside the region by rounding, ...): no result, nothing for C08 -
        # provided the MESH refuses it as well; a box the mesh accepts must not fail for the field's data or validity
        else:
            try:
                geo_call(f.mesh, case)
                mesh_ok = True
            except Exception:
                mesh_ok = False
            if mesh_ok:
                fail(f"[{tag}] raised {type(e).__name__}: {str(e)[:160]} although the mesh accepts the same selection "
                     f"(region {case['p1']}..{case['p2']}, n {list(n)}, {a})")
        obs["tags"].append(f"geo-raised:{op}")
        return None
    if not isinstance(res, df.Field):
        # sel of the only axis of a 1-d mesh etc. returns plain values
        obs["tags"].append(f"geo-nofield:{op}")
        return None
    check_result(tag, res, [f], snaps, fail)
    if not np.array_equal(before, f.array):
        fail(f"[{tag}] changed the stored values of its operand")
    rn = tuple(int(k) for k in res.mesh.n)
    if res.valid.shape != rn or res.array.shape[:-1] != rn:
        return None
    # ---- which cell was every value taken from?  (component 0 holds the cell numbers)
    got = np.asarray(res.array)[..., 0].real
    src = np.rint(got).astype(np.int64) - 1
    if src.size == 0 or src.min() < 0 or src.max() >= size or not np.array_equal(got, ids.reshape(-1)[src.reshape(-1)].reshape(rn)):
        obs["tags"].append("geo-unreadable-values")  # the VALUES are not cell values of the operand: not C08's matter
        return None
    exp = mask.reshape(-1)[src.reshape(-1)].reshape(rn)
    if not np.array_equal(res.valid, exp):
        j = tuple(int(k) for k in np.argwhere(res.valid != exp)[0])
        i = tuple(int(k) for k in np.unravel_index(int(src[j]), n))
        fail(f"[{tag}] validity is not moved like the data: result cell {list(j)} holds the value of operand cell {list(i)} "
             f"(valid={bool(mask[i])}) but is marked valid={bool(res.valid[j])}; {int((res.valid != exp).sum())} of {exp.size} "
             f"cells differ; region {case['p1']}..{case['p2']}, n={list(n)}, dtype={case['dtype']}, {op} {a}")
    return res, pos, src


def run_geo(case):
    rng = random.Random(case["sub"])
    op, a = case["op"], case["args"]
    nd = len(case["n"])
    scale = max(abs(x) for x in case["p1"] + case["p2"])
    obs = {"oracle": [], "ok": False,
           "tags": ["kind:geo", "geo:" + op, f"geo-ndim:{nd}", "geo-dtype:" + case["dtype"], "geo-size:" + case["size"],
                    "geo-pattern:" + case["pattern"], "geo-cellscale:1e%+03d" % int(np.floor(np.log10(abs(case["p2"][0] - case["p1"][0]) / case["n"][0]))),
                    "geo-offset:" + ("origin" if min(min(abs(x), abs(y)) for x, y in zip(case["p1"], case["p2"])) == 0 else
                                     "across" if any(x * y < 0 for x, y in zip(case["p1"], case["p2"])) else
                                     "far" if any(min(abs(x), abs(y)) > 8 * abs(x - y) for x, y in zip(case["p1"], case["p2"])) else "near")]}
    fail = obs["oracle"].append
    mesh = df.Mesh(p1=tuple(case["p1"]), p2=tuple(case["p2"]), n=tuple(case["n"]))
    n = tuple(int(k) for k in mesh.n)
    size = int(np.prod(n))
    ids = (np.arange(size) + 1).reshape(n)
    nv = case["nvdim"]
    dt = np.dtype(case["dtype"])
    value = np.stack([ids, -ids, 2 * ids][:nv], axis=-1).astype(dt)
    if dt.kind == "c":
        value = value + 1j * np.stack([ids % 7] * nv, axis=-1)
    mask = geo_mask(case["pattern"], n, rng, a.get("ax"))
    f = df.Field(mesh, nvdim=nv, value=value, dtype=dt, valid=mask)
    obs["leafmask"] = dict(shape=list(n), data=mask.reshape(-1).tolist())
    obs["nontrivial"] = bool(0 < int(mask.sum()) < mask.size)
    snaps = [mask_bytes(f)]
    before = f.array.copy()
    tag = "geo:" + op
    # further positions of the same kind on the same field (selections only): checked on the code alone
    for extra in a.get("more", []):
        geo_probe(f, ids, mask, before, dict(case, args=extra), snaps, obs, extra=True)
    got3 = geo_probe(f, ids, mask, before, case, snaps, obs)
    if got3 is None:
        obs["nontrivial"] = False
        return obs
    res, pos, src = got3
    rn = tuple(int(k) for k in res.mesh.n)
    write_probe(tag, res, [f], snaps, rng, fail)
    obs.update(ok=True, shape=list(rn), mask=res.valid.reshape(-1).astype(bool).tolist())
    # ---- the observed cell map, per axis, for the model (exact geometry decides what is admissible)
    sidx = np.unravel_index(src, n)
    geo_dis = []
    if op == "resample":
        tables, advice, band_axes, nties = [], [], [], 0
        for b in range(nd):
            line = np.moveaxis(sidx[b], b, 0).reshape(rn[b], -1)
            if not (line == line[:, :1]).all():
                geo_dis.append(f"resample: the source cell along axis {b} depends on the other axes (model: nearest cell axis by axis)")
            t = [int(k) for k in line[:, 0]]
            adv, tie = [], []
            for j, i in enumerate(t):
                num, den = (2 * j + 1) * n[b], 2 * rn[b]
                q = num // den
                is_tie = num % den == 0 and 1 <= q <= n[b] - 1
                ok = (i in (q - 1, q)) if is_tie else (i == min(q, n[b] - 1))
                if not ok:
                    geo_dis.append(f"resample {n[b]} -> {rn[b]} cells (axis {b}): new cell {j} took its value from old cell {i}; "
                                   f"its centre lies at {Fraction(num, den)} old cells")
                adv.append(-1 if (is_tie and i == q - 1) else 0)
                tie.append(bool(is_tie))
            nties += sum(tie)
            tables.append(t)
            advice.append(adv)
            band_axes.append(tie)
        obs["tags"].append("geo-resample:" + ("ties" if nties else "tie-free"))
        if nties:
            lefts = sum(1 for adv in advice for s in adv if s)
            obs["tags"].append("geo-ties:" + ("all-up" if lefts == 0 else "all-down" if lefts == nties else "mixed"))
        obs["tags"].append("geo-resample-ratio:" + ("down" if int(np.prod(rn)) < size else "up" if int(np.prod(rn)) > size else "same"))
        cost = int(np.prod(rn)) * sum(n)
        band = np.zeros(rn, bool)
        for b in range(nd):
            shp = [1] * nd
            shp[b] = rn[b]
            band |= np.array(band_axes[b]).reshape(shp)
        obs["band"] = band.reshape(-1).tolist()
        if cost <= GEO_MODEL_COST:
            obs["advice"] = advice
        else:
            # large: the model evaluates `resample` through the closed form of the source cell (theorems
            # nearest_closed_form / resample_fast_is_resample), the array only
            obs["fast"] = True
            obs["tags"].append("geo-model:fast-large")
    else:
        # selection: the block of cells that was extracted
        first = [int(s.reshape(-1)[0]) for s in sidx]
        if op == "sel_plane":
            ax = a["ax"]
            k = first[ax]
            if not (sidx[ax] == k).all():
                geo_dis.append("sel: values of more than one plane")
            if k not in _cell_candidates(pos[0], n[ax]):
                geo_dis.append(f"sel plane: point at {float(pos[0])!r} cells along axis {ax} selected plane {k}")
            obs["node"] = dict(k="take", ax=ax, i=k)
            obs["tags"].append(_geo_dist_tag(a["at"]))
        else:
            lo = first
            hi = [l + m for l, m in zip(lo, rn)]
            blk = ids[tuple(slice(l, h) for l, h in zip(lo, hi))]
            if blk.shape != rn or not np.array_equal(blk - 1, src):
                geo_dis.append(f"{op}: the result is not a block of neighbouring cells of the operand")
            if op == "sel_range":
                ax = a["ax"]
                if lo[ax] not in _cell_candidates(pos[0], n[ax]) or hi[ax] - 1 not in _cell_candidates(pos[1], n[ax]):
                    geo_dis.append(f"sel range: points at {float(pos[0])!r}, {float(pos[1])!r} cells along axis {ax} selected cells {lo[ax]}..{hi[ax] - 1}")
                if any(l != 0 or h != m for b, (l, h, m) in enumerate(zip(lo, hi, n)) if b != ax):
                    geo_dis.append("sel range: cells dropped along another axis")
                obs["node"] = dict(k="slice", ax=ax, lo=lo[ax], hi=hi[ax])
                obs["tags"] += [_geo_dist_tag(a[key]) for key in ("a", "b")]
            else:
                for b in range(nd):
                    if lo[b] not in _cell_candidates(pos[0][b], n[b]) or hi[b] - 1 not in _cell_candidates(pos[1][b], n[b], upper=True):
                        geo_dis.append(f"field[region]: box from {float(pos[0][b])!r} to {float(pos[1][b])!r} cells along axis {b} "
                                       f"extracted cells {lo[b]}..{hi[b] - 1}")
                obs["node"] = dict(k="crop", lo=lo, hi=hi)
                obs["tags"] += [_geo_dist_tag(p) for p in a["lo"] + a["hi"]]
        if size > GEO_MODEL_COST and "node" in obs:
            # large: the mapping operation alone (driver op `apply`), without index-level reading and store model
            obs["fast"] = True
            obs["tags"].append("geo-model:fast-large")
    obs["geo_dis"] = geo_dis
    return obs


def geo_requests(case, obs):
    if not obs.get("ok"):
        return []
    leaf = obs["leafmask"]
    if case["op"] != "resample":
        if "node" not in obs:
            return []
        if obs.get("fast"):
            return [dict(op="apply", mask=leaf, mop=obs["node"])]
        return [dict(op="eval", leaves=[leaf], prog=dict(t="map", op=obs["node"], p=dict(t="leaf", k=0)))]
    if obs.get("fast"):
        return [dict(op="resamplefast", mask=leaf, n=obs["shape"])]
    if "advice" not in obs:
        return []
    n, n2 = leaf["shape"], obs["shape"]
    # (1) the geometry-free reading: nearest old cell, equally near -> the upper one
    reqs = [dict(op="eval", leaves=[leaf], prog=dict(t="map", op=dict(k="resample", n=n2), p=dict(t="leaf", k=0)))]
    # (2) the constructor's lookup of a Boolean field at the new cell centres, centres in units of 1/(8 n n2) of the edge;
    #     a centre ON a border that the code attributed to the LOWER cell is moved a quarter unit down (any rounding of the
    #     coordinates does that or the opposite, nothing else)
    cs = [[Q(Fraction((2 * i + 1) * 4 * m2, 8 * m * m2)) for i in range(m)] for m, m2 in zip(n, n2)]
    xs = [[Q(Fraction((2 * j + 1) * 4 * m + s, 8 * m * m2)) for j, s in zip(range(m2), adv)] for m, m2, adv in zip(n, n2, obs["advice"])]
    spec = dict(kind="lookup", src=leaf, inside=True, cs=cs, xs=xs)
    dummy = dict(shape=n2, data=[False] * int(np.prod(n2)))
    reqs.append(dict(op="eval", leaves=[leaf, dummy], prog=dict(t="setv", spec=spec, p=dict(t="leaf", k=1))))
    return reqs


def geo_compare(case, obs, rs):
    dis = list(obs.get("geo_dis", []))
    if not obs.get("ok") or not rs:
        return dis
    what = f"geo {case['op']} {case['args']} on n={case['n']}"
    for k, r in enumerate(rs):
        if "ok" not in r:
            dis.append(f"{what}: impl ok vs model {r}")
            continue
        m = r["ok"]
        if m["shape"] != obs["shape"]:
            dis.append(f"{what}: shape impl {obs['shape']} vs model {m['shape']}")
            continue
        # request 0 of a resampling: cells whose centre lies exactly on a border of two old cells are decided by rounding
        band = obs["band"] if (case["op"] == "resample" and k == 0) else [False] * len(m["data"])
        bad = [i for i, (x, y, s) in enumerate(zip(obs["mask"], m["data"], band)) if x != y and not s]
        if bad:
            dis.append(f"{what}: validity impl vs model ({'nearest-cell map' if k == 0 else 'lookup with the observed border decisions'}) "
                       f"differ at {len(bad)} cells, first flat cell {bad[0]} (impl {obs['mask'][bad[0]]})")
        if obs.get("fast"):
            continue
        if r["spec"] != m["data"] or r["shapeOf"] != m["shape"]:
            dis.append(f"{what}: model evaluator and index-level reading disagree")
        if r["alias"] is not None or r["addr"] is None or r["addr"] < r["nleaves"]:
            dis.append(f"{what}: store model does not give the result a buffer of its own (addr {r['addr']}, alias {r['alias']})")
    return dis


def run_impl(case):
    if case["kind"] == "prog":
        return run_prog(case)
    if case["kind"] == "hist":
        return run_hist(case)
    if case["kind"] == "geo":
        return run_geo(case)
    if case["kind"] == "dict":
        return run_dict(case)
    return run_setter(case)


# ============================================================================ model side
def model_tree(case, obs, upto):
    """model program (tree) of step `upto` over the input fields"""
    nl = len(case["leaves"])
    leaves = list(obs["leafmasks"])
    leafvals = list(range(nl))
    memo = {}

    def value(v):
        if v in memo:
            return memo[v]
        if v < nl:
            r = dict(t="leaf", k=v)
        else:
            st = case["steps"][v - nl]
            so = obs["steps"][v - nl]
            cls = OPS[st["op"]]
            if cls.kind == "setv":
                child = value(st["in"][0])
                r = dict(t="setv", spec=so["mspec"], p=un(child))
            else:
                r = cls.node([value(i) for i in st["in"]], st["args"], so)
        memo[v] = r
        return r

    tree = value(nl + upto)
    return tree, leaves, leafvals


def hist_request(case, obs):
    """the history as the model's statements: builds are programs over the VARIABLES (leaf k = variable k)"""
    stmts = []
    for st, so in zip(case["stmts"], obs["stmts"]):
        if not so.get("ok"):
            break
        if st["s"] == "build":
            prog = OPS[st["op"]].node([dict(t="leaf", k=i) for i in st["in"]], st["args"], so)
            stmts.append(dict(s="build", prog=prog))
        elif st["s"] == "assign":
            stmts.append(dict(s="assign", i=st["i"], spec=so["mspec"]))
        elif st["s"] == "poke":
            stmts.append(dict(s="poke", i=st["i"], pos=st["pos"], v=bool(st["v"])))
        else:
            stmts.append(dict(s="rotI", i=st["i"], a=st["args"]["a"], b=st["args"]["b"], turns=st["args"]["turns"]))
    return dict(op="hist", leaves=obs["leafmasks"], stmts=stmts)


def compare_hist(case, obs, r):
    dis = []
    states = r.get("ok")
    done = [so for so in obs["stmts"] if so.get("ok")]
    if states is None or len(states) != len(done):
        return [f"history: model returned {len(states) if states is not None else r} states for {len(done)} executed statements"]
    for k, (so, ms) in enumerate(zip(done, states)):
        st = case["stmts"][k]
        what = f"statement {k} ({st['s']} {st.get('op', '')} {st.get('i', st.get('in'))})"
        if isinstance(ms, dict):
            dis.append(f"{what}: impl ok vs model {ms}")
            break
        if len(ms) != len(so["state"]):
            dis.append(f"{what}: {len(so['state'])} variables impl vs {len(ms)} model")
            break
        if so.get("old_buffer_kept") is False:
            dis.append(f"{what}: model binds a new validity buffer and leaves the old one untouched; impl changed or kept using the old array")
        for j, (iv, mv) in enumerate(zip(so["state"], ms)):
            if iv["shape"] != mv["mask"]["shape"]:
                dis.append(f"{what}: variable {j} shape impl {iv['shape']} vs model {mv['mask']['shape']}")
            elif iv["data"] != mv["mask"]["data"]:
                dis.append(f"{what}: variable {j} validity impl vs model differ "
                           f"(impl {sum(iv['data'])} valid cells, model {sum(mv['mask']['data'])})")
        # which variables are names of one object / read one buffer (code as it stands: only unary plus shares)
        for j, (iv, mv) in enumerate(zip(so["state"], ms)):
            mo = min(i for i, x in enumerate(ms) if x["obj"] == mv["obj"])
            ma = min(i for i, x in enumerate(ms) if x["addr"] == mv["addr"])
            if mo != iv["same"]:
                dis.append(f"{what}: variable {j} is the object of variable {iv['same']} (impl) vs {mo} (model)")
            if ma != iv["mem"]:
                dis.append(f"{what}: variable {j} shares validity memory with variable {iv['mem']} (impl) vs {ma} (model)")
            # which variables hold ONE Mesh object (results keep the mesh of their operand), and its cells per axis
            # The model's sharing is an UPPER bound: a library that copies the mesh where the model says "same object"
            # loses nothing the property cares about (only counted, tag mesh:impl-copies); a library that shares a Mesh
            # object where the model says "a mesh of its own" is reported.
            mm = min(i for i, x in enumerate(ms) if x["mesh"] == mv["mesh"])
            if ms[iv["mesh"]]["mesh"] != mv["mesh"]:
                dis.append(f"{what}: variable {j} holds the Mesh object of variable {iv['mesh']} (impl), which the model gives "
                           f"another mesh object (model: that of variable {mm})")
            elif mm != iv["mesh"]:
                obs.setdefault("tags", []).append("mesh:impl-copies")
            if mv["meshn"] != iv["meshn"]:
                dis.append(f"{what}: variable {j} mesh.n impl {iv['meshn']} vs model {mv['meshn']}")
        if dis:
            break
    return dis


def model_requests(case, obs):
    if case["kind"] == "hist":
        return [hist_request(case, obs)]
    if case["kind"] == "geo":
        return geo_requests(case, obs)
    if case["kind"] == "dict":
        return [dict(op="setdict", field=obs["field"], default=obs["default"], entries=obs["entries"])]
    if case["kind"] == "setter":
        m = obs["mspec"]
        if m["kind"] == "lookup":
            # mask-level request: the setter node applied to the field's current mask
            f0 = obs["field"]
            return [dict(op="eval", leaves=[dict(shape=f0["mesh"]["n"], data=f0["valid"])],
                         prog=dict(t="setv", spec=m, p=dict(t="leaf", k=0)))]
        if m["kind"] == "func":
            spec = dict(kind="func", fun=m["fun"])
        elif m["kind"] == "norm":
            spec = dict(kind="norm")
        else:
            spec = m
        return [dict(op="setvalid", field=obs["field"], spec=spec)]
    reqs = []
    for k, so in enumerate(obs["steps"]):
        if not so.get("ok"):
            break
        tree, leaves, leafvals = model_tree(case, obs, k)
        reqs.append(dict(op="eval", leaves=leaves, prog=tree, _step=(k, leafvals)))
    obs["_req_steps"] = [r.pop("_step") for r in reqs]
    return reqs


def compare(case, obs, rs):
    dis = []
    if case["kind"] == "hist":
        return compare_hist(case, obs, rs[0])
    if case["kind"] == "geo":
        return geo_compare(case, obs, rs)
    if case["kind"] == "dict":
        r = rs[0]
        if ("ok" in r) != bool(obs["ok"]):
            return [f"dict {case['flavour']}: impl {'ok' if obs['ok'] else 'err ' + obs.get('err', '')} vs model {'ok' if 'ok' in r else r}"]
        if obs["ok"]:
            mj, got = r["ok"], obs["res"]
            if got["data"] != mj["data"]:
                dis.append(f"dict {case['flavour']}: stored values impl vs model differ")
            if got["valid"] != mj["valid"]:
                dis.append(f"dict {case['flavour']}: mask impl {got['valid']} vs model {mj['valid']}")
            if mj["shape"] != got["mesh"]["n"]:
                dis.append(f"dict {case['flavour']}: model shape {mj['shape']} vs mesh.n {got['mesh']['n']}")
        return dis
    if case["kind"] == "setter":
        r = rs[0]
        if ("ok" in r) != bool(obs["ok"]):
            dis.append(f"setter {case['spec']}: impl {'ok' if obs['ok'] else 'err ' + obs.get('err', '')} vs model {'ok' if 'ok' in r else r}")
            return dis
        if obs["ok"] and obs["mspec"]["kind"] == "lookup":
            got = obs["res"]
            if r["ok"]["shape"] != got["mesh"]["n"] or r["ok"]["data"] != got["valid"]:
                dis.append(f"setter {case['spec']}: mask impl {got['valid']} vs model {r['ok']}")
            return dis
        if obs["ok"]:
            mj = r["ok"]
            got = obs["res"]
            if got["data"] != mj["data"]:
                dis.append(f"setter {case['spec']}: stored values impl vs model differ")
            band = obs.get("band") or [False] * len(got["valid"])
            if len(got["valid"]) != len(mj["valid"]) or any(a != b for a, b, s in zip(got["valid"], mj["valid"], band) if not s):
                dis.append(f"setter {case['spec']}: mask impl {got['valid']} vs model {mj['valid']}")
            if mj["shape"] != got["mesh"]["n"]:
                dis.append(f"setter {case['spec']}: model shape {mj['shape']} vs mesh.n {got['mesh']['n']}")
        return dis
    for (k, leafvals), r in zip(obs.get("_req_steps", []), rs):
        st, so = case["steps"][k], obs["steps"][k]
        what = f"step {k} ({st['op']} {st['args']})"
        if r.get("wf") != ("ok" in r):
            dis.append(f"{what}: model's acceptance check wf = {r.get('wf')} but its evaluator {'accepted' if 'ok' in r else 'rejected'}")
        if "ok" not in r:
            dis.append(f"{what}: impl ok vs model {r}")
            continue
        m = r["ok"]
        if m["shape"] != so["shape"]:
            dis.append(f"{what}: shape impl {so['shape']} vs model {m['shape']}")
            continue
        band = so.get("band") or [False] * len(so["mask"])
        if any(a != b for a, b, s in zip(so["mask"], m["data"], band) if not s):
            j = next(i for i, (a, b, s) in enumerate(zip(so["mask"], m["data"], band)) if a != b and not s)
            dis.append(f"{what}: validity impl vs model differ, first at flat cell {j} (impl {so['mask'][j]})")
        if r["spec"] != m["data"] or r["shapeOf"] != m["shape"]:
            dis.append(f"{what}: model evaluator and index-level reading disagree")
        # store model (code as it stands): the result's buffer is one allocated during the evaluation, unless the
        # program returns one of its input fields (unary plus).  Inputs of the model program = leafvals.
        shared_inputs = sorted(i for i in set(so["shared"]) | set(so["same_obj"]) if i in leafvals)
        if r["alias"] is None:
            if shared_inputs:
                dis.append(f"{what}: model says own buffer, impl shares validity memory with input value(s) {shared_inputs}")
            if r["addr"] is None or r["addr"] < r["nleaves"]:
                dis.append(f"{what}: store model returned address {r['addr']} (an input buffer) for a non-alias program")
        else:
            v = leafvals[r["alias"]]
            if r["addr"] != r["alias"]:
                dis.append(f"{what}: store model address {r['addr']} vs alias {r['alias']}")
            if v not in so["same_obj"]:
                dis.append(f"{what}: model says the result IS input value {v}, impl returned another object")
    return dis


def nontrivial(case, obs):
    return bool(obs.get("nontrivial"))


def known(case, text):
    if case["kind"] == "setter" and case.get("spec") == "field_real" and ("dtype" in text or "mask is not what the argument says" in text):
        return "D111"
    # D7: `+f` returns the operand itself -> its validity is shared.  Exactly the ownership failures of the unary-plus step.
    if case["kind"] in ("prog", "hist") and text.startswith("[pos] ") and ("shares memory" in text or "write-through" in text):
        return "D7"
    return None


def search(case, rng):
    if case["kind"] == "hist":
        for k in range(len(case["stmts"]), 0, -1):
            for _ in range(3):
                yield dict(case, stmts=case["stmts"][:k], sub=rng.getrandbits(32))
        for _ in range(40):
            yield dict(case, sub=rng.getrandbits(32))
    elif case["kind"] == "prog":
        for k in range(len(case["steps"]), 0, -1):
            for _ in range(3):
                yield dict(case, steps=case["steps"][:k], sub=rng.getrandbits(32))
        for _ in range(40):
            yield dict(case, sub=rng.getrandbits(32))
    elif case["kind"] == "geo":
        for _ in range(40):
            yield dict(case, sub=rng.getrandbits(32), pattern=rng.choice(GEO_PATTERNS + ["stripes_ax"]))
    elif case["kind"] == "dict":
        for _ in range(60):
            yield dict(case, sub=rng.getrandbits(32), ctor=rng.random() < 0.5)
    else:
        for _ in range(60):
            yield dict(case, sub=rng.getrandbits(32), ctor=rng.random() < 0.5)


def shrink(failure):
    case = failure["case"]
    if case["kind"] == "hist":
        for k in range(1, len(case["stmts"])):
            c2 = dict(case, stmts=case["stmts"][:k])
            o2 = run_impl(c2)
            bad = [t for t in o2["oracle"] if known(c2, t) is None]
            if bad:
                return dict(case=c2, kind="oracle", text=bad[0])
        return failure
    if case["kind"] != "prog":
        return None
    best = failure
    for k in range(1, len(case["steps"])):
        c2 = dict(case, steps=case["steps"][:k])
        o2 = run_impl(c2)
        bad = [t for t in o2["oracle"] if known(c2, t) is None]
        if bad:
            return dict(case=c2, kind="oracle", text=bad[0])
    return best
