"""Hand-replayable witnesses of the genuine defects D1-D20 (DESIGN.md section 7).

Each function returns None when the real code behaves as the property demands and a
short string describing the failure otherwise.  `python -m harness.witnesses` prints a
table.  The per-property checks import these as the first entries of their corpus.
"""
import os
import sys
import tempfile

import numpy as np

sys.path.insert(0, os.environ.get("VERIF_REPO", "/repo"))
import discretisedfield as df  # noqa: E402


def d1():
    r = df.Region(p1=(0, 0, 0), p2=(10, 8, 6))
    c = r.scale(-2)
    r.scale(-2, inplace=True)
    if not (np.all(r.pmin < r.pmax) and np.allclose(r.pmin, c.pmin) and np.allclose(r.pmax, c.pmax)):
        return f"in-place scale(-2): pmin={r.pmin.tolist()} pmax={r.pmax.tolist()} copy={c.pmin.tolist()},{c.pmax.tolist()}"


def d2():
    r = df.Region(p1=(0, 0, 0), p2=(10, 8, 6))
    try:
        r.scale(0, inplace=True)
    except Exception:
        if np.all(r.pmin < r.pmax):
            return None
        return "rejected but modified"
    return f"in-place scale(0) accepted: pmin={r.pmin.tolist()} pmax={r.pmax.tolist()}"


def d3():
    r = df.Region(p1=(0, 0, 0), p2=(10, 8, 6), units=("a", "b", "c"))
    c = r.rotate90("x", "y")
    r.rotate90("x", "y", inplace=True)
    if tuple(r.units) != tuple(c.units):
        return f"in-place rotate90 units {r.units} vs copy {c.units}"


def d4():
    m = df.Mesh(p1=(0, 0, 0), p2=(4, 2, 1), n=(4, 2, 1))
    f = df.Field(m, nvdim=2, value=(1, 2))
    try:
        f.rotate90("x", "y", inplace=True)
    except Exception:
        if tuple(f.mesh.n) == (4, 2, 1) and f.array.shape == (4, 2, 1, 2):
            return None
        return f"refused but mesh.n={f.mesh.n.tolist()} array.shape={f.array.shape}"
    return "unmapped vector field rotate90 accepted"


def d5():
    m = df.Mesh(p1=(0, 0), p2=(4, 2), n=(4, 2))
    v = np.ones((4, 2), dtype=bool)
    f = df.Field(m, nvdim=1, value=1.0, valid=v)
    out = []
    if np.shares_memory(f.valid, v):
        out.append("Field(valid=v) aliases v")
    for name, g in [("neg", -f), ("abs", abs(f)), ("mul", f * 2), ("norm", f.norm)]:
        if np.shares_memory(g.valid, f.valid):
            out.append(name)
    return ("valid shared with operand: " + ",".join(out)) if out else None


def d6():
    m = df.Mesh(p1=(0, 0), p2=(4, 2), n=(4, 2))
    f = df.Field(m, nvdim=1, value=1.0)
    f.valid = np.ones((4, 2), dtype=int)
    if f.valid.dtype != np.bool_:
        return f"valid dtype {f.valid.dtype}"


def d7():
    m = df.Mesh(p1=(0, 0), p2=(4, 2), n=(4, 2))
    f = df.Field(m, nvdim=1, value=1.0)
    g = +f
    if g is f or np.shares_memory(g.valid, f.valid) or np.shares_memory(g.array, f.array):
        return "+f is f (result validity/array is the operand's own)"


def d8():
    m = df.Mesh(p1=(0, 0, 0), p2=(2, 2, 2), n=(2, 2, 2))
    s = df.Field(m, nvdim=1, value=2.0)
    v = df.Field(m, nvdim=3, value=(1, 2, 3), vdims=["a", "b", "c"],
                 vdim_mapping={"a": "x", "b": "y", "c": "z"})
    a, b = s * v, v * s
    if list(a.vdims) != list(b.vdims) or a.vdim_mapping != b.vdim_mapping:
        return f"s*v: {a.vdims} {a.vdim_mapping}; v*s: {b.vdims} {b.vdim_mapping}"


def d9():
    m = df.Mesh(p1=(0, 0, 0), p2=(2, 2, 2), n=(2, 2, 2))
    v = df.Field(m, nvdim=3, value=(1, -2, 3), vdims=["a", "b", "c"],
                 vdim_mapping={"a": "x", "b": "y", "c": "z"})
    try:
        g = abs(v)
    except Exception as e:
        return f"abs(v) raises {type(e).__name__}"
    if list(g.vdims) != ["a", "b", "c"]:
        return f"abs(v) labels {g.vdims}"


def d11():
    m = df.Mesh(p1=(0, 0, 0), p2=(6, 2, 2), n=(6, 2, 2),
                subregions={"r1": df.Region(p1=(0, 0, 0), p2=(2, 2, 2))})
    f = df.Field(m, nvdim=3, value={"r1": (1, 1, 1), "default": lambda p: p})
    bad = 0
    for idx in m.indices:
        p = m.index2point(idx)
        exp = (1, 1, 1) if p in m.subregions["r1"] else p
        if not np.allclose(f.array[tuple(idx)], exp):
            bad += 1
    if bad:
        return f"dict with callable default: {bad} of {len(m)} cells wrong"


def _roundtrip(f, ext, **kw):
    with tempfile.TemporaryDirectory() as d:
        fn = os.path.join(d, "f." + ext)
        f.to_file(fn, **kw)
        return df.Field.from_file(fn)


def d12():
    m = df.Mesh(p1=(0, 0, 0), p2=(2, 2, 2), n=(2, 2, 2))
    g = _roundtrip(df.Field(m, nvdim=3, value=(1, 2, 3)), "h5")
    if g.unit is not None:
        return f"hdf5 unit None -> {g.unit!r}"


def d13():
    m = df.Mesh(p1=(0, 0, 0), p2=(4, 2, 2), n=(8, 4, 4),
                subregions={"s": df.Region(p1=(0.5, 0, 0), p2=(1.5, 1, 1))})
    g = _roundtrip(df.Field(m, nvdim=1, value=1.0), "h5")
    s = g.mesh.subregions["s"]
    if not np.allclose(s.pmin, (0.5, 0, 0)) or not np.allclose(s.pmax, (1.5, 1, 1)):
        return f"hdf5 subregion {s.pmin.tolist()}-{s.pmax.tolist()}"


def d14():
    m = df.Mesh(p1=(0, 0, 0), p2=(2, 2, 2), n=(2, 2, 2))
    out = []
    for rep in ("txt", "bin4", "bin8"):
        g = _roundtrip(df.Field(m, nvdim=3, value=(1, 2, 3)), "omf", representation=rep)
        if g.unit is not None:
            out.append(f"{rep}:{g.unit!r}")
    return ("ovf unit None -> " + ",".join(out)) if out else None


def d15():
    m = df.Mesh(p1=(0, 0, 0), p2=(2, 2, 2), n=(2, 2, 2))
    f = df.Field(m, nvdim=3, value=(1, 2, 3), vdims=["ft_x", "ft_y", "ft_z"])
    g = _roundtrip(f, "omf")
    if list(g.vdims) != ["ft_x", "ft_y", "ft_z"]:
        return f"ovf labels ft_x,ft_y,ft_z -> {g.vdims}"


def d16():
    m = df.Mesh(p1=(0, 0, 0), p2=(4, 2, 1), n=(4, 2, 1))
    k = m.fftn()
    c = (k.region.pmin[2] + k.region.pmax[2]) / 2
    if abs(c) > 1e-12:
        return f"single-cell axis k-cell centred at {c}"


def d20():
    import discretisedfield.tools as dft
    m = df.Mesh(p1=(0, 0, 0), p2=(3, 6, 1.5), cell=(1, 2, 0.5))
    tensor = dft.demag_tensor(m)
    tot = 0.0
    for v in [(1, 0, 0), (0, 1, 0), (0, 0, 1)]:
        f = df.Field(m, nvdim=3, value=v)
        h = dft.demag_field(f, tensor)
        tot += float(np.dot(h.mean(), v))
    if abs(tot + 1) > 1e-6:
        return f"anisotropic cells: sum of mean demag field components {tot:.6f} (expected -1)"


def d21():
    out = []
    for name, f in (("translate", lambda r: r.translate((1e17, 0), inplace=True)),
                    ("rotate90", lambda r: r.rotate90("x", "y", reference_point=(1e17, 0), inplace=True))):
        r = df.Region(p1=(0, 0), p2=(1, 1))
        try:
            f(r)
        except Exception:
            pass
        if not np.all(r.pmin < r.pmax):
            out.append(f"{name}: pmin={r.pmin.tolist()} pmax={r.pmax.tolist()}")
    return ("in-place step left a degenerate region: " + "; ".join(out)) if out else None


def d22():
    mesh = df.Mesh(p1=(0, 0, 0), p2=(4, 3, 2), n=(4, 3, 2))
    f = df.Field(mesh, nvdim=3, value=(1, 2, 3), valid=lambda p: p[0] < 2)
    out = []
    for name, g in (("np.float64(2)*f", np.float64(2) * f), ("np.sin(f)", np.sin(f)), ("ndarray*f", np.array([1.0, 2.0, 3.0]) * f)):
        if not np.array_equal(g.valid, f.valid):
            out.append(name)
    return ("validity dropped (all True) by " + ", ".join(out)) if out else None


def d23():
    m1 = df.Mesh(p1=(0, 0, 0), p2=(4, 3, 2), n=(4, 3, 2))
    m2 = df.Mesh(p1=(10, 0, 0), p2=(18, 6, 4), n=(4, 3, 2))
    f, g = df.Field(m1, nvdim=3, value=(1, 2, 3)), df.Field(m2, nvdim=3, value=(1, 2, 3))
    try:
        np.add(f, g)
    except Exception:
        return None
    return "np.add(f, g) accepted although f and g live on different meshes"


def d31():
    import h5py
    with tempfile.TemporaryDirectory() as d:
        fn = os.path.join(d, "old.h5")
        with h5py.File(fn, "w") as h:
            h.create_dataset("field/mesh/region/p1", data=[0, 0, 0])
            h.create_dataset("field/mesh/region/p2", data=[4, 2, 1])
            h.create_dataset("field/mesh/n", data=[4, 2, 1])
            h.create_dataset("field/dim", data=3)
            h.create_dataset("field/array", data=np.arange(24.0).reshape(4, 2, 1, 3))
        try:
            g = df.Field.from_file(fn)
        except Exception as e:
            return f"legacy HDF5 file rejected: {type(e).__name__}"
        if g.nvdim != 3 or not np.array_equal(g.array, np.arange(24.0).reshape(4, 2, 1, 3)):
            return "legacy HDF5 file read to the wrong field"


def d41():
    m = df.Mesh(p1=(0, 0), p2=(4, 2), n=(4, 2), subregions={"r0": df.Region(p1=(0, 0), p2=(2, 2))})
    out = []
    for dt in (int, bool):
        f = df.Field(m, nvdim=1, value={"r0": 1, "default": lambda p: 0 if dt is bool else 3}, dtype=dt)
        exp = [[1, 1], [1, 1], [0 if dt is bool else 3] * 2, [0 if dt is bool else 3] * 2]
        if f.array[..., 0].tolist() != exp:
            out.append(f"{dt.__name__}: {f.array[..., 0].tolist()}")
    try:
        df.Field(m, nvdim=1, value={"r0": 1}, dtype=int)
        out.append("missing default accepted")
    except KeyError:
        pass
    return ("dict default on int/bool field: " + "; ".join(out)) if out else None


def d43():
    m = df.Mesh(p1=0, p2=4, n=4)
    f = df.Field(m, nvdim=1, value=lambda p: 2 * p)
    try:
        line = f.line(p1=0.5, p2=3.5, n=4)
    except Exception as e:
        return f"Field.line on a 1-d mesh raises {type(e).__name__}"
    if line.data["v"].tolist() != [1.0, 3.0, 5.0, 7.0]:
        return f"Field.line on a 1-d mesh: {line.data.to_dict('list')}"


def d44():
    m = df.Mesh(p1=(0, 0), p2=(4, 2), n=(4, 2))
    f, g = df.Field(m, nvdim=2, value=(1, 2)), df.Field(m, nvdim=3, value=(1, 2, 3))
    try:
        f.array = g
    except Exception:
        return None if f.array.shape == (4, 2, 2) else "rejected but modified"
    return f"f.array = g (nvdim 3 into nvdim 2) accepted: shape {f.array.shape}"


def d101():
    r = df.Region(p1=(1e15,), p2=(1e15 + 1,))
    try:
        m = df.Mesh(region=r, cell=(1000,))
    except ValueError:
        return None
    return f"Mesh(cell=1000) on an edge of length 1 at offset 1e15 accepted: n={m.n.tolist()}, cell={m.cell.tolist()}"


def d111():
    m = df.Mesh(p1=(0, 0), p2=(4, 2), n=(4, 2))
    f = df.Field(m, nvdim=2, value=(1, 2))
    g = df.Field(m, nvdim=1, value=lambda p: p[0] - 1.5)
    f.valid = g
    return None if f.valid.dtype == bool else f"f.valid = <real field> stores dtype {f.valid.dtype}"


def d113():
    m = df.Mesh(p1=(0, 0), p2=(4, 2), n=(4, 2))
    f = df.Field(m, nvdim=1, value=lambda p: p[0])
    g = -f
    g.rotate90("x", "y", inplace=True)
    if list(f.mesh.n) != [4, 2] or f.array.shape != (4, 2, 1):
        return f"in-place rotate90 of g = -f changed f: mesh.n {f.mesh.n.tolist()}, array {f.array.shape}"


def d114():
    m = df.Mesh(p1=(0, 0, 0), p2=(4, 2, 2), n=(4, 2, 2))
    f = df.Field(m, nvdim=3, value=(1, 2, 3))
    g = f.rotate90("z", "x", k=-4)
    g.vdim_mapping.clear()
    return None if f.vdim_mapping == {"x": "x", "y": "y", "z": "z"} else f"clearing the copy's mapping changed the original: {f.vdim_mapping}"


def d45():
    m = df.Mesh(p1=(0, 0), p2=(4, 2), n=(4, 2))
    f = df.Field(m, nvdim=3, value=(1, 2, 3), vdims=[])
    cols = list(f.line((0, 0), (4, 2), n=3).data.columns)
    return None if len([c for c in cols if c.startswith("v")]) == 3 else f"Field.line of an unlabelled 3-vector has columns {cols}"


def d46():
    m = df.Mesh(p1=(0, 0, 0), p2=(4, 3, 4), n=(4, 3, 4))
    try:
        f = df.Field(m, nvdim=3, value=(1, 2, 3), vdims=[])
    except TypeError as e:
        return f"Field(nvdim=3, vdims=[]) on a 3-d mesh raises TypeError: {e}"
    return None if f.vdims is None else f"vdims {f.vdims}"


def d123():
    m = df.Mesh(region=df.Region(p1=(0, 0), p2=(4, 3), dims=("n", "y")), n=(4, 3), bc="neumann")
    f = df.Field(m, nvdim=1, value=lambda p: p[0] ** 2)
    got = f.diff("n").array[:, 0, 0].tolist()
    if got != [1.0, 3.0, 5.0, 7.0]:
        return f"diff('n') of n**2 on a 'neumann' mesh with an axis called 'n' is {got} (ring), expected [1, 3, 5, 7]"
    m = df.Mesh(region=df.Region(p1=(0, 0, 0), p2=(4, 3, 3), dims=("x", "y", "xy")), n=(4, 3, 3), bc="xy")
    got = df.Field(m, nvdim=1, value=lambda p: p[2] ** 2).diff("xy").array[0, 0, :, 0].tolist()
    return None if got == [1.0, 3.0, 5.0] else f"diff('xy') on dims (x, y, xy) with bc='xy' is {got}, expected [1, 3, 5]"


def d124():
    r = df.Region(p1=(0, 0, 0), p2=(5_000_000, 3_000_000, 2_000_000))
    return None if r.volume == 3 * 10 ** 19 else f"Region.volume of integer corners (5e6, 3e6, 2e6) is {r.volume}"


def d58():
    r = df.Region(p1=(0, 0), p2=(4, 6), dims=("X", "y"))
    m = df.Mesh(region=r, n=(4, 3), bc="y")
    try:
        m.rotate90("X", "y", inplace=True)
    except Exception as e:
        if list(m.n) != [4, 3]:
            return f"refused in-place rotate90 ({type(e).__name__}) left n={m.n.tolist()}"
    return None


def d125():
    m = df.Mesh(p1=(0, 0, 0), p2=(2, 2, 2), n=(2, 2, 2))
    f = df.Field(m, nvdim=3, value=np.full((2, 2, 2, 3), (5, 3, 1)), dtype=np.int64)
    got = [f.rotate90("x", "y", k=k).array[0, 0, 0].tolist() for k in (1, 2, 3)]
    return None if got == [[-3, 5, 1], [-5, -3, 1], [3, -5, 1]] else f"rotate90 of an int64 field (5,3,1) for k=1,2,3: {got}"


def d130():
    mesh = df.Mesh(p1=0.0, p2=5.0, n=5)
    f = df.Field(mesh, nvdim=1, value=np.array([100, 90, 50, 7, 3], dtype=np.uint8).reshape(5, 1), dtype=np.uint8)
    got = f.diff("x", order=2).array[:, 0].tolist()
    return None if got == [-57.0, -30.0, -3.0, 39.0, 81.0] else f"second derivative of uint8 [100,90,50,7,3]: {got}"


def d131():
    r = df.Region(p1=(-13, 18), p2=(-12.75, 30.5))
    q = r.rotate90("x", "y", k=1002, reference_point=(5.0, 1.5))
    want = r.rotate90("x", "y", k=2, reference_point=(5.0, 1.5))
    if not (np.array_equal(q.pmin, want.pmin) and np.array_equal(q.pmax, want.pmax)):
        return f"rotate90(k=1002) differs from rotate90(k=2): {q.pmin.tolist()} {q.pmax.tolist()} vs {want.pmin.tolist()} {want.pmax.tolist()}"
    return None if float(q.edges[0]) == 0.25 else f"edge 0.25 became {float(q.edges[0])!r}"


def d132():
    try:
        m = df.Mesh(p1=0, p2=10e-9, n=10, subregions={"a": df.Region(p1=0, p2=0.9995e-9, tolerance_factor=1e-2)})
    except ValueError:
        return None               # refused at once: nothing that cannot be read back is ever stored
    with tempfile.TemporaryDirectory() as d:
        fn = os.path.join(d, "x.h5")
        df.Field(m, nvdim=1, value=1.0).to_file(fn)
        try:
            df.Field.from_file(fn)
        except Exception as e:
            return f"a mesh the constructor accepted cannot be read back from its HDF5 file: {type(e).__name__}: {str(e)[:80]}"
    return None


def d133():
    m = df.Mesh(p1=(0, 0, 0), p2=(2, 1, 1), n=(2, 1, 1))
    f = df.Field(m, nvdim=3, value=(3, 0, 4), vdims=["a", "b", "c"])
    f.vdims = []
    try:
        o = f.orientation
        g = -f
    except Exception as e:
        return f"after f.vdims = [] the field cannot be used: {type(e).__name__}: {str(e)[:80]}"
    return None if np.allclose(o.array[0, 0, 0], [0.6, 0.0, 0.8]) and g.array[0, 0, 0].tolist() == [-3.0, -0.0, -4.0] else "wrong values"


def d134():
    R = df.Region(p1=(0, 0), p2=(4, 2))
    m1 = df.Mesh(region=R, n=(4, 2), subregions={"a": df.Region(p1=(0, 0), p2=(2, 1))})
    m2 = df.Mesh(region=R, n=(4, 2), subregions={"a": df.Region(p1=(0, 0), p2=(2, 1))})
    m1.translate((1, 1), inplace=True)
    if m2.region.pmin.tolist() != [0, 0] or R.pmin.tolist() != [0, 0]:
        return f"m1.translate(inplace=True) moved m2.region to {m2.region.pmin.tolist()} and the caller's region to {R.pmin.tolist()}"
    return None if m1.region.pmin.tolist() == [1, 1] else "m1 did not move"


ALL = {
    "D1": ("C13", d1), "D2": ("C13", d2), "D3": ("C12", d3), "D4": ("C12", d4),
    "D5": ("C08", d5), "D6": ("C08", d6), "D7": ("C08", d7), "D8": ("C03", d8),
    "D9": ("C03", d9), "D11": ("C02", d11), "D12": ("C10", d12), "D13": ("C10", d13),
    "D14": ("C09", d14), "D15": ("C09", d15), "D16": ("C11", d16), "D20": ("C19", d20), "D21": ("C13", d21), "D22": ("C08", d22), "D23": ("C03", d23), "D31": ("C10", d31), "D41": ("C02", d41), "D43": ("C02", d43), "D44": ("C02", d44),
    "D101": ("C01", d101), "D111": ("C08", d111), "D113": ("C13", d113), "D114": ("C12", d114),
    "D45": ("C02", d45), "D46": ("C02", d46),
    "D123": ("C04", d123), "D124": ("C01", d124), "D58": ("C13", d58), "D125": ("C12", d125), "D130": ("C04", d130), "D131": ("C13", d131), "D132": ("C10", d132), "D133": ("C15", d133), "D134": ("C13", d134),
}


def run_all():
    res = {}
    for k, (prop, fn) in ALL.items():
        try:
            res[k] = fn()
        except Exception as e:  # a crash of the witness itself is a failure too
            res[k] = f"witness raised {type(e).__name__}: {e}"
    return res


if __name__ == "__main__":
    bad = 0
    for k, v in run_all().items():
        print(f"{k:4s} {ALL[k][0]}  {'ok' if v is None else 'FAIL: ' + v}")
        bad += v is not None
    sys.exit(1 if bad else 0)
