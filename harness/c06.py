"""C06 — integrals and means are cell sums times cell measure, consistent across axes."""
import itertools
import random
from fractions import Fraction

import numpy as np

from . import core, fieldio
from .core import Q, Qs, F

import discretisedfield as df

PID = "C06"
RULE = ("(a) exact regime: 1-4-d meshes whose cells all have different dyadic sizes (so a wrong axis or a cell length "
        "taken from the wrong direction changes the number), custom dims/units, optional bc and aligned subregions, "
        "1-4 components, integer data, a random validity mask: Field.integrate() / discretisedfield.integrate, "
        "integrate(d) and integrate(d, cumulative=True) for EVERY direction, direction-by-direction integration in "
        "EVERY order (all permutations up to 3-d, all 24 in 4-d in the thorough tier), mean(), mean(d) for every d, "
        "mean(list) for every ordered subset of directions (sampled in 4-d), a direction-by-direction chain of means over a random proper "
        "subset (2^-40: one rounding per step), abs(field) integrals, Mesh.sel(d) for every d: values, result "
        "mesh (corners, dims, units, n, bc, subregions), labels, mapping, unit and validity must EQUAL the rational "
        "model (means: equal to the correctly rounded quotient); a fifth of these meshes sits 2^10..2^40 away from the origin and "
        "the moved copy of the translation check is up to 2^40 away (corners stay exactly representable); (b) tolerance regime: "
        "pm..1000 km scales, meshes up to 1e6 edge lengths away from the origin, arbitrary binary64 data of magnitude 1e-15..1e15, "
        "2^-40 relative bound; (c) malformed directions (unknown, empty, near misses of a valid name - trailing/leading blank, other "
        "case -, duplicate, non-string numbers / booleans / dicts, lists holding a non-name or another list, cumulative "
        "without direction, direction of a 1-d mesh), for integrate, cumulative integrate and mean alike; "
        "(f) EVERY KIND OF DATA a field can hold - int8/16/32/64, uint8/16/32/64, bool, float16/32/64, longdouble, "
        "complex64/128, clongdouble, round robin so each run sees all 16 - obtained through Field(value=array, dtype=...), the array "
        "setter of a typed zero field, a callable with dtype, and an array without dtype (the constructor's choice), in three "
        "magnitude classes (one-digit integers; the WHOLE range of the integer dtype incl. its extremes, up to 2^50 for 64 bits and "
        "integers up to the mantissa of the floating dtypes; arbitrary mantissas over 1e-12..1e6), on the meshes of (a): the same "
        "requests, the same oracle (incl. linearity against a binary64 combination, per-component action, translation) and the same "
        "model comparison, always about the values the field ACTUALLY holds. Demand: exact equality (means: the correctly rounded "
        "binary64 quotient for integer / boolean / binary64 data, one rounding of the data's precision for "
        "float16/float32/longdouble, two for complex quotients) whenever every partial sum, half value and product with a cell "
        "measure is representable in the arithmetic numpy uses for that dtype (64-bit integers / binary64 for integer and boolean "
        "data: an integer field's mean is NOT an integer, narrow integers must not wrap); otherwise the a-priori bound of summing "
        "in any order in the data's precision, (cells + 8) ulps of sum|values| x measure, never below 2^-40. Complex data: the "
        "rational model is asked for the real and for the imaginary part (all forms are linear), both must agree; a real field "
        "must not give complex results; (g) LONG axes: 1000-2500 (thorough: 8000) cells along one axis of a 1-3-d mesh, data of "
        "nine dtypes incl. full-range int8/int16/int32 (every accumulator overflows unless widened), all directional / cumulative / "
        "total integrals and means against oracle and model; (d) histories: ONE mesh object (one field, or two fields sharing it) "
        "(binary64, int8/16/32/64, uint8/32 or bool data) evaluated, then transformed IN PLACE 2-4 (thorough 2-6) times - mesh.scale / mesh.region.scale with scalar and "
        "per-axis factors incl. negative and an explicit reference point, mesh.translate / mesh.region.translate, "
        "field.rotate90 with k in {1,3,-1,2,0,4,-2,5,-3,1002,-1001} about the centre or an explicit reference point - and after every step mesh.dV, mesh.cell, integrate(), integrate(d), cumulative, "
        "mean(), mean(d), mean(list), a chained integral and Mesh.sel(d) are evaluated again on the SAME objects and must equal "
        "the model run on the field's CURRENT mesh state (exact; 2^-40 after a quarter turn, whose float sin/cos move the corners off the dyadic "
        "grid - the vector components are turned exactly by code and model alike) and the oracle for that state (sum x current cell measure; mean() unchanged by scaling/translation; integrals "
        "unchanged by translation), so a value cached across an in-place change shows; in addition the Lean model REPLAYS EVERY history itself "
        "- scale / translate through hstep, quarter turns through the shared exact rotate90F (fstep / runFS of DFV/Model/C06Hist.lean) - from the "
        "initial state and after every step its mesh (corners, n, subregions) and all its answers must equal those of the real objects (equal before the "
        "first accepted quarter turn, corners and values to 2^-40 after it; a refused turn - vector field without component mapping - must be refused by both), "
        "its accumulated volume factor must equal dV_now / dV_initial and integrate() of the final state must equal what theorem turns_history states "
        "(volume factor x initial cell volume x per-component cell sums turned by the accepted turns); (h) subregions OFF the cell lattice: in 30 % of the "
        "near-origin meshes of (a) every subregion face is moved by 0 or +-2^-44 (exactly representable), so the subregion setter accepts them only thanks to its "
        "tolerances (1e-12 alignment, 0.1 % divisibility, region atol) on their clear side: construction, every Mesh.sel(d), integrate(d), mean(d), mean(list) and chain "
        "must succeed in code and model alike and return the same subregions (exact corners); (i) chains with cumulative steps on the binary64 fields of (a), (b): "
        "integrate(d, cumulative=True).integrate(d), .integrate(d') and integrate(d').integrate(d, cumulative=True), two cumulative integrals in both orders - against the "
        "model's integrateChain and the oracle (same direction: cell^2 x sum (n - l - 1/2) x_l; other direction / two cumulative: both orders agree, same mesh); "
        "its accumulated volume factor must equal dV_now / dV_initial; (e) abs(field).integrate() / integrate(d) / cumulative against the "
        "model's integrate(absF f). Oracle on the real code alone: numpy sums with the axis looked up "
        "by name x cell length from the corners, reduced-mesh geometry, Fubini over all orders, cumulative formula and "
        "last-entry relation, mean = integral / extent, linearity, per-component action, translation invariance, "
        "integral of |f| = measure x sum of |values| and >= |integral of f|, refusals. non-trivial = at least 2 cells, non-constant data")
TRUSTED = ["harness/c06.py, harness/fieldio.py + driver JSON glue",
           "numpy's conversion of integer / boolean / narrow floating data to binary64 (astype) used to read the field's values exactly",
           "np.sum / np.cumsum / ndarray.mean / np.prod modelled by contract (sum over the named axes, running sum, sum/count)"]
ASSUMPTIONS = ["exact-regime inputs (small integers, dyadic corners and cells): every binary64 operation on the code path of the "
               "integrals is exact, so equality is demanded; a mean is one correctly rounded division of an exact sum by a count",
               "theorems are about exact rational arithmetic; float rounding enters only via the tolerance comparator",
               "data that are not binary64: the values the field holds are sent to the model exactly; what is demanded of the "
               "result depends on the arithmetic numpy carries out for that dtype (see RULE (f)): equality where every intermediate "
               "is representable, else the any-order summation bound in that precision - no other threshold is used",
               "float16 data are kept small (|v| <= 4, a few hundred cells): a binary16 total above 65504 overflows in numpy "
               "itself, which no property of the library addresses"]
UNPROVED = ["the model is rational: complex fields are covered through linearity (real and imaginary part separately, each against "
            "the model), integer / boolean / narrow floating fields through the exact values they hold; that numpy widens the "
            "accumulator (int8 -> int64, integer mean -> binary64) is NOT a theorem, it is what the correspondence check and the "
            "oracle observe on every dtype (streams (f), (g))",
            "subregions: the success / acceptance theorems (…_ok, fubini_total, fubini_perm, integrate_ok_iff, mean_ok_iff, integrateSeq_any_order, "
            "mean_list_any_order, sel_closed_form, …) take SubsAcc - every STORED subregion passes the setter's own three checks when offered again as "
            "the plain box Region(p1, p2), which is what Mesh.sel does; that this is inherited by axis removal WITHOUT exception is proved "
            "(accepted_subregion_inherited, sel_subregions_acc), the exact fit is the special case exact_fit_accepted, and for a dictionary of "
            "default-tolerance regions SubsAcc is exactly the setter's acceptance (setter_accepts_iff, setter_accepts_per_axis). NOT proved: "
            "(i) a subregion the user passed with a non-default tolerance_factor was checked by Mesh(region=sub, cell=...) with THAT factor, "
            "while Mesh.sel re-offers it with the default 1e-12 - whether the first acceptance implies SubsAcc then is not claimed; "
            "(ii) acceptance is not invariant under moving or rescaling the mesh (the tolerant containment is relative to the coordinate "
            "magnitude, the alignment tolerance absolute): integrate_translation_total and subregions_fit_after_history are proved for "
            "exactly fitting subregions (SubsFit) only",
            "in-place histories: proved by induction over the history for mesh.scale / mesh.region.scale / mesh.translate / "
            "mesh.region.translate (cell lengths, dV, all integrals and means) and - second round - with field.rotate90 steps in any "
            "number and order (runFS: WF kept, dV = volume factor x dV, integrate() and mean() = the per-component cell sums turned by the "
            "accepted turns; one turn: rotate90_cells, rotate90_integrate_all / _mean_all, rotate90_integrate_dir at value level). NOT proved: "
            "integrate(d) / cumulative / mean(d) / mean(list) after a HISTORY containing turns (only after a single turn, for integrate(d)); "
            "acceptance of a turn is C13's characterisation (rotate90_accepted_iff) and needs subregions exactly on the lattice - histories with "
            "turns are generated on meshes without subregions; the region-only steps do not keep subregions fitting, so existence of "
            "integrate(d) after them is proved only for meshes without subregions; the code turns the region corners with float sin/cos "
            "(the model exactly): after the first accepted turn corners and values are compared to 2^-40, not equal",
            "theorems are about exact rational arithmetic: a chain of k means rounds k times in binary64, so the code's "
            "mean(d1).mean(d2) equals mean([d1, d2]) only to rounding (compared with the 2^-40 bound), while the theorems "
            "meanSeq_eq_mean_list / mean_list_any_order state exact equality on the model",
            "the refusal equivalences (integrate_rejected_iff, integrate_refusal_kind, mean_rejected_iff) are about the argument CLASSES of the "
            "model (no direction / one string / list-or-tuple of strings / anything else); that a Python argument falls in the class the harness "
            "sends (dirOfJson, pydir: tuples as lists, lists holding a non-string as 'anything else') is trusted glue, exercised by stream (c)"]
BUDGET = {"quick": 120, "thorough": 1200}

NAMES = ["x", "y", "z", "a", "b", "c", "u", "v", "w", "t", "V", "n", "x1", "region"]   # incl. names whose d<name> / plain spelling is an attribute of Mesh
UNITS = ["m", "nm", "s", "K", "T", "A"]
CELLS = [Fraction(1, 4), Fraction(1, 2), Fraction(3, 4), Fraction(1), Fraction(5, 4), Fraction(3, 2), Fraction(2),
         Fraction(3), Fraction(5, 8), Fraction(3, 8), Fraction(5, 2), Fraction(7, 4)]


# ------------------------------------------------------------------ generators
N_FIELD = {"quick": 240, "thorough": 2200}
N_FLOAT = {"quick": 100, "thorough": 900}
N_DTYPE = {"quick": 160, "thorough": 1500}
N_LONG = {"quick": 8, "thorough": 30}

# numpy dtypes a field can be created with (Field(..., dtype=...), or taken over from the value array)
DTYPE_NAMES = ["int8", "int16", "int32", "int64", "uint8", "uint16", "uint32", "uint64", "bool",
               "float16", "float32", "float64", "longdouble", "complex64", "complex128", "clongdouble"]
INT_MAX = {"int8": 127, "int16": 32767, "int32": 2 ** 31 - 1, "int64": 2 ** 50,
           "uint8": 255, "uint16": 65535, "uint32": 2 ** 32 - 1, "uint64": 2 ** 50}


def gen_long(rng, tier):
    ndim = rng.choice([1, 1, 2, 2, 3])
    n = [rng.choice([1, 1, 2, 3]) for _ in range(ndim)]
    la = rng.randrange(ndim)
    n[la] = rng.randint(1000, 2500 if tier == "quick" else 8000)
    cap = 6000 if tier == "quick" else 16000
    while int(np.prod(n)) > cap:
        others = [a for a in range(ndim) if a != la and n[a] > 1]
        if not others:
            n[la] = cap
            break
        n[max(others, key=lambda a: n[a])] -= 1
    return dict(kind="long", mesh=gen_mesh(rng, "quick", ndim, n), nvdim=rng.choice([1, 1, 2]), tier=tier,
                dtype=rng.choice(["float64", "float64", "int8", "int16", "int32", "uint8", "float32", "bool", "complex128"]),
                mag=rng.choice(["small", "range"]), route="array", sub=rng.getrandbits(32))


def gen_mesh(rng, tier, ndim=None, n=None, plain=False, far=False, tolsub=False):
    ndim = ndim or rng.choice([1, 2, 2, 3, 3, 3, 4, 4])
    nmax = 6 if tier == "quick" else 10
    cap = 160 if tier == "quick" else 500
    if n is None:
        n = [rng.randint(1, nmax) for _ in range(ndim)]
        while int(np.prod(n)) > cap:
            k = rng.randrange(ndim)
            n[k] = max(1, n[k] - 1)
    n = list(n)
    cell = rng.sample(CELLS, ndim)  # all different
    pmin = [Fraction(rng.randint(-40, 40), 2 ** rng.randint(0, 2)) for _ in range(ndim)]
    if far:
        # far from the origin (2^10 .. 2^40 x a small integer): corners stay exactly representable
        pmin = [a + rng.choice([-1, 1]) * rng.randint(1, 7) * 2 ** rng.randint(10, 40) if rng.random() < 0.7 else a for a in pmin]
    pmax = [a + k * c for a, k, c in zip(pmin, n, cell)]
    dims = rng.sample(NAMES, ndim) if rng.random() < 0.5 else None
    units = [rng.choice(UNITS) for _ in range(ndim)] if rng.random() < 0.4 else None
    dd = dims or (["x", "y", "z"][:ndim] if ndim <= 3 else [f"x{i}" for i in range(ndim)])
    bc = ""
    if rng.random() < 0.3 and not plain:
        bc = "".join(d for d in dd if len(d) == 1 and d == d.lower() and rng.random() < 0.6)   # (bc is lower-cased by its setter)
    subs = []
    for k in range(0 if plain else rng.choice([0, 0, 1, 2])):
        lo, hi = [], []
        for a in range(ndim):
            i0 = rng.randint(0, n[a] - 1)
            i1 = rng.randint(i0 + 1, n[a])
            lo.append(float(pmin[a] + i0 * cell[a]))
            hi.append(float(pmin[a] + i1 * cell[a]))
        if tolsub and not far:
            # faces moved off the cell lattice by 2^-44 (exactly representable here): accepted by the subregion setter only
            # thanks to its tolerances (1e-12 alignment, 0.1 % divisibility, region atol), on their clear side
            lo = [x + rng.choice([0.0, 0.0, 2.0 ** -44, -2.0 ** -44]) for x in lo]
            hi = [x + rng.choice([0.0, 0.0, 2.0 ** -44, -2.0 ** -44]) for x in hi]
        subs.append([f"r{k}", lo, hi])
    swap = [rng.random() < 0.25 for _ in range(ndim)]
    p1 = [float(b if s else a) for a, b, s in zip(pmin, pmax, swap)]
    p2 = [float(a if s else b) for a, b, s in zip(pmin, pmax, swap)]
    return dict(p1=p1, p2=p2, n=n, dims=dims, units=units, bc=bc, subs=subs)


def gen_float_mesh(rng):
    ndim = rng.choice([1, 2, 3, 3, 4])
    n = [rng.randint(1, 6) for _ in range(ndim)]
    while int(np.prod(n)) > 120:
        k = rng.randrange(ndim)
        n[k] = max(1, n[k] - 1)
    # pm .. 1000 km, the mesh up to 1e6 edge lengths away from the origin
    scale = 10.0 ** rng.randint(-12, 6)
    edge = [scale * rng.choice([1.0, 1 / 3, 0.7, 2.5, 10.0]) * rng.uniform(0.5, 2) for _ in range(ndim)]
    off = rng.choice([0.0, 1.0, -1.0, 17.3, 1e3, -1e3, 1e6, -1e6])
    p1 = [off * e + rng.uniform(-1, 1) * e for e in edge]
    p2 = [a + e for a, e in zip(p1, edge)]
    dims = rng.sample(NAMES, ndim) if rng.random() < 0.5 else None
    r = rng.random()
    if r < 0.25 and ndim >= 2:
        # anisotropic: every axis at its own decade (edge of one axis up to 1e8 x the smallest cell of another), cell
        # counts 3 and 7 (non-representable quotients); the reduced meshes of integrate/mean keep such axes
        edge = [e * 10.0 ** rng.randint(0, 7) for e in edge]
        n = [rng.choice([k, 3, 7]) for k in n]
        while int(np.prod(n)) > 150:
            n[rng.randrange(ndim)] = 1
        p1 = [rng.choice([0.0, rng.uniform(-1, 1) * e]) for e in edge]
        p2 = [a + e for a, e in zip(p1, edge)]
    elif r < 0.4 and ndim >= 2:
        # corner points given as Python ints, the product of the edge lengths above 2**63
        lim = {2: 10 ** 10, 3: 5 * 10 ** 6, 4: 2 * 10 ** 5}[ndim]
        ie = [k * rng.randint(lim // 50, lim) for k in n]
        p1 = [rng.randint(-lim, lim) for _ in range(ndim)]
        p2 = [a + e for a, e in zip(p1, ie)]
    return dict(p1=p1, p2=p2, n=n, dims=dims, units=None, bc="", subs=[])


def cases(rng, tier):
    quick = tier == "quick"
    # smallest scopes enumerated: every shape with n in {1,2,3} up to 3-d (quick: half of the 3-d ones)
    for ndim in (1, 2, 3):
        for n in itertools.product((1, 2, 3), repeat=ndim):
            if quick and ndim == 3 and rng.random() < 0.5:
                continue
            yield dict(kind="field", mesh=gen_mesh(rng, tier, ndim, n), nvdim=rng.choice([1, 2, 3]), tier=tier,
                       sub=rng.getrandbits(32))
    for _ in range(N_FIELD[tier]):
        far = rng.random() < 0.2
        yield dict(kind="field", mesh=gen_mesh(rng, tier, far=far, tolsub=(not far and rng.random() < 0.3)),
                   nvdim=rng.choice([1, 1, 2, 3, 3, 4]), tier=tier, far_shift=rng.random() < 0.4, sub=rng.getrandbits(32))
    for _ in range(N_FLOAT[tier]):
        # data magnitudes 1e-15 .. 1e15 (a per-case decade on top of the per-value 1e-3 .. 1e3)
        yield dict(kind="float", mesh=gen_float_mesh(rng), nvdim=rng.choice([1, 2, 3, 4]), tier=tier,
                   dexp=rng.choice([0, 0, rng.randint(-12, 12)]), sub=rng.getrandbits(32))
    # every kind of data a field can hold (the property quantifies over ALL fields): each dtype x each magnitude class
    # x each way of getting such a field, round robin so that every run sees every dtype
    k = 0
    for _ in range(N_DTYPE[tier]):
        dt = DTYPE_NAMES[k % len(DTYPE_NAMES)]
        k += 1
        yield dict(kind="dtype", mesh=gen_mesh(rng, tier, far=rng.random() < 0.15), nvdim=rng.choice([1, 1, 2, 3, 3, 4]), tier=tier,
                   dtype=dt, mag=rng.choice(["small", "small", "range", "range", "wide"]),
                   route=rng.choice(["array", "array", "array", "setter", "setter", "nodtype", "callable"]),
                   far_shift=rng.random() < 0.3, sub=rng.getrandbits(32))
    # thousands of cells along ONE axis (every accumulation runs long), in every kind of data
    for _ in range(N_LONG[tier]):
        yield gen_long(rng, tier)
    for _ in range(60 if quick else 500):
        yield gen_history(rng, tier)
    for _ in range(60 if quick else 300):
        yield dict(kind="bad", mesh=gen_mesh(rng, "quick", rng.choice([1, 1, 2, 3])), nvdim=rng.choice([1, 3]), tier=tier,
                   sub=rng.getrandbits(32))


def gen_history(rng, tier):
    """a field (or two fields sharing ONE mesh object) whose mesh is transformed IN PLACE between evaluations"""
    shared = rng.random() < 0.3
    ndim = rng.choice([1, 2, 2, 3, 3, 4])
    spec = gen_mesh(rng, "quick", ndim)
    while int(np.prod(spec["n"])) > 60:
        k = rng.randrange(ndim)
        lo, hi, cell = frac_geometry(spec)
        spec["n"][k] = max(1, spec["n"][k] - 1)
        spec["p1"], spec["p2"] = [float(x) for x in lo], [float(l + n * c) for l, n, c in zip(lo, spec["n"], cell)]
        spec["subs"] = []
    dims = dims_of(spec)
    steps = []
    for _ in range(rng.randint(2, 4) if tier == "quick" else rng.randint(2, 6)):
        # quarter turns go through float sin/cos: corners stop being dyadic, the tolerance comparators take over from there
        # (no subregions then: which subregions a bare-name selection keeps is decided by a floor on a cell face)
        kinds = ["scale", "scale", "translate"] + (["rotate90", "rotate90"] if ndim >= 2 and not shared and not spec["subs"] else [])
        kind = rng.choice(kinds)
        target = "mesh" if (spec["subs"] or rng.random() < 0.6) else "region"
        if kind == "scale":
            if rng.random() < 0.5:
                factor = rng.choice([2.0, 0.5, 4.0, -1.0, -2.0, 1.5, 0.25, -0.5])
            else:
                factor = [rng.choice([2.0, 0.5, -1.0, 1.5, 1.0, -2.0]) for _ in range(ndim)]
            ref = [float(Fraction(rng.randint(-16, 16), 2)) for _ in range(ndim)] if rng.random() < 0.3 else None
            steps.append(dict(op="scale", factor=factor, ref=ref, target=target))
        elif kind == "translate":
            steps.append(dict(op="translate", vector=[float(Fraction(rng.randint(-40, 40), 4)) for _ in range(ndim)], target=target))
        else:
            a1, a2 = rng.sample(dims, 2)
            ref = [float(Fraction(rng.randint(-16, 16), 2)) for _ in range(ndim)] if rng.random() < 0.3 else None
            steps.append(dict(op="rotate90", ax1=a1, ax2=a2, k=rng.choice([1, 1, 3, -1, 2, 0, 4, -2, 5, -3, 1002, -1001]), ref=ref))
    nv = rng.choice([1, 1, ndim, 3]) if ndim > 1 else rng.choice([1, 2])
    # integer / boolean data too (numpy reduces them in 64-bit integers / binary64: the exact regime applies)
    dt = "float64"
    if rng.random() < 0.4:
        # since repo fix 1656fb93 a quarter turn multiplies by exact 0 / 1 / -1, so signed integer data stay integer; a turned
        # component of UNSIGNED / boolean data has no negative to go to (uint8: -3 wraps to 253 or raises; bool: the sign is lost -
        # reported as a finding of the rotation property, not of this one): vector fields that are turned hold signed data
        turned = any(st["op"] == "rotate90" for st in steps) and nv > 1
        dt = rng.choice(["int8", "int16", "int32", "int64"] if turned else ["int8", "int16", "int32", "int64", "uint8", "uint32", "bool"])
    return dict(kind="history", mesh=spec, nvdim=nv, nvdim2=rng.choice([1, 2]), shared=shared, steps=steps, tier=tier,
                dtype=dt, sub=rng.getrandbits(32))


# ------------------------------------------------------------------ adapter helpers
def build_mesh(spec, shift=None):
    kw = {}
    if spec.get("dims"):
        kw["dims"] = spec["dims"]
    if spec.get("units"):
        kw["units"] = spec["units"]
    sh = shift or [0.0] * len(spec["p1"])
    r = df.Region(p1=[a + t for a, t in zip(spec["p1"], sh)], p2=[a + t for a, t in zip(spec["p2"], sh)], **kw)
    subs = {nm: df.Region(p1=[a + t for a, t in zip(lo, sh)], p2=[a + t for a, t in zip(hi, sh)]) for nm, lo, hi in spec.get("subs", [])}
    return df.Mesh(region=r, n=spec["n"], bc=spec.get("bc", ""), subregions=subs or None)


def part_of(a, part):
    """real / imaginary part of an array of any numeric dtype, as binary64 (integers stay integers)"""
    a = np.asarray(a)
    if np.iscomplexobj(a):
        a = a.real if part == "re" else a.imag
    elif part == "im":
        a = np.zeros(a.shape)
    if a.dtype.kind == "f" and a.dtype.itemsize != 8:
        a = a.astype(np.float64)
    return a


def fjson(f, part="re"):
    """fieldio.field_json for a field holding any kind of data (one part of complex data)"""
    if f.array.dtype == np.float64 and part == "re":
        return fieldio.field_json(f)
    nv = f.nvdim
    arr = part_of(f.array, part).reshape(-1, nv)
    return dict(mesh=fieldio.mesh_json(f.mesh), nvdim=int(nv),
                data=[Qs(row) for row in arr.tolist()],
                valid=[bool(v) for v in np.asarray(f.valid).reshape(-1).tolist()],
                vdims=(list(f.vdims) if f.vdims is not None else None),
                vmap=[[k, v] for k, v in f.vdim_mapping.items() if v is not None],
                unit=f.unit)


def canon(res, part="re"):
    """canonical observable of an API result (part: the real or the imaginary part of the values)"""
    if isinstance(res, df.Field):
        return {"field": fjson(res, part)}
    if isinstance(res, df.Mesh):
        return {"mesh": fieldio.mesh_json(res)}
    a = part_of(res, part)
    return {"vals": Qs(a.reshape(-1).tolist()), "shape": list(a.shape)}


def call(fn):
    try:
        return fn()
    except Exception as e:  # canonicalised: the property says "rejected", not how
        return ("err", type(e).__name__)


def is_err(x):
    return isinstance(x, tuple) and len(x) == 2 and x[0] == "err"


def canon_or_err(x, part="re"):
    return {"err": x[1]} if is_err(x) else canon(x, part)


def pydir(d, as_tuple=False):
    if isinstance(d, list):
        return tuple(d) if as_tuple else list(d)
    return d


def integrate_api(f, direction, cumulative, fn_form):
    if fn_form:
        return df.integrate(f, direction=direction, cumulative=cumulative)
    return f.integrate(direction=direction, cumulative=cumulative)


def do_request(f, req, rng=None, fn_form=False, as_tuple=False):
    """run one driver sub-request on the real code"""
    op = req["op"]
    if op == "integrate":
        return call(lambda: integrate_api(f, pydir(req.get("dir"), as_tuple), req["cumulative"], fn_form))
    if op == "integrate_abs":
        return call(lambda: integrate_api(abs(f), pydir(req.get("dir"), as_tuple), req["cumulative"], fn_form))
    if op == "mean":
        return call(lambda: f.mean(pydir(req.get("dir"), as_tuple)) if "dir" in req else f.mean())
    if op == "integrate_seq":
        def chain():
            g = f
            for d in req["dirs"]:
                g = integrate_api(g, d, False, fn_form)
            return g
        return call(chain)
    if op == "integrate_chain":
        def cchain():
            g = f
            for d, cum in zip(req["dirs"], req["cums"]):
                g = integrate_api(g, d, cum, fn_form)
            return g
        return call(cchain)
    if op == "mean_seq":
        def mchain():
            g = f
            for d in req["dirs"]:
                g = g.mean(d)
            return g
        return call(mchain)
    if op == "sel":
        return call(lambda: f.mesh.sel(req["dim"]))
    if op == "dV":
        return call(lambda: np.array([f.mesh.dV] + [float(c) for c in f.mesh.cell]))
    raise core.MachineryError(f"unknown request {op}")


# ------------------------------------------------------------------ exact expectations (oracle, real code alone)
def frac_geometry(spec):
    lo = [min(Fraction(a), Fraction(b)) for a, b in zip(spec["p1"], spec["p2"])]
    hi = [max(Fraction(a), Fraction(b)) for a, b in zip(spec["p1"], spec["p2"])]
    cell = [(h - l) / k for l, h, k in zip(lo, hi, spec["n"])]
    return lo, hi, cell


def dims_of(spec):
    nd = len(spec["p1"])
    return spec["dims"] or (["x", "y", "z"][:nd] if nd <= 3 else [f"x{i}" for i in range(nd)])


def units_of(spec):
    return spec["units"] or ["m"] * len(spec["p1"])


class CQ:
    """exact complex rational (real and imaginary part Fractions): the expected value of a complex field"""
    __slots__ = ("re", "im")

    def __init__(self, re, im=0):
        self.re, self.im = Fraction(re), Fraction(im)

    @staticmethod
    def of(x):
        return x if isinstance(x, CQ) else CQ(x)

    def __add__(self, o):
        o = CQ.of(o)
        return CQ(self.re + o.re, self.im + o.im)

    __radd__ = __add__

    def __sub__(self, o):
        o = CQ.of(o)
        return CQ(self.re - o.re, self.im - o.im)

    def __rsub__(self, o):
        return CQ.of(o) - self

    def __neg__(self):
        return CQ(-self.re, -self.im)

    def __mul__(self, o):  # by a real rational only (cell measures, counts)
        return CQ(self.re * Fraction(o), self.im * Fraction(o))

    __rmul__ = __mul__

    def __truediv__(self, o):
        return CQ(self.re / Fraction(o), self.im / Fraction(o))

    def __abs__(self):  # |re| + |im|: only used as the scale of a tolerance
        return abs(self.re) + abs(self.im)

    def __eq__(self, o):
        o = CQ.of(o)
        return self.re == o.re and self.im == o.im

    def __hash__(self):
        return hash((self.re, self.im))

    def __str__(self):
        return f"({self.re})+({self.im})i"

    __repr__ = __str__


def to64(a):
    """any numeric array -> float64 / complex128 (exact for every value the generators produce)"""
    a = np.asarray(a)
    if a.dtype == object:
        return a
    return a.astype(np.complex128) if np.iscomplexobj(a) else a.astype(np.float64)


def obj(a):
    """numeric array of any dtype -> object array of exact Fractions (CQ for complex data)"""
    a = np.asarray(a)
    if a.dtype == object:
        return a
    if np.iscomplexobj(a):
        flat = [CQ(Fraction(float(z.real)), Fraction(float(z.imag))) for z in a.reshape(-1)]
    elif a.dtype.kind in "iub":
        flat = [Fraction(int(x)) for x in a.reshape(-1)]
    else:
        flat = [Fraction(float(x)) for x in a.reshape(-1)]
    out = np.empty(len(flat), dtype=object)
    out[:] = flat
    return out.reshape(np.shape(a))


def parts(x):
    """(re, im) of an impl scalar as exact Fractions; None if not finite"""
    try:
        if isinstance(x, (complex, np.complexfloating)):
            return Fraction(float(x.real)), Fraction(float(x.imag))
        return Fraction(float(x)), Fraction(0)
    except (ValueError, OverflowError):
        return None


def eparts(y):
    return (y.re, y.im) if isinstance(y, CQ) else (Fraction(y), Fraction(0))


def _pairs(impl, expected):
    impl = np.asarray(impl)
    expected = np.asarray(expected, dtype=object)
    if impl.shape != expected.shape:
        return None
    out = []
    for x, y in zip(impl.reshape(-1), expected.reshape(-1)):
        px = parts(x)
        if px is None:
            return None
        out.append((px, eparts(y)))
    return out


def eq_exact(impl, expected):
    """impl array (any dtype) equals an object array of Fractions / CQ entry by entry"""
    pr = _pairs(impl, expected)
    return pr is not None and all(px == py for px, py in pr)


def eq_rounded(impl, expected, rel_entry=None):
    """impl equals the correctly rounded (binary64) value of the exact rational; with rel_entry (data held in another
    precision: the quotient is rounded there): within rel_entry of the exact value, entry by entry"""
    pr = _pairs(impl, expected)
    if pr is None:
        return False
    if rel_entry is None:
        return all(float(a) == float(b) for px, py in pr for a, b in zip(px, py))
    return all(abs(a - b) <= Fraction(rel_entry) * max(abs(py[0]), abs(py[1])) for px, py in pr for a, b in zip(px, py))


def eq_close(impl, expected, scale, rel=2.0 ** -40):
    pr = _pairs(impl, expected)
    if pr is None:
        return False
    bound = Fraction(rel) * Fraction(scale)
    return all(abs(a - b) <= bound for px, py in pr for a, b in zip(px, py))


def reduced_mesh_ok(res_mesh, spec, removed, shift=None):
    """the mesh with the axes `removed` taken out: corners, dims, units, n of the remaining axes unchanged"""
    lo, hi, _ = frac_geometry(spec)
    if shift:
        lo = [a + Fraction(t) for a, t in zip(lo, shift)]
        hi = [a + Fraction(t) for a, t in zip(hi, shift)]
    keep = [a for a in range(len(lo)) if a not in removed]
    r = res_mesh.region
    return (r.ndim == len(keep)
            and [Fraction(float(x)) for x in r.pmin] == [lo[a] for a in keep]
            and [Fraction(float(x)) for x in r.pmax] == [hi[a] for a in keep]
            and list(r.dims) == [dims_of(spec)[a] for a in keep]
            and list(r.units) == [units_of(spec)[a] for a in keep]
            and [int(k) for k in res_mesh.n] == [spec["n"][a] for a in keep])


def ordered_subsets(dims, rng, tier):
    nd = len(dims)
    out = [[]]
    for k in range(1, nd + 1):
        out += [list(p) for p in itertools.permutations(dims, k)]
    if nd == 4 and tier != "all":
        fixed = [s for s in out if len(s) <= 1]
        rest = [s for s in out if len(s) > 1]
        rng.shuffle(rest)
        out = fixed + rest[:10]
    return out


def field_oracle(case, f, arr, mesh, rng, fail, exact, light=False, ctx=None):
    """property-level checks on the real code alone.  exact=True: equality, else 2^-40 relative.
    light=True: the checks 1-5 only (used after every step of a history).
    ctx (fields whose data are not binary64): rel = relative bound of the tolerance regime (any-order summation in the
    precision of the data), mean_rel = per-entry bound of a mean in the exact regime when the quotient is rounded in
    another precision than binary64 (None: correctly rounded binary64 quotient), mk(values, nvdim, mesh) = constructor
    of a field with the same kind of data, unsigned = data cannot be negative"""
    ctx = ctx or {}
    rel = ctx.get("rel", 2.0 ** -40)
    mean_rel = ctx.get("mean_rel")
    mk = ctx.get("mk") or (lambda values, nvd, msh: df.Field(msh, nvdim=nvd, value=values))
    spec = case["mesh"]
    lo, hi, cell = frac_geometry(spec)
    dims = dims_of(spec)
    nd, nv = len(dims), case["nvdim"]
    A = obj(arr)
    edge = [h - l for l, h in zip(lo, hi)]
    dV = Fraction(1)
    for c in cell:
        dV *= c
    vol = Fraction(1)
    for e in edge:
        vol *= e
    absum = sum(abs(x) for x in A.reshape(-1)) or Fraction(1)

    def same(impl, expected, scale):
        return eq_exact(impl, expected) if exact else eq_close(impl, expected, scale, rel)

    def same_mean(impl, expected, scale):
        return eq_rounded(impl, expected, mean_rel) if exact else eq_close(impl, expected, scale, rel)

    space = tuple(range(nd))
    # 0. the cell volume and the cell lengths the mesh reports are those of its current corners and counts
    dv_impl = call(lambda: mesh.dV)
    cell_impl = call(lambda: mesh.cell)
    if is_err(dv_impl) or not same([dv_impl], np.array([dV], dtype=object), dV):
        fail(f"mesh.dV = {dv_impl}, product of (edge / n) over the axes of the current mesh = {dV}")
        return
    if is_err(cell_impl) or not same(cell_impl, np.array(cell, dtype=object), max(cell)):
        fail(f"mesh.cell = {cell_impl if is_err(cell_impl) else np.asarray(cell_impl).tolist()}, edge / n of the current mesh = {[str(c) for c in cell]}")
        return
    # 1. the integral over all directions = cell volume x sum of the cell values
    exp_all = A.sum(axis=space) * dV
    I0 = call(lambda: f.integrate())
    if is_err(I0) or isinstance(I0, df.Field) or not same(I0, exp_all, absum * dV):
        fail(f"integrate() = {I0 if is_err(I0) else np.asarray(getattr(I0, 'array', I0)).tolist()}, cell volume x sum of cell values = {[str(x) for x in exp_all]}")
        return
    # 2. every directional integral: sum along the named axis x that axis's cell length, on the reduced mesh
    Id = {}
    for ax, d in enumerate(dims):
        exp = A.sum(axis=ax) * cell[ax]
        g = call(lambda: f.integrate(d))
        if is_err(g):
            fail(f"integrate('{d}') raised {g[1]}")
            return
        if nd == 1:
            if isinstance(g, df.Field) or not same(g, exp, absum * cell[ax]):
                fail(f"1-d integrate('{d}') = {np.asarray(getattr(g, 'array', g)).tolist()}, expected {[str(x) for x in exp]}")
                return
            Id[d] = np.asarray(g)
            continue
        if not isinstance(g, df.Field) or not same(g.array, exp, absum * cell[ax]):
            fail(f"integrate('{d}') differs from (sum along axis {ax}) x cell length {cell[ax]}")
            return
        if not reduced_mesh_ok(g.mesh, spec, [ax]):
            fail(f"integrate('{d}') lives on {g.mesh}, not on the mesh with axis {ax} removed")
            return
        if g.nvdim != nv or not bool(np.all(g.valid)):
            fail(f"integrate('{d}') has nvdim {g.nvdim} / invalid cells")
            return
        Id[d] = g.array
    # 3. Fubini: every order of directions gives the volume integral
    perms = list(itertools.permutations(dims))
    if nd == 4 and case.get("tier") != "thorough":
        rng.shuffle(perms)
        perms = perms[:6]
    for p in perms:
        def chain():
            g = f
            for d in p:
                g = g.integrate(d)
            return g
        r = call(chain)
        if is_err(r) or isinstance(r, df.Field) or not same(r, exp_all, absum * dV):
            fail(f"integrating in the order {list(p)} gives {r if is_err(r) else np.asarray(getattr(r, 'array', r)).tolist()}, integrate() gives {np.asarray(I0).tolist()}")
            return
    # 4. cumulative integral: cell length x (sum of the preceding cells + half the own value)
    for ax, d in enumerate(dims):
        C = call(lambda: f.integrate(d, cumulative=True))
        if is_err(C) or not isinstance(C, df.Field):
            fail(f"integrate('{d}', cumulative=True) raised / returned no field: {C}")
            return
        cs = np.cumsum(A, axis=ax)
        exp = (cs - A / 2) * cell[ax]
        if C.mesh != f.mesh or not same(C.array, exp, absum * cell[ax]):
            fail(f"cumulative integral along '{d}' is not cell x (preceding sum + half own value), or not on the field's mesh")
            return
        last = np.take(C.array, -1, axis=ax)
        lastx = np.take(A, -1, axis=ax)
        if not same(Id[d], obj(last) + lastx / 2 * cell[ax], absum * cell[ax]):
            fail(f"cumulative integral along '{d}': last entry + half the last cell x cell length != integrate('{d}')")
            return
    # 5. means = integral / integrated extent
    M0 = call(lambda: f.mean())
    if is_err(M0) or not same_mean(M0, exp_all / vol, absum * dV / vol):
        fail(f"mean() = {M0 if is_err(M0) else np.asarray(M0).tolist()}, integral / volume = {[str(x) for x in exp_all / vol]}")
        return
    if nd > 1:
        for ax, d in enumerate(dims):
            g = call(lambda: f.mean(d))
            exp = A.sum(axis=ax) * cell[ax] / edge[ax]
            if is_err(g) or not isinstance(g, df.Field) or not same_mean(g.array, exp, absum / spec["n"][ax]):
                fail(f"mean('{d}') differs from integrate('{d}') / edge length {edge[ax]}")
                return
            if not reduced_mesh_ok(g.mesh, spec, [ax]):
                fail(f"mean('{d}') lives on {g.mesh}, not on the mesh with axis {ax} removed")
                return
    subsets = [s for s in ordered_subsets(dims, rng, "sample") if len(s) >= 1]
    if nd > 3:
        subsets = subsets[:8]
    for s in subsets:
        axes = tuple(dims.index(d) for d in s)
        ext = Fraction(1)
        cl = Fraction(1)
        for a in axes:
            ext *= edge[a]
            cl *= cell[a]
        exp = A.sum(axis=axes) * cl / ext
        g = call(lambda: f.mean(list(s)))
        if is_err(g):
            fail(f"mean({s}) raised {g[1]}")
            return
        if len(s) == nd:
            if isinstance(g, df.Field) or not same_mean(g, exp, absum * cl / ext):
                fail(f"mean({s}) = {np.asarray(getattr(g, 'array', g)).tolist()}, integral / volume = {[str(x) for x in exp]}")
                return
        else:
            if not isinstance(g, df.Field) or not same_mean(g.array, exp, absum * cl / ext):
                fail(f"mean({s}) differs from the integral over {s} / integrated extent {ext}")
                return
            if not reduced_mesh_ok(g.mesh, spec, list(axes)):
                fail(f"mean({s}) lives on {g.mesh}, not on the mesh with axes {list(axes)} removed")
                return
    # 5b. means are consistent across axes: direction by direction = mean(list), same reduced mesh
    if nd >= 2:
        s2 = list(rng.sample(dims, rng.randint(1, nd - 1)))
        def mchain():
            g = f
            for dd in s2:
                g = g.mean(dd)
            return g
        gc, gl = call(mchain), call(lambda: f.mean(list(s2)))
        if is_err(gc) or is_err(gl) or not isinstance(gc, df.Field) or not isinstance(gl, df.Field):
            fail(f"mean chain {s2} / mean({s2}) raised or returned no field: {gc if is_err(gc) else ''} {gl if is_err(gl) else ''}")
            return
        # one rounding per step of the chain, in the precision the data are held in
        chain_rel = max(rel, 2.0 ** -40) if (not exact or mean_rel is None) else max(4 * mean_rel, 2.0 ** -40)
        if gc.mesh != gl.mesh or not eq_close(gc.array, obj(gl.array), absum, chain_rel):
            fail(f"averaging direction by direction over {s2} differs from mean({s2})")
            return
    if not light and not ctx:
        # 5b. the cumulative integral composed with further integrate calls (property: 'acts ... consistent across axes'):
        # along the same direction every cell counts with its distance to the upper face, cell^2 x sum (n - l - 1/2) x_l;
        # along another direction the two operations commute; two cumulative integrals commute
        dcu = dims[rng.randrange(nd)]
        ac = dims.index(dcu)
        w = np.array([Fraction(2 * (spec["n"][ac] - l) - 1, 2) for l in range(spec["n"][ac])], dtype=object)
        shp = [1] * (nd + 1)
        shp[ac] = spec["n"][ac]
        exp_same = (A * w.reshape(shp)).sum(axis=ac) * cell[ac] * cell[ac]
        Rs = call(lambda: f.integrate(dcu, cumulative=True).integrate(dcu))
        if is_err(Rs) or not same(getattr(Rs, "array", Rs), exp_same, absum * cell[ac] * cell[ac] * spec["n"][ac]):
            fail(f"integrate('{dcu}', cumulative=True).integrate('{dcu}') is not cell^2 x sum over l of (n - l - 1/2) x value_l")
            return
        if nd >= 2:
            dot = rng.choice([x for x in dims if x != dcu])
            ao = dims.index(dot)
            pairs = [(lambda: f.integrate(dcu, cumulative=True).integrate(dot), lambda: f.integrate(dot).integrate(dcu, cumulative=True),
                      f"integrate('{dcu}', cumulative=True).integrate('{dot}')", f"integrate('{dot}').integrate('{dcu}', cumulative=True)"),
                     (lambda: f.integrate(dcu, cumulative=True).integrate(dot, cumulative=True),
                      lambda: f.integrate(dot, cumulative=True).integrate(dcu, cumulative=True),
                      f"integrate('{dcu}', cumulative=True).integrate('{dot}', cumulative=True)", "the other order")]
            for fa_, fb_, la, lb in pairs:
                ra, rb = call(fa_), call(fb_)
                if is_err(ra) or is_err(rb) or not isinstance(ra, df.Field) or not isinstance(rb, df.Field):
                    fail(f"{la} / {lb} raised or returned no field")
                    return
                if ra.mesh != rb.mesh or not same(ra.array, obj(rb.array), absum * cell[ac] * cell[ao]):
                    fail(f"{la} differs from {lb}")
                    return
    if not exact or light:
        return
    # 6. linearity
    arr2 = fieldio.gen_int_array(rng, arr.shape, 0 if ctx.get("unsigned") else -9, 1 if ctx.get("bool") else 9)
    f2 = mk(arr2, nv, mesh)
    comb = df.Field(mesh, nvdim=nv, value=2 * arr - 3 * arr2)  # binary64 / complex128: holds the combination exactly
    d = dims[rng.randrange(nd)]
    for label, fn in (("integrate()", lambda h: h.integrate()),
                      (f"integrate('{d}')", lambda h: h.integrate(d)),
                      (f"integrate('{d}', cumulative=True)", lambda h: h.integrate(d, cumulative=True)),
                      ("mean()", lambda h: h.mean())):
        a, b, c = (np.asarray(getattr(fn(h), "array", fn(h))) for h in (f, f2, comb))
        if label == "mean()":
            continue  # means are rounded quotients; linearity is checked on the integrals
        if not eq_exact(c, 2 * obj(a) - 3 * obj(b)):
            fail(f"{label} is not linear: I(2f-3g) != 2I(f)-3I(g)")
            return
    # 7. per component
    if nv > 1:
        c = rng.randrange(nv)
        fc = mk(arr[..., c:c + 1], 1, mesh)
        for label, fn in (("integrate()", lambda h: h.integrate()),
                          (f"integrate('{d}')", lambda h: h.integrate(d)),
                          (f"integrate('{d}', cumulative=True)", lambda h: h.integrate(d, cumulative=True)),
                          ("mean()", lambda h: h.mean())):
            a = np.asarray(getattr(fn(f), "array", fn(f)))
            b = np.asarray(getattr(fn(fc), "array", fn(fc)))
            if not np.array_equal(a[..., c], b[..., 0]):
                fail(f"{label}: component {c} of the result differs from the result for component {c} alone")
                return
    # 8. translation invariance
    shift = [float(Fraction(rng.randint(-64, 64), 4)) for _ in range(nd)]
    if case.get("far_shift"):
        # far away: 2^e x a small integer (all corners stay exactly representable: multiples of 2^-5 below 2^45)
        shift = [float(rng.choice([-1, 1]) * rng.randint(1, 7) * 2 ** rng.randint(10, 40)) if rng.random() < 0.7 else t for t in shift]
    mesh_t = build_mesh(spec, shift)
    ft = mk(arr, nv, mesh_t)
    for label, fn in (("integrate()", lambda h: h.integrate()),
                      (f"integrate('{d}')", lambda h: h.integrate(d)),
                      (f"integrate('{d}', cumulative=True)", lambda h: h.integrate(d, cumulative=True)),
                      ("mean()", lambda h: h.mean())):
        ra, rb = fn(f), fn(ft)
        if not np.array_equal(np.asarray(getattr(ra, "array", ra)), np.asarray(getattr(rb, "array", rb))):
            fail(f"{label} changes when the mesh is moved by {shift}")
            return
        if isinstance(rb, df.Field) and "cumulative" not in label and not reduced_mesh_ok(rb.mesh, spec, [dims.index(d)], shift):
            fail(f"{label} on the moved mesh lives on {rb.mesh}")
            return
    # 9. refusals
    r = call(lambda: f.integrate(cumulative=True))
    if not is_err(r):
        fail("integrate(cumulative=True) without a direction was accepted")
    # 8b. absolute value: integral of |f| = cell measure x sum of |cell values|, and it bounds |integral of f|
    if ctx.get("complex"):
        return  # |z| of a complex value is not rational: left to the tolerance-free parts above
    fa = call(lambda: abs(f))
    Ia = call(lambda: fa.integrate())
    if is_err(fa) or is_err(Ia) or not same(Ia, np.abs(A).sum(axis=space) * dV, absum * dV):
        fail(f"abs(field).integrate() = {Ia if is_err(Ia) else np.asarray(Ia).tolist()}, cell volume x sum of |cell values| = {[str(x) for x in np.abs(A).sum(axis=space) * dV]}")
        return
    if not all(abs(Fraction(float(x))) <= Fraction(float(y)) for x, y in zip(np.asarray(I0).reshape(-1), np.asarray(Ia).reshape(-1))):
        fail(f"|integrate()| = {np.abs(np.asarray(I0)).tolist()} exceeds abs(field).integrate() = {np.asarray(Ia).tolist()}")
        return
    ax_a = dims.index(d)
    Ca = call(lambda: fa.integrate(d, cumulative=True))
    if is_err(Ca) or not isinstance(Ca, df.Field) or not same(Ca.array, (np.cumsum(np.abs(A), axis=ax_a) - np.abs(A) / 2) * cell[ax_a], absum * cell[ax_a]):
        fail(f"abs(field).integrate('{d}', cumulative=True) is not cell x (preceding |values| + half own |value|)")
        return


# ------------------------------------------------------------------ run on the real code
def make_field(case, rng):
    spec = case["mesh"]
    mesh = build_mesh(spec)
    nv = case["nvdim"]
    if case["kind"] == "float":
        arr = np.array([rng.uniform(-1, 1) * 10.0 ** rng.randint(-3, 3) for _ in range(int(np.prod(spec["n"])) * nv)]).reshape(*spec["n"], nv)
        if case.get("dexp"):
            arr = arr * 10.0 ** case["dexp"]
    else:
        arr = fieldio.gen_int_array(rng, (*spec["n"], nv))
    mask = fieldio.gen_mask(rng, tuple(spec["n"]))
    kw = {}
    if nv > 1 and rng.random() < 0.5:
        kw["vdims"] = rng.sample(["p", "q", "r", "s", "k"], nv)
    unit = rng.choice([None, "A/m", "T"])
    f = df.Field(mesh, nvdim=nv, value=arr, valid=mask, unit=unit, **kw)
    return mesh, arr, f


def np_dtype(name):
    return np.dtype(bool) if name == "bool" else np.dtype(getattr(np, name))


def gen_values(rng, name, shape, mag):
    """exact values (binary64 / complex128 array, every entry representable in the dtype `name`) of one magnitude class:
    small = integers of one digit; range = the whole range of an integer dtype (up to 2^50 for 64 bits), mixed with the
    extremes and with small values; wide = arbitrary mantissas over 1e-12 .. 1e6 (floating dtypes)"""
    dt = np_dtype(name)
    size = int(np.prod(shape))

    def real_part():
        if dt.kind == "b":
            return [float(rng.randint(0, 1)) for _ in range(size)]
        if dt.kind in "iu":
            lo = 0 if dt.kind == "u" else -9
            if mag == "small":
                return [float(rng.randint(lo, 9)) for _ in range(size)]
            top = INT_MAX[name]
            bot = 0 if dt.kind == "u" else -top
            return [float(rng.choice([rng.randint(bot, top), rng.randint(bot, top), rng.choice([bot, top]), rng.randint(lo, 9)]))
                    for _ in range(size)]
        if name == "float16":
            # partial sums of a few hundred cells stay below the 2048 up to which binary16 holds every integer
            if mag == "small":
                return [float(rng.randint(-4, 4)) for _ in range(size)]
            return [rng.randint(-32, 32) / 8.0 for _ in range(size)]
        if mag == "small":
            return [float(rng.randint(-9, 9)) for _ in range(size)]
        if mag == "range":
            # integers up to the precision of the dtype: exact data, inexact sums in the narrow dtypes
            top = 2 ** (24 if name in ("float32", "complex64") else 50)
            return [float(rng.choice([rng.randint(-top, top), rng.randint(-9, 9)])) for _ in range(size)]
        e = rng.randint(-12, 6)
        vals = [rng.uniform(-1, 1) * 10.0 ** (e if rng.random() < 0.7 else rng.randint(-12, 6)) for _ in range(size)]
        if name in ("float32", "complex64"):
            vals = [float(np.float32(v)) for v in vals]
        return vals

    re = np.array(real_part(), dtype=np.float64).reshape(shape)
    if dt.kind == "c":
        return re + 1j * np.array(real_part(), dtype=np.float64).reshape(shape)
    return re


def precision_of(adt, raw, cell, ncell):
    """what the ACTUAL dtype of the field's data allows to demand.  B = bits of the arithmetic carried out in that dtype
    (53: binary64, or integers that numpy accumulates in 64-bit integers / binary64).  exact: every partial sum, half
    value and product with a cell measure is representable (values k/g, g a power of two, with
    g x sum|values| x the numerators of the cell lengths below 2^(B-1)); otherwise any-order summation in precision B: (ncell + 8) ulps of sum|values| x measure
    (8 ulps when at least every partial sum is representable), never below the 2^-40 of the binary64 streams"""
    if adt.kind in "iub":
        B, ext = 53, False
    else:
        per = adt.itemsize // (2 if adt.kind == "c" else 1)  # bytes of one real number
        B, ext = {2: 11, 4: 24}.get(per, 53), per > 8  # extended precision is read back through binary64
    flat = raw.reshape(-1)
    comps = [flat.real, flat.imag] if np.iscomplexobj(flat) else [flat]
    fr = [Fraction(float(x)) for c in comps for x in c]
    g = max([x.denominator for x in fr] + [1])  # every binary value is an integer multiple of 1/g, g a power of two
    S = sum(abs(x) for x in fr) * g
    P = 1
    for c in cell:
        P *= c.numerator
    # (the second condition: the binary64 combination 2f - 3g of the linearity check, g of one digit, is exact as well)
    if 2 * S * P < 2 ** B and 2 * (2 * S + 27 * g * len(fr)) * P < 2 ** 53:
        exact, rel = True, 2.0 ** -40
    elif 2 * S < 2 ** B:
        exact, rel = False, max(8 * 2.0 ** -(B - 1), 2.0 ** -40)
    else:
        exact, rel = False, max((ncell + 8) * 2.0 ** -(B - 1), 2.0 ** -40)
    # a mean is ONE quotient: correctly rounded where numpy divides binary64 by the count; one rounding of the data's
    # precision elsewhere; complex quotients go through numpy's complex division (reciprocal, then product: two roundings)
    mean_rel = 2.0 ** -(B - 2) if adt.kind == "c" else None if (B == 53 and not ext) else 2.0 ** -(B - 1)
    return dict(exact=exact, rel=rel, mean_rel=mean_rel, bits=B)


def make_dtype_field(case, rng):
    """a field holding data of case['dtype'], obtained on the route case['route'].  Everything downstream refers to the
    data the field ACTUALLY holds (f.array, whatever dtype the constructor settled on)."""
    spec = case["mesh"]
    mesh = build_mesh(spec)
    nv = case["nvdim"]
    name = case["dtype"]
    dt = np_dtype(name)
    mag = case.get("mag", "small")
    vals = gen_values(rng, name, (*spec["n"], nv), mag)
    typed = vals.astype(dt)
    mask = fieldio.gen_mask(rng, tuple(spec["n"]))
    kw = {}
    if nv > 1 and rng.random() < 0.5:
        kw["vdims"] = rng.sample(["p", "q", "r", "s", "k"], nv)
    kw["unit"] = rng.choice([None, "A/m", "T"])
    route = case.get("route", "array")
    if route == "callable" and int(np.prod(spec["n"])) > 40:
        route = "array"
    if route == "array":
        f = df.Field(mesh, nvdim=nv, value=typed, dtype=dt, valid=mask, **kw)
    elif route == "setter":
        f = df.Field(mesh, nvdim=nv, dtype=dt, valid=mask, **kw)
        f.array = typed
    elif route == "nodtype":
        f = df.Field(mesh, nvdim=nv, value=typed, valid=mask, **kw)  # the constructor picks the dtype
    else:
        f = df.Field(mesh, nvdim=nv, value=lambda p: typed[mesh.point2index(p)], dtype=dt, valid=mask, **kw)
    adt = f.array.dtype
    raw = to64(f.array)
    _, _, cell = frac_geometry(spec)
    prec = precision_of(adt, raw, cell, int(np.prod(spec["n"])))

    def mk(values, nvd, msh):
        return df.Field(msh, nvdim=nvd, value=np.asarray(values).astype(adt), dtype=adt)

    ctx = dict(rel=prec["rel"], mean_rel=prec["mean_rel"], mk=mk, unsigned=adt.kind in "ub", bool=adt.kind == "b",
               complex=adt.kind == "c")
    return mesh, raw, f, ctx, prec, route


def requests_for(case, rng, dims, tier, with_abs=True):
    nd = len(dims)
    reqs = [dict(op="integrate", dir=None, cumulative=False), dict(op="mean", dir=None)]
    for d in dims:
        reqs += [dict(op="integrate", dir=d, cumulative=False), dict(op="integrate", dir=d, cumulative=True),
                 dict(op="mean", dir=d), dict(op="sel", dim=d)]
    perms = [list(p) for p in itertools.permutations(dims)]
    if nd == 4 and tier != "thorough":
        rng.shuffle(perms)
        perms = perms[:5]
    if case["kind"] == "float":
        rng.shuffle(perms)
        perms = perms[:2]
    reqs += [dict(op="integrate_seq", dirs=p) for p in perms]
    subsets = ordered_subsets(dims, rng, "all" if tier == "thorough" else "sample")
    if case["kind"] == "float":
        rng.shuffle(subsets)
        subsets = subsets[:4]
    reqs += [dict(op="mean", dir=s) for s in subsets]
    # abs(field): every form of the integral of the absolute value
    da = dims[rng.randrange(nd)]
    if with_abs:
        reqs += [dict(op="integrate_abs", dir=None, cumulative=False), dict(op="integrate_abs", dir=da, cumulative=False),
                 dict(op="integrate_abs", dir=da, cumulative=True)]
    # partial chains (direction by direction, not all directions)
    if nd >= 3:
        p = list(rng.sample(dims, rng.randint(2, nd - 1)))
        reqs.append(dict(op="integrate_seq", dirs=p))
    # direction-by-direction means over a proper subset (each step rounds once: compared to 2^-40)
    if nd >= 2:
        p = list(rng.sample(dims, rng.randint(1, nd - 1)))
        reqs.append(dict(op="mean_seq", dirs=p))
    # the cumulative integral is a field on the same mesh: integrated again along the same direction, along another one
    # (both orders), and cumulatively along another one (both orders)
    if case["kind"] not in ("field", "float"):
        return reqs  # (two products with a cell length: outside the one-step exactness analysis of the narrow dtypes)
    dc = dims[rng.randrange(nd)]
    reqs.append(dict(op="integrate_chain", dirs=[dc, dc], cums=[True, False]))
    if nd >= 2:
        do = rng.choice([x for x in dims if x != dc])
        reqs += [dict(op="integrate_chain", dirs=[dc, do], cums=[True, False]),
                 dict(op="integrate_chain", dirs=[do, dc], cums=[False, True]),
                 dict(op="integrate_chain", dirs=[dc, do], cums=[True, True]),
                 dict(op="integrate_chain", dirs=[do, dc], cums=[True, True])]
    return reqs


def bad_requests(rng, dims):
    nd = len(dims)
    out = [dict(op="integrate", dir=None, cumulative=True),
           dict(op="integrate", dir="nope", cumulative=False),
           dict(op="integrate", dir="nope", cumulative=True),
           dict(op="integrate", dir=3, cumulative=False),
           dict(op="integrate", dir=[dims[0]], cumulative=False),
           dict(op="integrate", dir=list(dims), cumulative=True),
           dict(op="integrate", dir=True, cumulative=False),
           dict(op="mean", dir="nope"),
           dict(op="mean", dir=3),
           dict(op="mean", dir=1.5),
           dict(op="mean", dir=[dims[0], dims[0]]),
           dict(op="mean", dir=[dims[0], "nope"]),
           dict(op="mean", dir=["nope"]),
           dict(op="mean", dir=[]),
           dict(op="mean", dir=[dims[-1]]),
           dict(op="mean", dir=dims[0]),
           dict(op="integrate", dir=dims[0], cumulative=False),
           dict(op="integrate", dir=dims[0], cumulative=True),
           dict(op="sel", dim="nope"),
           dict(op="sel", dim=dims[0]),
           dict(op="integrate_seq", dirs=[dims[0], dims[0]]),
           dict(op="mean_seq", dirs=[dims[0], dims[0]]),
           dict(op="mean_seq", dirs=list(dims)),
           dict(op="integrate_seq", dirs=list(dims) + [dims[0]])]
    # near misses of a valid name, containers of the wrong kind, lists holding something that is no name
    out += [dict(op=o, dir=v, **kw) for o, kw in (("integrate", dict(cumulative=False)), ("integrate", dict(cumulative=True)), ("mean", {}))
            for v in ("", dims[0] + " ", " " + dims[0], dims[0].upper() if dims[0].upper() not in dims else dims[0] * 2,
                      [dims[0], 3], [[dims[0]]], [None], {}, {dims[0]: 1}, 0, False)]
    if nd >= 2:
        out += [dict(op="mean", dir=list(dims) + [dims[0]]),
                dict(op="mean", dir=[dims[1], dims[0], dims[1]]),
                dict(op="mean", dir=list(reversed(dims)))]
    return out


def spec_of_mesh(mesh):
    """the CURRENT state of a mesh object, in the form of a generator spec"""
    return dict(p1=[float(x) for x in mesh.region.pmin], p2=[float(x) for x in mesh.region.pmax],
                n=[int(k) for k in mesh.n], dims=list(mesh.region.dims), units=list(mesh.region.units), bc=mesh.bc,
                subs=[[k, [float(x) for x in r.pmin], [float(x) for x in r.pmax]] for k, r in mesh.subregions.items()])


def stage_requests(dims):
    reqs = [dict(op="dV"), dict(op="integrate", dir=None, cumulative=False), dict(op="mean", dir=None)]
    for d in dims:
        reqs += [dict(op="integrate", dir=d, cumulative=False), dict(op="integrate", dir=d, cumulative=True),
                 dict(op="mean", dir=d), dict(op="sel", dim=d)]
    if len(dims) >= 2:
        reqs += [dict(op="integrate_seq", dirs=list(reversed(dims))), dict(op="mean", dir=[dims[-1], dims[0]])]
    return reqs


def apply_step(f, st):
    m = f.mesh
    if st["op"] == "scale":
        tgt = m if st["target"] == "mesh" else m.region
        fac = tuple(st["factor"]) if isinstance(st["factor"], list) else st["factor"]
        ref = tuple(st["ref"]) if st.get("ref") else None
        return call(lambda: tgt.scale(fac, reference_point=ref, inplace=True))
    if st["op"] == "translate":
        tgt = m if st["target"] == "mesh" else m.region
        return call(lambda: tgt.translate(tuple(st["vector"]), inplace=True))
    ref = tuple(st["ref"]) if st.get("ref") else None
    return call(lambda: f.rotate90(st["ax1"], st["ax2"], k=st["k"], reference_point=ref, inplace=True))


def same_nested(a, b, exact):
    """equal (exact regime) / equal to 2^-40 relative of the largest entry (after a quarter turn)"""
    if exact:
        return a == b
    if isinstance(a, dict):
        return isinstance(b, dict) and a.keys() == b.keys() and all(same_nested(a[k], b[k], exact) for k in a)
    if is_err(a) or is_err(b):
        return is_err(a) and is_err(b)
    x, y = np.asarray(a, dtype=float), np.asarray(b, dtype=float)
    return x.shape == y.shape and bool(np.all(np.abs(x - y) <= 2.0 ** -40 * max(1e-300, float(np.max(np.abs(y), initial=0.0)))))


def run_history(case, rng, obs, fail):
    """one mesh OBJECT, transformed in place between evaluations; every evaluation must be the one of the
    field's current mesh state"""
    spec = case["mesh"]
    mesh = build_mesh(spec)
    nv = case["nvdim"]
    arr = fieldio.gen_int_array(rng, (*spec["n"], nv))
    dname = case.get("dtype", "float64")
    if dname == "float64":
        fields = [df.Field(mesh, nvdim=nv, value=arr, unit=rng.choice([None, "T"]))]
    else:
        dt = np_dtype(dname)
        arr = np.abs(arr) % 2 if dt.kind == "b" else np.abs(arr) if dt.kind == "u" else arr
        fields = [df.Field(mesh, nvdim=nv, value=arr.astype(dt), dtype=dt, unit=rng.choice([None, "T"]))]
    obs["tags"].append(f"dtype:{fields[0].array.dtype.name}")
    if case["shared"]:
        fields.append(df.Field(mesh, nvdim=case["nvdim2"], value=fieldio.gen_int_array(rng, (*spec["n"], case["nvdim2"]))))
    obs["stages"] = []
    prev = None
    exact = True
    for k in range(len(case["steps"]) + 1):
        if k > 0:
            st = case["steps"][k - 1]
            r = apply_step(fields[0], st)
            obs["tags"].append(f"step:{st['op']}:{'err' if is_err(r) else 'ok'}")
            if st["op"] == "rotate90" and not is_err(r):
                exact = False
        stage = []
        cur = []
        for fi, f in enumerate(fields):
            if f.mesh is not fields[0].mesh:
                fail(f"field {fi} no longer refers to the shared mesh object after step {k}")
            dims = list(f.mesh.region.dims)
            reqs = stage_requests(dims)
            fj = fieldio.field_json(f)
            res = [canon_or_err(do_request(f, r)) for r in reqs]
            stage.append(dict(field=fj, reqs=reqs, res=res, exact=exact))
            sub_fail = []
            field_oracle(dict(mesh=spec_of_mesh(f.mesh), nvdim=f.nvdim, tier=case.get("tier")), f, f.array, f.mesh, rng,
                         sub_fail.append, exact=exact, light=True)
            for t in sub_fail:
                fail(f"after {k} in-place step(s) {case['steps'][:k]} (field {fi}): {t}")
            cur.append(dict(i0=call(lambda: np.asarray(f.integrate()).tolist()), m0=call(lambda: np.asarray(f.mean()).tolist()),
                            dirs={d: call(lambda: np.asarray(getattr(f.integrate(d), "array", f.integrate(d))).tolist()) for d in dims}))
        # the property's own invariances between consecutive stages
        if prev is not None and not is_err(r):
            st = case["steps"][k - 1]
            for fi, (a, b) in enumerate(zip(prev, cur)):
                if st["op"] in ("scale", "translate") and a["m0"] != b["m0"]:
                    fail(f"mean() changed from {a['m0']} to {b['m0']} when the mesh was {st['op']}d in place ({st})")
                if st["op"] == "translate" and not (same_nested(a["i0"], b["i0"], exact) and same_nested(a["dirs"], b["dirs"], exact)):
                    fail(f"integrals changed when the mesh was moved in place by {st['vector']}: integrate() {a['i0']} -> {b['i0']}")
        prev = cur
        obs["stages"].append(stage)
    obs["field"] = obs["stages"][0][0]["field"]
    obs["reqs"], obs["res"] = [], []
    ncell = int(np.prod(spec["n"]))
    obs["tags"] += [f"ndim:{len(spec['n'])}", f"nvdim:{nv}", f"shared:{case['shared']}", f"subs:{len(spec.get('subs', []))}",
                    f"steps:{len(case['steps'])}"]
    obs["nontrivial"] = ncell >= 2 and len(set(arr.reshape(-1).tolist())) > 1
    return obs


def run_impl(case):
    rng = random.Random(case["sub"])
    kind = case["kind"]
    obs = {"oracle": [], "tags": ["kind:" + kind]}
    fail = obs["oracle"].append
    if kind == "history":
        return run_history(case, rng, obs, fail)
    ctx = prec = None
    if kind in ("dtype", "long"):
        mesh, arr, f, ctx, prec, route = make_dtype_field(case, rng)
        obs["prec"] = dict(exact=prec["exact"], rel=Q(Fraction(prec["rel"])),
                           mean_rel=(None if prec["mean_rel"] is None else Q(Fraction(prec["mean_rel"]))), complex=ctx["complex"])
        obs["tags"] += [f"dtype:{f.array.dtype.name}", f"route:{route}", f"mag:{case.get('mag')}",
                        f"regime:{'exact' if prec['exact'] else 'tol'}", f"asked-dtype:{case['dtype']}"]
    else:
        mesh, arr, f = make_field(case, rng)
    dims = list(mesh.region.dims)
    nd = len(dims)
    obs["field"] = fjson(f)
    snap = (f.array.copy(), f.valid.copy())
    tier = case.get("tier", "quick")
    if kind == "bad":
        reqs = bad_requests(rng, dims)
    elif kind == "long":
        reqs = stage_requests(dims)
    else:
        reqs = requests_for(case, rng, dims, tier, with_abs=not (ctx and ctx["complex"]))
    fn_form = rng.random() < 0.3
    as_tuple = rng.random() < 0.5
    obs["reqs"] = reqs
    results = [do_request(f, r, fn_form=fn_form, as_tuple=as_tuple) for r in reqs]
    obs["res"] = [canon_or_err(x) for x in results]
    if ctx and ctx["complex"]:
        # complex data: the rational model answers for the real and for the imaginary part (every form is linear)
        obs["field_im"] = fjson(f, "im")
        obs["res_im"] = [canon_or_err(x, "im") for x in results]
    elif kind in ("dtype", "long"):
        for r, x in zip(reqs, results):
            if not is_err(x) and not isinstance(x, df.Mesh) and np.iscomplexobj(getattr(x, "array", x)):
                fail(f"{req_label(r)} of a field with real data has complex values")
    if kind == "field":
        field_oracle(case, f, arr, mesh, rng, fail, exact=True)
    elif kind == "float":
        field_oracle(case, f, arr, mesh, rng, fail, exact=False)
    elif kind in ("dtype", "long"):
        field_oracle(case, f, arr, mesh, rng, fail, exact=prec["exact"], light=(kind == "long"), ctx=ctx)
    else:
        # refusals the property names
        for r, res in zip(reqs, obs["res"]):
            if r["op"] == "integrate" and r.get("dir") is None and r["cumulative"] and "err" not in res:
                fail("integrate(cumulative=True) without a direction was accepted")
            if (r["op"] == "mean" and isinstance(r.get("dir"), list) and all(isinstance(x, str) for x in r["dir"])
                    and len(set(r["dir"])) != len(r["dir"]) and "err" not in res):
                fail(f"mean({r['dir']}) with a duplicate direction was accepted")
    if not (np.array_equal(snap[0], f.array) and np.array_equal(snap[1], f.valid)):
        obs["tags"].append("operand-modified")
    ncell = int(np.prod(case["mesh"]["n"]))
    far = max(abs(float(x)) for x in list(case["mesh"]["p1"]) + list(case["mesh"]["p2"])) >= 1000 * max(abs(a - b) for a, b in zip(case["mesh"]["p1"], case["mesh"]["p2"]))
    obs["tags"] += [f"ndim:{nd}", f"nvdim:{case['nvdim']}", "cells:" + ("1" if ncell == 1 else "<=8" if ncell <= 8 else "<=64" if ncell <= 64 else ">64" if ncell < 1000 else ">=1000"),
                    f"offset:{'far' if far else 'near'}", f"longest-axis:{'>=1000' if max(case['mesh']['n']) >= 1000 else '<1000'}",
                    f"subs:{len(case['mesh'].get('subs', []))}", f"bc:{'p' if case['mesh'].get('bc') else 'open'}",
                    f"form:{'function' if fn_form else 'method'}"]
    if case["mesh"].get("subs"):
        # subregions off the cell lattice (accepted only within the setter's tolerances) vs exactly fitting ones
        lo, _, cell = frac_geometry(case["mesh"])
        off = any((Fraction(x) - l) % c != 0 for _, a, b in case["mesh"]["subs"] for x, l, c in list(zip(a, lo, cell)) + list(zip(b, lo, cell)))
        obs["tags"].append(f"subregions:{'within-tolerance' if off else 'exact-fit'}")
    for r, res in zip(reqs, obs["res"]):
        obs["tags"].append(f"{r['op']}:{'err' if 'err' in res else 'ok'}")
    obs["nontrivial"] = kind != "bad" and ncell >= 2 and len(set(arr.reshape(-1).tolist())) > 1
    return obs


def exact_prefix(case):
    """number of leading steps the model replays itself: all of them (scale / translate through the in-place steps of the
    shared transformation model, quarter turns through its exact rotate90F); from the first ACCEPTED quarter turn on the
    code's float sin/cos leave the dyadic grid and the comparison is to 2^-40 (flag `exact` of every stage)"""
    return len(case["steps"])


def step_json(st):
    if st["op"] == "rotate90":
        return dict(op="rotate90", ax1=st["ax1"], ax2=st["ax2"], k=st["k"], ref=(Qs(st["ref"]) if st.get("ref") else None))
    if st["op"] == "scale":
        fac = Qs(st["factor"]) if isinstance(st["factor"], list) else Q(st["factor"])
        return dict(op="scale", factor=fac, ref=(Qs(st["ref"]) if st.get("ref") else None), target=st["target"])
    return dict(op="translate", vector=Qs(st["vector"]), target=st["target"])


def model_requests(case, obs):
    if case["kind"] == "history":
        reqs = [dict(op="batch", field=st["field"], reqs=st["reqs"]) for stage in obs["stages"] for st in stage]
        # the model evolves the mesh ITSELF from the initial state (in-place steps of the shared transformation model)
        # and answers the same requests after every step
        p = exact_prefix(case)
        st0 = obs["stages"][0][0]
        reqs.append(dict(op="hist", field=st0["field"], steps=[step_json(s) for s in case["steps"][:p]], reqs=st0["reqs"]))
        return reqs
    out = [dict(op="batch", field=obs["field"], reqs=obs["reqs"])]
    if "field_im" in obs:
        out.append(dict(op="batch", field=obs["field_im"], reqs=obs["reqs"]))
    return out


# ------------------------------------------------------------------ comparison model vs code
def cmp_mesh(name, got, mj, dis, exact, corner_rel=None):
    """corner_rel: ABSOLUTE bound on the corner coordinates for states the model reached through its EXACT quarter turn
    while the code went through float sin/cos (float_turn_bound)"""
    if got["n"] != mj["n"]:
        dis.append(f"{name}: n impl {got['n']} vs model {mj['n']}")
        return
    mag = Fraction(1)
    for key in ("pmin", "pmax"):
        a, b = got["region"][key], mj["region"][key]
        if corner_rel is None:
            bad = len(a) != len(b) or any(F(x) != F(y) for x, y in zip(a, b))
        else:
            bad = len(a) != len(b) or any(abs(F(x) - F(y)) > Fraction(corner_rel) * mag for x, y in zip(a, b))
        if bad:
            dis.append(f"{name}: region {key} impl {a} vs model {b}")
            return
    for key in ("dims", "units"):
        if got["region"][key] != mj["region"][key]:
            dis.append(f"{name}: region {key} impl {got['region'][key]} vs model {mj['region'][key]}")
    if got["bc"] != mj["bc"]:
        dis.append(f"{name}: bc impl {got['bc']!r} vs model {mj['bc']!r}")
    sa = [(s["name"], [F(x) for x in s["pmin"]], [F(x) for x in s["pmax"]], s["dims"], s["units"]) for s in got["subs"]]
    sb = [(s["name"], [F(x) for x in s["pmin"]], [F(x) for x in s["pmax"]], s["dims"], s["units"]) for s in mj["subs"]]
    if sorted(sa) != sorted(sb):
        dis.append(f"{name}: subregions impl {got['subs']} vs model {mj['subs']}")


def cmp_vals(name, a, b, dis, mode, scale, rel=2.0 ** -40):
    if len(a) != len(b):
        dis.append(f"{name}: {len(a)} values impl vs {len(b)} model")
        return
    for c, (x, y) in enumerate(zip(a, b)):
        fx, fy = F(x), F(y)
        if mode == "exact":
            ok = fx == fy
        elif mode == "round":
            ok = float(fx) == float(fy)
        else:
            ok = abs(fx - fy) <= Fraction(rel) * max(scale, abs(fy))
        if not ok:
            dis.append(f"{name}: value {c}: impl {x} vs model {y} ({mode})")
            return


def cmp_res(name, got, resp, dis, mode, scale, rel=2.0 ** -40, corner_rel=None):
    if "err" in resp:
        if "err" not in got:
            dis.append(f"{name}: impl returned a result, model rejects ({resp['err']})")
        return
    if "err" in got:
        dis.append(f"{name}: impl raised {got['err']}, model returns a result")
        return
    m = resp["ok"]
    if "cell" in resp:  # dV request: [dV, cell...]
        cmp_vals(name, got["vals"], [m] + list(resp["cell"]), dis, mode, scale, rel)
        return
    if "mesh" in got:
        cmp_mesh(name, got["mesh"], m, dis, mode != "tol", corner_rel=corner_rel)
        return
    if ("vals" in got) != ("vals" in m):
        dis.append(f"{name}: impl returns {'an array' if 'vals' in got else 'a field'}, model {'an array' if 'vals' in m else 'a field'}")
        return
    if "vals" in got:
        cmp_vals(name, got["vals"], m["vals"], dis, mode, scale, rel)
        return
    g, mf = got["field"], m["field"]
    n0 = len(dis)
    cmp_mesh(name + " mesh", g["mesh"], mf["mesh"], dis, mode != "tol", corner_rel=corner_rel)
    if len(dis) > n0:
        return
    if g["nvdim"] != mf["nvdim"]:
        dis.append(f"{name}: nvdim impl {g['nvdim']} vs model {mf['nvdim']}")
        return
    if g["vdims"] != mf["vdims"]:
        dis.append(f"{name}: vdims impl {g['vdims']} vs model {mf['vdims']}")
    if sorted(map(tuple, g["vmap"])) != sorted(map(tuple, mf["vmap"])):
        dis.append(f"{name}: vdim_mapping impl {g['vmap']} vs model {mf['vmap']}")
    if g["unit"] != mf["unit"]:
        dis.append(f"{name}: unit impl {g['unit']} vs model {mf['unit']}")
    if g["valid"] != mf["valid"]:
        dis.append(f"{name}: validity impl vs model differ")
    if len(g["data"]) != len(mf["data"]):
        dis.append(f"{name}: cell count impl {len(g['data'])} vs model {len(mf['data'])}")
        return
    for k, (ra, rb) in enumerate(zip(g["data"], mf["data"])):
        n1 = len(dis)
        cmp_vals(f"{name} flat cell {k}", ra, rb, dis, mode, scale, rel)
        if len(dis) > n1:
            return


def req_label(r):
    if r["op"] == "integrate":
        return f"integrate({r.get('dir')!r}, cumulative={r['cumulative']})"
    if r["op"] == "integrate_abs":
        return f"abs(field).integrate({r.get('dir')!r}, cumulative={r['cumulative']})"
    if r["op"] == "mean":
        return f"mean({r.get('dir')!r})"
    if r["op"] == "integrate_seq":
        return f"integrate chain {r['dirs']}"
    if r["op"] == "integrate_chain":
        return "integrate chain " + ".".join(f"({d!r}, cumulative={c})" for d, c in zip(r["dirs"], r["cums"]))
    if r["op"] == "mean_seq":
        return f"mean chain {r['dirs']}"
    if r["op"] == "dV":
        return "mesh.dV, mesh.cell"
    return f"mesh.sel({r['dim']!r})"


def compare(case, obs, rs):
    dis = []
    if case["kind"] == "history":
        flat = [(k, fi, st) for k, stage in enumerate(obs["stages"]) for fi, st in enumerate(stage)]
        if len(flat) + 1 != len(rs):
            raise core.MachineryError("history batch count mismatch")
        compare_hist(case, obs, rs[-1], dis)
        rs = rs[:-1]
        for (k, fi, st), resp in zip(flat, rs):
            if "ok" not in resp:
                dis.append(f"model batch failed after {k} step(s): {resp}")
                continue
            tot = sum(abs(F(x)) for row in st["field"]["data"] for x in row)
            for r, got, out in zip(st["reqs"], st["res"], resp["ok"]):
                if st["exact"]:
                    mode, sc = ("round" if r["op"] == "mean" else "exact"), Fraction(0)
                else:
                    mode = "tol"
                    sc = tot if r["op"] == "mean" else tot * measure_of(st["field"]["mesh"], r)
                cmp_res(f"after {k} in-place step(s) {case['steps'][:k]}, field {fi}: {req_label(r)}", got, out, dis, mode, sc)
        return dis
    if case["kind"] in ("dtype", "long"):
        return compare_dtype(case, obs, rs)
    if "ok" not in rs[0]:
        return [f"model batch failed: {rs[0]}"]
    outs = rs[0]["ok"]
    if len(outs) != len(obs["reqs"]):
        raise core.MachineryError("batch length mismatch")
    exact = case["kind"] != "float"
    scale = Fraction(0)
    if not exact:
        tot = sum(abs(F(x)) for row in obs["field"]["data"] for x in row)
        reg = obs["field"]["mesh"]["region"]
        ext = Fraction(1)
        for a, b in zip(reg["pmin"], reg["pmax"]):
            ext *= max(F(b) - F(a), Fraction(1))
        scale = tot * ext
    tot_all = sum(abs(F(x)) for row in obs["field"]["data"] for x in row)
    for r, got, resp in zip(obs["reqs"], obs["res"], outs):
        mode = "tol" if not exact else ("round" if r["op"] == "mean" else "exact")
        sc = scale
        if r["op"] == "mean_seq":
            mode, sc = "tol", tot_all  # one rounding per step of the chain
        elif not exact:
            # scale: sum of |values| x measure of the integrated directions (1 for means)
            sc = tot if r["op"] == "mean" else tot * measure_of(obs["field"]["mesh"], r)
        cmp_res(req_label(r), got, resp, dis, mode, sc)
    return dis


def compare_dtype(case, obs, rs):
    """fields holding other data than binary64: the values the field actually holds were sent to the model exactly;
    integrals equal the model (exact regime) or lie within the any-order-summation bound of the data's precision;
    means: correctly rounded binary64 quotient where numpy divides in binary64 (integer, boolean, binary64 and
    complex128 data), else within one rounding of the data's precision.  Complex data: the model is asked for the real
    and for the imaginary part (all forms are linear and act per component), both must agree"""
    dis = []
    prec = obs["prec"]
    exact, rel = prec["exact"], float(F(prec["rel"]))
    mean_rel = None if prec["mean_rel"] is None else float(F(prec["mean_rel"]))
    sides = [("", obs["field"], obs["res"])]
    if "field_im" in obs:
        sides = [("real part of ", obs["field"], obs["res"]), ("imaginary part of ", obs["field_im"], obs["res_im"])]
    if len(rs) != len(sides):
        raise core.MachineryError("dtype batch count mismatch")
    tot = sum(abs(F(x)) for _, fj, _ in sides for row in fj["data"] for x in row)
    for (label, fj, res), resp in zip(sides, rs):
        if "ok" not in resp:
            dis.append(f"model batch failed: {resp}")
            continue
        if len(resp["ok"]) != len(obs["reqs"]):
            raise core.MachineryError("batch length mismatch")
        for r, got, out in zip(obs["reqs"], res, resp["ok"]):
            is_mean = r["op"] in ("mean", "mean_seq")
            if r["op"] == "dV" and label.startswith("imaginary"):
                continue  # geometry, not a value of the field
            if r["op"] == "mean_seq":
                # one rounding per step of the chain, the first one in the precision of the data
                mode, sc, rl = "tol", tot, (max(rel, 2.0 ** -40) if (not exact or mean_rel is None) else max(4 * mean_rel, 2.0 ** -40))
            elif exact and is_mean:
                mode, sc, rl = ("round", Fraction(0), rel) if mean_rel is None else ("tol", Fraction(0), mean_rel)
            elif exact:
                mode, sc, rl = "exact", Fraction(0), rel
            else:
                mode, rl = "tol", rel
                sc = tot if is_mean else tot * measure_of(obs["field"]["mesh"], r)
            cmp_res(label + req_label(r), got, out, dis, mode, sc, rl)
    return dis


def float_step_bound(err, before, after, st):
    """a-priori bound on the distance between the corners the code holds (binary64; Region.rotate90 multiplies by
    np.cos / np.sin of k*pi/2, whose error grows with |k|) and the corners of the exact model, after one more step:
    a quarter turn adds (|k| + 4) 2^-52 x twice the largest in-plane distance of a corner from the reference point, every step
    scales the error it inherits by the largest |factor| and adds a rounding of the new corners"""
    u = Fraction(1, 2 ** 52)
    rb, ra = before["region"], after["region"]
    mag = max([abs(F(x)) for key in ("pmin", "pmax") for x in ra[key]] + [abs(F(x)) for key in ("pmin", "pmax") for x in rb[key]])
    if st["op"] == "rotate90":
        dims = rb["dims"]
        if st["ax1"] not in dims or st["ax2"] not in dims:
            return err
        lo, hi = [F(x) for x in rb["pmin"]], [F(x) for x in rb["pmax"]]
        ref = [F(x) for x in st["ref"]] if st.get("ref") else [(a + b) / 2 for a, b in zip(lo, hi)]
        if len(ref) != len(lo):
            return err
        D = max(abs(c - ref[a]) for a in (dims.index(st["ax1"]), dims.index(st["ax2"])) for c in (lo[a], hi[a]))
        mag = max([mag] + [abs(x) for x in ref])
        return 2 * err + u * ((abs(st["k"]) + 4) * 2 * D + 4 * mag)
    if st["op"] == "scale":
        fac = st["factor"] if isinstance(st["factor"], list) else [st["factor"]]
        fmax = max(abs(F(x)) for x in fac)
        if st.get("ref"):
            mag = max([mag] + [abs(F(x)) for x in st["ref"]])
        return err * (fmax + 1) + u * 4 * mag * (fmax + 1) if err else err
    return err + (u * 4 * mag if err else 0)


def compare_hist(case, obs, resp, dis):
    """the model replays ALL in-place steps itself (fstep of DFV/Model/C06Hist.lean: mesh / region steps and quarter turns
    of the field): after every step its mesh and its answers must be those of the real objects (equal before the first
    accepted quarter turn, to 2^-40 after it), the accumulated volume factor must be dV_now / dV_initial, and integrate()
    of the final state must be what theorem turns_history says (volume factor x initial cell volume x the per-component
    cell sums turned by the accepted quarter turns)"""
    p = exact_prefix(case)
    if "ok" not in resp:
        dis.append(f"model history replay failed: {resp}")
        return
    states = resp["ok"]
    if len(states) != p + 1:
        raise core.MachineryError("history replay length mismatch")
    tot = sum(abs(F(x)) for row in obs["stages"][0][0]["field"]["data"] for x in row)
    abs_err = Fraction(0)   # a-priori bound on |corner(code) - corner(model)| accumulated along the history
    bounds = []
    for k, state in enumerate(states):
        st = obs["stages"][k][0]
        exact = st["exact"]
        if k > 0:
            abs_err = float_step_bound(abs_err, states[k - 1]["mesh"], state["mesh"], case["steps"][k - 1])
        reg = state["mesh"]["region"]
        min_edge = min(F(b) - F(a) for a, b in zip(reg["pmin"], reg["pmax"]))
        val_rel = Fraction(2.0 ** -40) + 8 * len(reg["pmin"]) * abs_err / min_edge
        bounds.append((abs_err, val_rel))
        name = f"model-replayed history, after {k} in-place step(s) {case['steps'][:k]}"
        n0 = len(dis)
        cmp_mesh(name + ": mesh", st["field"]["mesh"], state["mesh"], dis, True, corner_rel=None if exact else abs_err)
        if len(dis) > n0:
            return
        for r, got, out in zip(st["reqs"], st["res"], state["outs"]):
            if exact:
                cmp_res(f"{name}: {req_label(r)}", got, out, dis, "round" if r["op"] == "mean" else "exact", Fraction(0))
            else:
                sc = tot if r["op"] == "mean" else tot * measure_of(state["mesh"], r)
                cmp_res(f"{name}: {req_label(r)}", got, out, dis, "tol", sc, rel=val_rel, corner_rel=abs_err)
            if len(dis) > n0:
                return
    # volume factor and total integral of the whole history
    def req_vals(k, op):
        st = obs["stages"][k][0]
        for r, got in zip(st["reqs"], st["res"]):
            if r["op"] == op and r.get("dir") is None and "vals" in got:
                return [F(x) for x in got["vals"]]
        return None
    exact = obs["stages"][p][0]["exact"]
    a, b = req_vals(0, "dV"), req_vals(p, "dV")
    if a is not None and b is not None:
        want = F(resp["vol"]) * a[0]
        if (want != b[0]) if exact else (abs(want - b[0]) > bounds[p][1] * abs(b[0])):
            dis.append(f"model volume factor of the history {case['steps'][:p]} is {resp['vol']}, impl dV went from {a[0]} to {b[0]}")
    it = req_vals(p, "integrate")
    if it is not None:
        want = [F(x) for x in resp["itot"]]
        sc = tot * (b[0] if b is not None else Fraction(1))
        if len(want) != len(it) or any((x != y) if exact else (abs(x - y) > bounds[p][1] * max(sc, abs(y)))
                                       for x, y in zip(it, want)):
            dis.append(f"integrate() after the history {case['steps'][:p]}: impl {it}, theorem turns_history (volume factor x "
                       f"turned cell sums) gives {resp['itot']}")


def measure_of(mj, r):
    reg = mj["region"]
    cell = {d: (F(b) - F(a)) / k for d, a, b, k in zip(reg["dims"], reg["pmin"], reg["pmax"], mj["n"])}
    if r["op"] in ("integrate", "integrate_abs") and r.get("dir") is None:
        ds = list(reg["dims"])
    elif r["op"] in ("integrate", "integrate_abs"):
        ds = [r["dir"]] if isinstance(r["dir"], str) else []
    elif r["op"] in ("integrate_seq", "integrate_chain"):
        ds = r["dirs"]
    else:
        ds = []
    m = Fraction(1)
    for d in ds:
        m *= cell.get(d, Fraction(1))
    return m


def nontrivial(case, obs):
    return bool(obs.get("nontrivial"))


def known(case, text):
    return None


def search(case, rng):
    for _ in range(200):
        yield dict(kind="field", mesh=gen_mesh(rng, "quick", rng.choice([1, 2, 3])), nvdim=rng.choice([1, 2, 3]),
                   sub=rng.getrandbits(32))
