"""Aged objects: a generic history generator for every property check.

A property quantifies over objects with any history: a mesh that was translated or rescaled in
place, a field that was exported, normed or averaged before, whose array or validity was
re-assigned.  The per-property generators mostly hand *fresh* objects to the code under test,
so state left behind by an earlier call (a cache filled on first use and never invalidated, a
value remembered from before an in-place change) is invisible to them.

Inside `aging()` every `df.Mesh` / `df.Field` that the *harness* constructs (constructions made
by the library itself are left alone) is aged right after its constructor returns:

  mesh:   move to another geometry in place (translate by its own edge lengths; scale by 2 about
          the origin) -> read every public derived quantity there (cell, dV, cells, vertices,
          len, edges, centre, volume, ...) -> move back in place;
  field:  the same on field.mesh with the field-level readers in the middle (to_xarray, norm,
          valid, mean, integrate, ...), then re-assign array and validity to other values ->
          readers again -> assign the original values back.

Both detours are only taken when every step is exact in binary64 (checked with exact rational
arithmetic beforehand; integer-typed corners are only translated), and the public geometry and
data are verified to be bit-identical to the fresh object afterwards (otherwise the object is
rebuilt by its constructor and counted as reverted).  An aged object is therefore, by C13
("in-place == copy", "each step realises its documented affine map exactly"), observationally
equal to a fresh one, and the property check that runs on it must give the same verdict: no new
demands are made on the code, only more histories are explored.
"""
import contextlib
import itertools
import sys
import warnings
from fractions import Fraction

import numpy as np

STATS = {"aged_meshes": 0, "aged_fields": 0, "skipped_inexact": 0, "reverted": 0}
FAILURES = []     # what an in-place detour did wrong (the object did not come back); read by core.run_property per case


def take_failures():
    out = list(FAILURES)
    del FAILURES[:]
    return out
_state = {"on": False, "busy": False, "installed": False, "orig_mesh": None, "orig_field": None}


def _fr(x):
    return Fraction(int(x)) if isinstance(x, (int, np.integer)) else Fraction(float(x))


def _regions(mesh):
    return [mesh.region] + list(mesh.subregions.values())


def _finite(a):
    return bool(np.all(np.isfinite(np.asarray(a, dtype=float))))


def _can_translate(mesh, v):
    for r in _regions(mesh):
        if not (_finite(r.pmin) and _finite(r.pmax)):
            return False
        if r.pmin.dtype.kind != mesh.region.pmin.dtype.kind:
            return False
        for lo, hi, d in zip(r.pmin, r.pmax, v):
            for x in (lo, hi):
                y = x + d
                if not np.isfinite(float(y)) or _fr(y) != _fr(x) + _fr(d):
                    return False
                if _fr(y - d) != _fr(x):
                    return False
    return True


def _can_scale(mesh):
    for r in _regions(mesh):
        if r.pmin.dtype.kind != "f" or r.pmax.dtype.kind != "f":
            return False
        for lo, hi in zip(r.pmin, r.pmax):
            if not (np.isfinite(lo) and np.isfinite(hi) and np.isfinite(2 * lo) and np.isfinite(2 * hi)):
                return False
            if _fr(hi - lo) != _fr(hi) - _fr(lo):
                return False
            if abs(float(hi - lo)) < 1e-290 or (lo != 0 and abs(float(lo)) < 1e-290) or (hi != 0 and abs(float(hi)) < 1e-290):
                return False
    return True


def _snap_mesh(mesh):
    return [(r.pmin.copy(), r.pmax.copy()) for r in _regions(mesh)], mesh.n.copy()


def _same(a, b):
    return a.dtype == b.dtype and a.shape == b.shape and a.tobytes() == b.tobytes()


def _mesh_unchanged(mesh, snap):
    corners, n = snap
    regs = _regions(mesh)
    if len(regs) != len(corners) or not _same(mesh.n, n):
        return False
    return all(_same(r.pmin, lo) and _same(r.pmax, hi) for r, (lo, hi) in zip(regs, corners))


def _mesh_values_unchanged(mesh, snap):
    corners, n = snap
    regs = _regions(mesh)
    return (len(regs) == len(corners) and np.array_equal(mesh.n, n)
            and all(r.pmin.dtype == lo.dtype and np.array_equal(r.pmin, lo) and np.array_equal(r.pmax, hi) for r, (lo, hi) in zip(regs, corners)))


def _restore_mesh(mesh, snap):
    """put the saved corners back by running the Region constructor again on each Region object (public API only)"""
    corners, _ = snap
    for r, (lo, hi) in zip(_regions(mesh), corners):
        r.__init__(p1=lo.copy(), p2=hi.copy(), dims=r.dims, units=r.units, tolerance_factor=r.tolerance_factor)


def _quiet(fn):
    try:
        return fn()
    except Exception:
        return None


def warm_mesh(m):
    for fn in (lambda: m.cell, lambda: m.dV, lambda: m.cells, lambda: m.vertices, lambda: len(m), lambda: m.n,
               lambda: m.region.edges, lambda: m.region.center, lambda: m.region.centre, lambda: m.region.volume,
               lambda: m.region.pmin, lambda: m.region.pmax, lambda: m.region.ndim, lambda: m.subregions,
               lambda: list(itertools.islice(m.indices, 2)), lambda: list(itertools.islice(iter(m), 2)),
               lambda: repr(m), lambda: m.region.units, lambda: m.region.dims, lambda: m.bc,
               lambda: m.index2point((0,) * m.region.ndim), lambda: m.point2index(m.region.center),
               lambda: m.region.multiplier, lambda: hash(m.region) if m.region.__hash__ else None,
               lambda: [m[name] for name in list(m.subregions)], lambda: m[m.region]):
        _quiet(fn)


def warm_field(f):
    warm_mesh(f.mesh)
    for fn in (lambda: f.to_xarray(), lambda: f.norm, lambda: f.valid, lambda: f.mean(), lambda: f.array, lambda: f.vdims,
               lambda: f.unit, lambda: f.vdim_mapping, lambda: f.integrate(), lambda: f.nvdim, lambda: f.dtype,
               lambda: f(f.mesh.region.center), lambda: f.real, lambda: abs(f), lambda: repr(f),
               lambda: next(iter(f)), lambda: f.mesh.dV):
        _quiet(fn)
    # what plotting derives from the field (the default filter is the validity as a field)
    _quiet(lambda: getattr(f, "_valid_as_field", None))
    # component fields and everything assembled from them (anything the field might keep for later is now filled in
    # from the state the field is in at this moment)
    if f.vdims is not None:
        for v in list(f.vdims):
            _quiet(lambda v=v: getattr(f, v).array)
    if len(f.mesh) <= 4000:
        for name in ("div", "curl", "laplace", "grad", "orientation", "conjugate"):
            _quiet(lambda name=name: getattr(f, name))
        for d in f.mesh.region.dims:
            _quiet(lambda d=d: f.diff(d))


def _close(a, b, scale):
    return a.shape == b.shape and bool(np.all(np.abs(np.asarray(a, dtype=float) - np.asarray(b, dtype=float)) <= 1e-9 * scale))


def _settle(mesh, snap):
    """after a detour whose way back is not exact in binary64 (quarter turns use float cos/sin): when the mesh is back
    within rounding of where it started, put the exact original corners back; anything else is an error"""
    if _mesh_unchanged(mesh, snap):
        return
    corners, n = snap
    regs = _regions(mesh)
    scale = max(float(np.max(np.abs(np.asarray(c, dtype=float)))) for pair in corners for c in pair) + 1e-300
    ok = len(regs) == len(corners) and _same(mesh.n, n) and all(
        _close(r.pmin, lo, scale) and _close(r.pmax, hi, scale) for r, (lo, hi) in zip(regs, corners))
    _restore_mesh(mesh, snap)
    if not ok:
        raise RuntimeError("aging: the mesh did not come back to where it started")


def _steps(mesh, counter):
    """in-place detours (go, back) that are applicable to this mesh, in an order and through an entry point
    (Mesh method or the mesh's Region object itself) that vary with `counter`; region-level calls are only used on
    meshes without subregions (moving `mesh.region` directly does not move subregions)"""
    ndim = mesh.region.ndim
    steps = []
    nosubs = not mesh.subregions

    def target(bit):
        # resolved at call time: the mesh's Region object may have been replaced meanwhile (the constructor, which
        # `_reinit` runs again on the object, gives the mesh a region object of its own)
        return (lambda: mesh.region) if (nosubs and (counter >> bit) & 1) else (lambda: mesh)

    v = mesh.region.edges.copy()
    if _can_translate(mesh, v):
        t = target(0)
        steps.append(("translate", lambda: t().translate(v, inplace=True), lambda: t().translate(-v, inplace=True)))
    if _can_scale(mesh):
        zero = tuple(0.0 for _ in range(ndim))
        u = target(1)
        steps.append(("scale", lambda: u().scale(2.0, reference_point=zero, inplace=True),
                      lambda: u().scale(0.5, reference_point=zero, inplace=True)))
    if (counter >> 2) & 1:
        steps.reverse()
    return steps


def _rot_step(mesh, counter):
    ndim = mesh.region.ndim
    if ndim < 2 or not all(_finite(r.pmin) and _finite(r.pmax) for r in _regions(mesh)):
        return None
    if any(r.pmin.dtype.kind != "f" for r in _regions(mesh)):
        return None            # a quarter turn turns integer-typed corners into floats
    dims = list(mesh.region.dims)
    a = counter % ndim
    b = (a + 1 + (counter // ndim) % (ndim - 1)) % ndim
    ref = tuple(float(x) for x in mesh.region.center)
    k = 1 if (counter // 7) % 2 == 0 else -1
    return ("rotate90", lambda: mesh.rotate90(dims[a], dims[b], k=k, reference_point=ref, inplace=True),
            lambda: mesh.rotate90(dims[a], dims[b], k=-k, reference_point=ref, inplace=True))


def _mirror(mesh, snap, counter):
    """scale by -1 along one axis about the mesh's own centre, in place, twice: a mirror image of the mesh and back.
    After each step every region still has pmin < pmax; after the second everything is back within rounding."""
    ndim = mesh.region.ndim
    if not _can_scale(mesh):
        return
    a = (counter // 3) % ndim
    f = tuple(-1.0 if i == a else 1.0 for i in range(ndim))
    t = mesh.region if (not mesh.subregions and (counter >> 5) & 1) else mesh
    scale = max(float(np.max(np.abs(np.asarray(c, dtype=float)))) for pair in snap[0] for c in pair) + 1e-300
    for step in (1, 2):
        t.scale(f, inplace=True)
        regs = _regions(mesh)
        bad = [r for r in regs if not (np.all(r.pmin < r.pmax))]
        if bad:
            FAILURES.append(f"after an in-place scale by {f} about the centre a region has pmin {bad[0].pmin.tolist()} not below pmax "
                            f"{bad[0].pmax.tolist()} (was {snap[0][0][0].tolist()} .. {snap[0][0][1].tolist()})")
            break
        if not (_close(mesh.region.pmin, snap[0][0][0], scale) and _close(mesh.region.pmax, snap[0][0][1], scale)):
            FAILURES.append(f"an in-place scale by {f} about the region's own centre moved the region: "
                            f"{snap[0][0][0].tolist()} .. {snap[0][0][1].tolist()} -> {mesh.region.pmin.tolist()} .. {mesh.region.pmax.tolist()}")
            break
    _restore_mesh(mesh, snap)
    if not _same(mesh.n, snap[1]):
        FAILURES.append(f"an in-place mirror scale changed n: {snap[1].tolist()} -> {mesh.n.tolist()}")


def _detour(mesh, warm, steps):
    """go somewhere else in place, let `warm()` run there, come back in place; returns the number of detours made"""
    made = 0
    for _, go, back in steps:
        go()
        try:
            warm()
        finally:
            back()
        made += 1
    return made


def _reinit(mesh):
    """run the constructor again on the object as it is now (away from home): everything the constructor computes
    eagerly is then computed for the *other* geometry, and only the in-place call that brings the mesh back can
    bring it up to date"""
    orig = _state["orig_mesh"]
    try:
        orig(mesh, region=mesh.region, n=mesh.n, bc=mesh.bc, subregions=dict(mesh.subregions))
    except Exception:
        pass


def age_mesh(mesh):
    _state["count"] = _state.get("count", 0) + 1
    counter = _state["count"]
    snap = _snap_mesh(mesh)
    bc0 = mesh.bc
    made = _detour(mesh, lambda: (_reinit(mesh), warm_mesh(mesh)), _steps(mesh, counter))
    if not _mesh_unchanged(mesh, snap) and _mesh_values_unchanged(mesh, snap):
        _restore_mesh(mesh, snap)          # only the sign of a zero differs (-0.0 + v - v = +0.0): put the original back
    if not _mesh_unchanged(mesh, snap):
        now = [(r.pmin.tolist(), r.pmax.tolist()) for r in _regions(mesh)]
        FAILURES.append(f"an in-place translate by the edge lengths and back / scale by 2 about the origin and back (all exact in binary64 "
                        f"for this mesh) does not give the mesh back: corners {[(a.tolist(), b.tolist()) for a, b in snap[0]]} -> {now}, "
                        f"n {snap[1].tolist()} -> {mesh.n.tolist()}")
        _restore_mesh(mesh, snap)
        raise RuntimeError("aging changed the mesh")
    _mirror(mesh, snap, counter)
    rot = _rot_step(mesh, counter)
    if rot is not None:
        _detour(mesh, lambda: (_reinit(mesh), warm_mesh(mesh)), [rot])
        _settle(mesh, snap)
        made += 1
    if mesh.bc != bc0:
        raise RuntimeError("aging changed bc")
    if made:
        STATS["aged_meshes"] += 1
    else:
        STATS["skipped_inexact"] += 1


def age_field(f):
    snap = _snap_mesh(f.mesh)
    arr, val = f.array.copy(), f.valid.copy()
    _state["count"] = _state.get("count", 0) + 1
    made = _detour(f.mesh, lambda: warm_field(f), _steps(f.mesh, _state["count"]))
    if not _mesh_unchanged(f.mesh, snap):
        _restore_mesh(f.mesh, snap)
        raise RuntimeError("aging changed the field's mesh")
    # re-assign data and validity, read everything, put the originals back: through the setters, or (every other
    # object) by writing into the arrays the field hands out (`f.valid[...] = v` is the library's own idiom)
    inplace_back = (_state["count"] >> 3) & 1
    try:
        f.array = np.ones_like(arr) if arr.dtype.kind != "b" else ~arr
        f.valid = np.ones_like(val) if (_state["count"] >> 4) & 1 else ~val
        warm_field(f)
    finally:
        if inplace_back and f.array.shape == arr.shape and f.valid.shape == val.shape:
            f.array[...] = arr
            f.valid[...] = val
        else:
            f.array = arr
            f.valid = val
    if not (_same(f.array, arr) and _same(f.valid, val)):
        raise RuntimeError("aging changed the field's data")
    # the same component-to-axis mapping, re-assigned with its keys in another order (a dict's insertion order is
    # not part of the mapping; code that pairs components with axes by position in the dict is wrong)
    vm = dict(f.vdim_mapping)
    tg = [v for v in vm.values() if v is not None]
    # (two labels mapped onto ONE axis: the reversed mapping keeps the last key, so there the order is part of the state)
    if len(vm) > 1 and (_state["count"] >> 1) & 1 and len(set(tg)) == len(tg):
        items = list(vm.items())
        items = items[1:] + items[:1] if _state["count"] & 4 else items[::-1]
        f.vdim_mapping = dict(items)
        if dict(f.vdim_mapping) != vm:
            f.vdim_mapping = vm
            raise RuntimeError("aging changed the mapping")
    STATS["aged_fields"] += 1
    if not made:
        STATS["skipped_inexact"] += 1


def _from_harness(depth=2):
    name = sys._getframe(depth).f_globals.get("__name__", "")
    return not name.startswith("discretisedfield")


def install():
    if _state["installed"]:
        return
    import discretisedfield as df

    orig_mesh, orig_field = df.Mesh.__init__, df.Field.__init__
    _state.update(orig_mesh=orig_mesh, orig_field=orig_field, installed=True)

    def mesh_init(self, *a, **k):
        if _state["on"] and not _state["busy"] and _from_harness():
            # caller-owned arguments: plain number sequences are handed over as arrays of exactly the element type the
            # constructor converts to, and the caller's arrays are overwritten right after the call - the mesh must
            # not keep a view of what it was given
            k2, own = dict(k), []
            for name in ("n", "cell", "p1", "p2"):
                v = k.get(name)
                if isinstance(v, (list, tuple)) and v and all(type(x) in (int, float) for x in v):
                    if name == "n" and not all(type(x) is int for x in v):
                        continue
                    arr = np.array(v, dtype=np.int64 if all(type(x) is int for x in v) and name != "cell" else np.float64)
                    if name == "cell" and not all(type(x) is float for x in v):
                        continue                      # an integer cell stays the caller's tuple
                    k2[name] = arr
                    own.append(arr)
            try:
                orig_mesh(self, *a, **k2)
            except Exception:
                orig_mesh(self, *a, **k)      # raises what the plain call raises
                own = []
            for arr in own:
                arr[...] = arr * 3 + 7
            STATS["caller_args_overwritten"] = STATS.get("caller_args_overwritten", 0) + len(own)
        else:
            orig_mesh(self, *a, **k)
        if _state["on"] and not _state["busy"] and _from_harness():
            _state["busy"] = True
            try:
                with warnings.catch_warnings(), np.errstate(all="ignore"):
                    warnings.simplefilter("ignore")
                    age_mesh(self)
            except Exception:
                STATS["reverted"] += 1
                orig_mesh(self, *a, **k)
            finally:
                _state["busy"] = False

    def field_init(self, *a, **k):
        if _state["on"] and not _state["busy"] and _from_harness():
            # caller-owned arrays (value / valid): the field gets a private copy of the caller's array, which is
            # overwritten right after the call - the field must not keep a view of it
            k2, own = dict(k), []
            for name in ("value", "valid"):
                v = k.get(name)
                if isinstance(v, np.ndarray) and v.size and v.dtype.kind in "bifc":
                    k2[name] = np.array(v)
                    own.append(k2[name])
            try:
                orig_field(self, *a, **k2)
            except Exception:
                orig_field(self, *a, **k)
                own = []
            for arr in own:
                arr[...] = ~arr if arr.dtype.kind == "b" else arr * 3 + 7
            STATS["caller_args_overwritten"] = STATS.get("caller_args_overwritten", 0) + len(own)
        else:
            orig_field(self, *a, **k)
        if _state["on"] and not _state["busy"] and _from_harness():
            _state["busy"] = True
            try:
                with warnings.catch_warnings(), np.errstate(all="ignore"):
                    warnings.simplefilter("ignore")
                    age_field(self)
            except Exception:
                STATS["reverted"] += 1
                orig_field(self, *a, **k)
            finally:
                _state["busy"] = False

    mesh_init.__wrapped__ = orig_mesh
    field_init.__wrapped__ = orig_field
    df.Mesh.__init__ = mesh_init
    df.Field.__init__ = field_init


def reset(k):
    """start the per-object variation counter at a value derived from the case, so that an aged case replays alone"""
    _state["count"] = int(k) % 4096


@contextlib.contextmanager
def aging(on=True):
    """`with aging(): run_impl(case)` - harness-constructed meshes and fields are aged"""
    if on:
        install()
    prev = _state["on"]
    _state["on"] = bool(on)
    try:
        yield
    finally:
        _state["on"] = prev
