"""C07 — sub-selection, padding and resampling keep every value at its physical position."""
import itertools
import math
import os
import random
from fractions import Fraction

import numpy as np

from . import core, fieldio
from .core import Q, Qs, F

import discretisedfield as df

PID = "C07"
RULE = ("fields with DISTINCT integer tokens per cell/component and random masks on 1-4-d meshes with 0-3 aligned (possibly "
        "overlapping) subregions, custom dims/units, float and integer-typed corners; per field every axis x {centre, interior "
        "points, every kind of face: cell faces, region boundary, subregion faces, outside, malformed} for plane selection, "
        "ordered/unordered/degenerate/face-to-face/partly-outside ranges, extraction by every subregion name and by vertex-aligned, "
        "arbitrary, boundary-touching, whole-region, partly/fully outside boxes, region2slices of the same boxes, pad widths 0-3 "
        "per side (and > n) in all five numpy modes, resampling to equal/coarser/finer/coprime/1 cell counts. Regime 'exact' "
        "(dyadic geometry: all float ops exact -> implementation must EQUAL the rational model: geometry, subregions, every value, "
        "every validity bit, metadata) and regime 'tol' (cells 0.1/0.15/0.3/1/3/0.7 x scale 1e-9..1e3, offsets, faces taken from "
        "mesh.vertices or k*cell literals: 2^-40 relative bound, boundary comparator: a decision coordinate within 1e-9 cell of a "
        "face may fall to either neighbour). Oracle on the real code alone: for every result cell the value/validity equal the "
        "source's at the result cell's centre (pad cells outside follow the physical rule of the mode), alignment, which axis "
        "went, containing cells of the bounds, minimal covering block, counts, region kept, in-region requests accepted and "
        "outside requests rejected. non-trivial = op accepted, result has >= 2 cells or is a removed-axis selection of a >= 2-cell field. "
        "Family 'meta': fields in every label/mapping/element-type state reachable through the public constructor and setters (default "
        "labels, no labels on a vector field, labelled scalar with mapping, labels removed afterwards with the mapping left behind "
        "(scalar: mapping silently dropped by the result; vector: every operation refuses), permuted mapping, > 3 components) x dtype "
        "float64/int64/complex128/float32, one in-region request per operation: nvdim, unit, vdims, vdim_mapping, subregions and bc of "
        "the result mesh, ok/err and the kind of the result's array must EQUAL the model; oracle: mask boolean and arrays shaped like the mesh. "
        "Streams 'near' / 'near-big' (both regimes; tags near:*, neardist:*, hair:*, tolerance_factor:*, cellscale:*, "
        "cells-along-longest-axis:*, offset-in-cells:*): selection coordinates, range bounds and BOTH corners of extraction boxes at "
        "every relative distance from a face - exact regime: 2^-k cell, k = 1..50 (0.5 .. 1e-15 cell), above and below every kind of "
        "face (interior cell face, lower/upper region boundary, subregion face), chosen so that every intermediate float quantity is "
        "exact -> implementation must EQUAL the model, no band; tol regime: 1/2.5/5 x 1e-1..1e-15 cell above/below faces as "
        "np.linspace or k*cell give them, the neighbouring floats of both region boundaries, 1e-13 edge and 1e-6 cell beyond them "
        "(judged strictly outside the 1e-9-cell band, which widens with |coordinate|/cell); outside-by-a-hair requests must be "
        "REJECTED by sel (strict float comparison with the boundary, as the property says), for extraction boxes the answer is "
        "demanded only outside 4 x the region's own allowance tolerance_factor*(shortest edge+|coordinate|) (inside it: model "
        "comparison only). Meshes: dyadic cells 1,3,5 / 1,2,4 x 2^-40..2^30 resp. arbitrary cells x 1e-12..1e9, offsets 0 / "
        "centred / tens / 1e3..4e6 cells from the origin, 1000-4096 cells along one axis (1-2-d; results of more than 700 cells are "
        "value-checked on corner cells, outer layers and 300 random cells), Region tolerance_factor default, 0, 2^-5, 2^-10, 2^-20, "
        "1e-2, 1e-3, 1e-6, 1e-9 (the model carries the factor), integer-typed corners, coordinates handed over as Python int / float, "
        "numpy float64/float32/float16/int64/int32, ranges as tuple/list/ndarray; pad by tens to a thousand layers in every mode; "
        "resampling to 48-128 cells along an axis (model: coordinate lookup) and to / from 1000-4096 cells (model: the closed "
        "form resampleFast, proved equal to the lookup). Stream 'nonfinite' (tags nonfinite:*): selection points / range bounds / box "
        "corners / lookup points at +inf, -inf, nan (float or numpy.float64) in 14 calls per request - all must be refused (oracle) and "
        "the extended model (ExtRat, IEEE comparisons) must agree call by call, plus four finite control requests through the same "
        "extended driver ops. Malformed requests of every kind the signatures allow (26 kinds of sel value / call shape incl. "
        "nan, +-inf, wrong lengths, strings, nested, complex, two axes at once; non-region items and regions of another dimension; "
        "non-integer / wrong-length / non-pair pad widths, unknown mode; non-integer, nested, short, missing resample counts): all refused. "
        "Operand histories (tag history:*; besides the generic aged re-runs): three of four resample cases and a quarter of the other "
        "cases run on a field whose mesh was translated by its own edge lengths / scaled by 2 about the origin IN PLACE (through the "
        "Mesh method or, without subregions, through mesh.region itself), read there (cells, vertices, to_xarray, lookups) and "
        "brought back in place - only when every step is exact in binary64 and the geometry is verified bit-identical afterwards.")
TRUSTED = ["harness/c07.py, harness/fieldio.py + driver JSON glue",
           "np.pad modes and xarray/pandas nearest lookup are modelled by contract (validated against the real calls on every run)"]
ASSUMPTIONS = ["theorems are about exact rational arithmetic; in the tolerance regime a coordinate closer than 1e-9 cell "
               "(x max(1, (|coordinate|+|pmin|)/cell) for far offsets) to a cell face may be attributed to either neighbouring "
               "cell; in the exact regime (dyadic geometry, coordinates at 2^-k cell from faces) no band is granted",
               "an extraction box whose corner lies beyond the region boundary by less than 4 x tolerance_factor x (shortest "
               "edge + |coordinate|) may be accepted or refused (the region's own notion of 'inside'); plane / range selection "
               "is strict: any coordinate that compares outside [pmin, pmax] must be refused",
               "pad_width is a dict (distinct axes); np.pad kwargs other than mode are not used",
               "acceptance of Mesh.sel/Field.sel on meshes with subregions, and the subregion theorems, assume subregions made of "
               "whole cells with ordered corners (what the subregion setter enforces up to its tolerances)"]
UNPROVED = ["element type of the result: the rule resultKind (sel/getitem/pad promote to float64 unless complex, resample keeps the kind) "
            "is a three-line model definition checked by correspondence; the theorem result_kind only unfolds it",
            "the hasattr name-clash test of the vdims setter is not modelled (labels of an existing field have passed it)",
            "composition laws are now ALSO stated on inputs only (sel_range_range_total, sel_plane_comm_total, getitem_getitem_total, "
            "pad_crop_total, pad_crop_smaller, resample_via_refinement_total, resample_id_total: acceptance of every intermediate step is "
            "part of the conclusion) and the face exception of sel_range_range is characterised exactly (sel_range_range_face); what "
            "remains: sel_plane_comm_total needs >= 3 dimensions (on 2-d fields the second selection returns a bare value, "
            "sel_plane_1d_value), and the totals assume a field in constructor state (MetaInv) with subregions made of whole cells",
            "acceptance of an extraction box that sticks out of the region by less than the region's own tolerance is not proved "
            "(getitem_region_accepts needs exact containment, getitem_region_rejected more than the tolerance): no equivalence for "
            "field[region]; sel, pad, resample and field[name] have accepted <=> well-formed (sel_plane_ok_iff, sel_range_ok_iff, "
            "pad_ok_iff, resample_ok_iff, getitem_name_ok_iff)",
            "object identity is not modelled: the result's vdim_mapping is the source's dict object in the real code",
            "non-finite requests: the model carries +-inf / nan (ExtRat) with the IEEE meaning of <, <=, numpy.isclose, "
            "numpy.minimum/maximum and sorted() written down as definitions (contract, validated call by call by the stream "
            "'nonfinite' and the malformed sel kinds nan/inf/-inf/rg*); what the code would compute AFTER the containment test on a "
            "non-finite value (floor of nan) is not modelled - proved unreachable (containsAxE_true_fin)",
            "np.pad: the closed-form index maps (periodic / mirrored continuation) are the model; numpy's chunk-by-chunk algorithm "
            "for widths larger than the axis is not modelled step by step (validated by correspondence on up to a thousand "
            "layers); pad_reflect_pointwise excludes single-cell axes, where numpy repeats the cell (padSrc: by definition)",
            "resampling from or to thousands of cells goes through the model's closed form resampleFast (proved equal to the "
            "nearest-coordinate lookup cell by cell: resample_fast_refines), no longer oracle-only; non-region items, non-integer / "
            "wrong-shape pad widths and resample counts are type errors outside the rational model: judged by the oracle on the "
            "real code only (tag oracle-only-op)",
            "FIXED in /repo f823ca7a (finding D118), generated by default: on integer-typed corners a selection coordinate of "
            "type numpy.float32/float16 is truncated to an integer before the cell lookup"]
BUDGET = {"quick": 95, "thorough": 900}

NAMES = fieldio.NAMES
MODES = ["constant", "edge", "wrap", "symmetric", "reflect"]


def FR(x):
    if isinstance(x, Fraction):
        return x
    if isinstance(x, (int, np.integer)) and not isinstance(x, bool):
        return Fraction(int(x))
    return Fraction(float(x))


# ------------------------------------------------------------------------------ generators
def default_dims(ndim):
    return ["x", "y", "z"][:ndim] if ndim <= 3 else [f"x{i}" for i in range(ndim)]


def gen_exact_mesh(rng, max_cells=96, nmax=6):
    ndim = rng.choice([1, 2, 2, 3, 3, 3, 4])
    if rng.random() < 0.2:  # integer-typed corners, cells 1, 1/2, 1/4
        edge = [rng.randint(1, 3) for _ in range(ndim)]
        mult = [rng.choice([1, 2, 4]) for _ in range(ndim)]
        n = [e * m for e, m in zip(edge, mult)]
        while int(np.prod(n)) > max_cells:
            k = max(range(ndim), key=lambda i: n[i])
            if mult[k] > 1:
                mult[k] //= 2
            elif edge[k] > 1:
                edge[k] -= 1
            else:
                break
            n = [e * m for e, m in zip(edge, mult)]
        p1 = [rng.randint(-5, 5) for _ in range(ndim)]
        p2 = [a + e for a, e in zip(p1, edge)]
        spec = dict(p1=p1, p2=p2, n=n, dims=None, bc="")
    else:
        spec = fieldio.gen_mesh_spec(rng, ndim=ndim, max_cells=max_cells, nmax=nmax, bc_prob=0.3)
    if rng.random() < 0.4:
        spec["dims"] = rng.sample(NAMES, ndim)
        if spec.get("bc"):
            spec["bc"] = "".join(d for d in spec["dims"] if rng.random() < 0.5)
    if rng.random() < 0.3:
        spec["units"] = [rng.choice(["m", "nm", "s", "T"]) for _ in range(ndim)]
    # corner order
    for a in range(ndim):
        if rng.random() < 0.25:
            spec["p1"][a], spec["p2"][a] = spec["p2"][a], spec["p1"][a]
    return spec


def geom(spec):
    """exact geometry of a mesh spec: pmin, pmax, cell as Fractions"""
    lo = [min(FR(a), FR(b)) for a, b in zip(spec["p1"], spec["p2"])]
    hi = [max(FR(a), FR(b)) for a, b in zip(spec["p1"], spec["p2"])]
    c = [(h - l) / k for l, h, k in zip(lo, hi, spec["n"])]
    return lo, hi, c


def num(x, as_int=False):
    """json-able number: int when integral and wanted, else float (exact for dyadics)"""
    x = FR(x)
    if as_int and x.denominator == 1:
        return int(x)
    return float(x)


def gen_subs_exact(rng, spec):
    lo, hi, c = geom(spec)
    ndim = len(lo)
    subs = []
    for s in range(rng.choice([0, 0, 1, 2, 3])):
        a, b = [], []
        for ax in range(ndim):
            k1 = rng.randint(0, spec["n"][ax] - 1)
            k2 = rng.randint(k1 + 1, spec["n"][ax])
            a.append(num(lo[ax] + k1 * c[ax]))
            b.append(num(lo[ax] + k2 * c[ax]))
        subs.append([["r1", "r2", "sr", "left"][s], a, b])
    return subs


def exact_coords(rng, spec, subs, ax):
    """selection coordinates along axis ax (exact regime), tagged"""
    lo, hi, c = geom(spec)
    n = spec["n"][ax]
    l, h, cc = lo[ax], hi[ax], c[ax]
    out = [("boundary-lo", l), ("boundary-hi", h)]
    for _ in range(3):
        out.append(("interior", l + (rng.randrange(n) + Fraction(rng.randint(1, 7), 8)) * cc))
    for _ in range(2):
        out.append(("face", l + rng.randint(0, n) * cc))
    for s in subs:
        out.append(("subface", FR(s[1][ax])))
        out.append(("subface", FR(s[2][ax])))
    out.append(("centre-of-cell", l + (rng.randrange(n) + Fraction(1, 2)) * cc))
    out += [("outside", l - cc / 4), ("outside", h + cc / 4), ("outside", h + 3 * cc), ("outside", l - 5 * cc)]
    return out


def dims_of(spec):
    return spec.get("dims") or default_dims(len(spec["n"]))


def sel_ops_exact(rng, spec, subs, tier):
    ops = []
    dims = dims_of(spec)
    axes = list(range(len(dims)))
    if tier == "quick" and len(axes) > 2:
        axes = rng.sample(axes, 2)
    for ax in axes:
        d = dims[ax]
        cs = exact_coords(rng, spec, subs, ax)
        ops.append(dict(op="sel", dim=d, arg=None, tag="centre"))
        for tag, x in rng.sample(cs, min(len(cs), 6 if tier == "quick" else 12)):
            ops.append(dict(op="sel", dim=d, arg={"point": num(x)}, tag="pt-" + tag))
        pairs = [(rng.choice(cs), rng.choice(cs)) for _ in range(5 if tier == "quick" else 12)]
        ins = [t for t in cs if t[0] != "outside"]
        pairs += [(rng.choice(ins), rng.choice(ins)) for _ in range(4 if tier == "quick" else 10)]
        pairs.append((cs[0], cs[1]))
        x = rng.choice(ins)
        pairs.append((x, x))
        for (t1, x1), (t2, x2) in pairs:
            ops.append(dict(op="sel", dim=d, arg={"range": [num(x1), num(x2)]}, tag=f"rg-{t1}-{t2}"))
    ops.append(dict(op="sel", dim="q", arg=None, tag="bad-dim"))
    ops.append(dict(op="sel", dim=dims[0], arg="bad3", tag="bad-len"))
    ops.append(dict(op="sel", dim=dims[0], arg="badstr", tag="bad-type"))
    return ops


def boxes_exact(rng, spec, subs, tier):
    lo, hi, c = geom(spec)
    ndim = len(lo)
    n = spec["n"]
    out = []

    def aligned():
        a, b = [], []
        for ax in range(ndim):
            k1 = rng.randint(0, n[ax] - 1)
            k2 = rng.randint(k1 + 1, n[ax])
            a.append(lo[ax] + k1 * c[ax])
            b.append(lo[ax] + k2 * c[ax])
        return a, b

    def arbitrary():
        a, b = [], []
        for ax in range(ndim):
            u = sorted(rng.sample(range(0, 8 * n[ax] + 1), 2))
            a.append(lo[ax] + Fraction(u[0], 8) * c[ax])
            b.append(lo[ax] + Fraction(u[1], 8) * c[ax])
        return a, b

    for _ in range(2 if tier == "quick" else 5):
        out.append(("aligned",) + aligned())
    for _ in range(3 if tier == "quick" else 8):
        out.append(("arbitrary",) + arbitrary())
    a, b = arbitrary()
    ax = rng.randrange(ndim)
    b[ax] = hi[ax]
    out.append(("touch-hi", a, b))
    a, b = arbitrary()
    ax = rng.randrange(ndim)
    a[ax] = lo[ax]
    out.append(("touch-lo", a, b))
    out.append(("whole", list(lo), list(hi)))
    # thin boxes inside one cell
    a, b = [], []
    for ax in range(ndim):
        k = rng.randrange(n[ax])
        a.append(lo[ax] + (k + Fraction(1, 8)) * c[ax])
        b.append(lo[ax] + (k + Fraction(3, 8)) * c[ax])
    out.append(("thin", a, b))
    a, b = arbitrary()
    ax = rng.randrange(ndim)
    b[ax] = hi[ax] + c[ax] / 2
    out.append(("partly-outside", a, b))
    a, b = arbitrary()
    ax = rng.randrange(ndim)
    a[ax] = lo[ax] - c[ax] / 4
    out.append(("partly-outside", a, b))
    out.append(("outside", [h + cc for h, cc in zip(hi, c)], [h + 3 * cc for h, cc in zip(hi, c)]))
    return [(t, [num(x) for x in a], [num(x) for x in b]) for t, a, b in out]


def getitem_ops_exact(rng, spec, subs, tier):
    ops = [dict(op="getname", name=s[0], tag="name") for s in subs]
    ops.append(dict(op="getname", name="nosuch", tag="name-missing"))
    for t, a, b in boxes_exact(rng, spec, subs, tier):
        ops.append(dict(op="getregion", p1=a, p2=b, tag="box-" + t))
        ops.append(dict(op="r2s", p1=a, p2=b, tag="r2s-" + t))
    for s in subs:
        ops.append(dict(op="r2s", p1=s[1], p2=s[2], tag="r2s-sub"))
    return ops


def pad_ops(rng, spec, tier):
    dims = dims_of(spec)
    ops = []
    for mode in MODES:
        for _ in range(1 if tier == "quick" else 3):
            axes = [d for d in dims if rng.random() < 0.6] or [rng.choice(dims)]
            pw = [[d, rng.randint(0, 3), rng.randint(0, 3)] for d in axes]
            ops.append(dict(op="pad", pad=pw, mode=mode, tag="pad-" + mode))
    # wider than the axis (iterated wrap / reflection)
    d = rng.choice(dims)
    k = spec["n"][dims.index(d)]
    mode = rng.choice(MODES)
    ops.append(dict(op="pad", pad=[[d, k + rng.randint(1, 3), 2 * k + 1]], mode=mode, tag="pad-wide-" + mode))
    ops.append(dict(op="pad", pad=[], mode="constant", tag="pad-empty"))
    ops.append(dict(op="pad", pad=[[dims[0], -1, 1]], mode="edge", tag="pad-negative"))
    ops.append(dict(op="pad", pad=[["q", 1, 1]], mode="wrap", tag="pad-bad-dim"))
    return ops


def resample_ops(rng, spec, tier):
    n = spec["n"]
    ndim = len(n)
    ops = [dict(op="resample", n=list(n), tag="rs-same")]
    for _ in range(3 if tier == "quick" else 8):
        m = []
        for k in n:
            m.append(rng.choice([k, max(1, k // 2), 2 * k, k + 1, max(1, k - 1), 1, 3, 2 * k + 1, 5]))
        while int(np.prod(m)) > 400:
            m[max(range(ndim), key=lambda i: m[i])] = 2
        ops.append(dict(op="resample", n=m, tag="rs"))
    ops.append(dict(op="resample", n=list(n) + [2], tag="rs-bad-len"))
    bad = list(n)
    bad[rng.randrange(ndim)] = 0
    ops.append(dict(op="resample", n=bad, tag="rs-zero"))
    bad = list(n)
    bad[rng.randrange(ndim)] = -2
    ops.append(dict(op="resample", n=bad, tag="rs-negative"))
    return ops


# ---- tolerance regime
def gen_tol_mesh(rng, big=False):
    ndim = rng.choice([1, 1, 2, 2, 3])
    scale = rng.choice([1e-9, 1e-9, 1e-6, 1e-3, 1.0, 1.0, 1.0, 1e3])
    cell = [scale * rng.choice([0.1, 0.15, 0.3, 1.0 / 3.0, 0.7, 5.0, 2.5, 0.05, 1.0]) for _ in range(ndim)]
    nmax = 60 if (big and ndim == 1) else (12 if ndim == 1 else 7)
    n = [rng.randint(1, nmax) for _ in range(ndim)]
    while int(np.prod(n)) > 150:
        n[max(range(ndim), key=lambda i: n[i])] -= 1
    p1 = [rng.choice([0.0, 0.0, c * rng.randint(-10, 10), c * rng.randint(1, 7), -3.7 * c, 0.1 * scale]) for c in cell]
    p2 = [a + k * c for a, k, c in zip(p1, n, cell)]
    spec = dict(p1=p1, p2=p2, n=n, dims=None, bc="")
    if rng.random() < 0.15 and all(float(x).is_integer() and float(y).is_integer() for x, y in zip(p1, p2)):
        spec["p1"] = [int(x) for x in p1]
        spec["p2"] = [int(x) for x in p2]
    return spec


def int_tol_mesh(rng):
    """integer-typed corners, non-representable cells (edge / n with n = 3, 5, 6, 7, 10)"""
    ndim = rng.choice([1, 2, 3])
    p1 = [rng.randint(-3, 3) for _ in range(ndim)]
    p2 = [a + rng.randint(1, 4) for a in p1]
    n = [rng.choice([3, 5, 6, 7, 10, 4]) for _ in range(ndim)]
    while int(np.prod(n)) > 150:
        n[max(range(ndim), key=lambda i: n[i])] -= 2
    return dict(p1=p1, p2=p2, n=n, dims=None, bc="")


def tol_vertices(spec):
    """faces as the implementation computes them (np.linspace) and as a user would (pmin + k*cell)"""
    lo = [min(float(a), float(b)) for a, b in zip(spec["p1"], spec["p2"])]
    hi = [max(float(a), float(b)) for a, b in zip(spec["p1"], spec["p2"])]
    out = []
    for l, h, k in zip(lo, hi, spec["n"]):
        c = (h - l) / k
        v1 = [float(x) for x in np.linspace(l, h, k + 1)]
        v2 = [l + j * c for j in range(k + 1)]
        v2[-1] = h
        out.append((v1, v2))
    return lo, hi, out


def gen_subs_tol(rng, spec):
    lo, hi, verts = tol_vertices(spec)
    subs = []
    # stay clear of the incidental absolute 1e-12 of Mesh.is_aligned (C14/D18): the subregion setter, which every
    # Mesh.sel re-runs, compares remainders of corner differences with 1e-12; a few ulp at |coordinate| > ~1e3 reach it
    if max(abs(float(x)) for x in list(lo) + list(hi)) > 100.0:
        return subs
    for s in range(rng.choice([0, 1, 1, 2])):
        a, b = [], []
        for ax, k in enumerate(spec["n"]):
            k1 = rng.randint(0, k - 1)
            k2 = rng.randint(k1 + 1, k)
            v = verts[ax][rng.randrange(2)]
            a.append(v[k1])
            b.append(v[k2])
        subs.append([["r1", "r2"][s], a, b])
    return subs


def tol_coords(rng, spec, subs, ax):
    lo, hi, verts = tol_vertices(spec)
    k = spec["n"][ax]
    l, h = lo[ax], hi[ax]
    c = (h - l) / k
    out = [("boundary-lo", l), ("boundary-hi", h)]
    for _ in range(3):
        out.append(("interior", l + (rng.randrange(k) + rng.uniform(0.05, 0.95)) * c))
    for _ in range(3):
        j = rng.randint(0, k)
        out.append(("face", verts[ax][rng.randrange(2)][j]))
    for s in subs:
        out.append(("subface", float(s[1][ax])))
        out.append(("subface", float(s[2][ax])))
    out.append(("centre-of-cell", l + (rng.randrange(k) + 0.5) * c))
    out += [("outside", l - 0.25 * c), ("outside", h + 0.25 * c), ("outside", h + 3 * c)]
    return out


def sel_ops_tol(rng, spec, subs, tier):
    ops = []
    dims = dims_of(spec)
    for ax, d in enumerate(dims):
        cs = tol_coords(rng, spec, subs, ax)
        ops.append(dict(op="sel", dim=d, arg=None, tag="centre"))
        for tag, x in rng.sample(cs, min(len(cs), 6)):
            ops.append(dict(op="sel", dim=d, arg={"point": x}, tag="pt-" + tag))
        ins = [t for t in cs if t[0] != "outside"]
        pairs = [(rng.choice(cs), rng.choice(cs)) for _ in range(3)]
        pairs += [(rng.choice(ins), rng.choice(ins)) for _ in range(6)]
        pairs.append((cs[0], cs[1]))
        for (t1, x1), (t2, x2) in pairs:
            ops.append(dict(op="sel", dim=d, arg={"range": [x1, x2]}, tag=f"rg-{t1}-{t2}"))
    return ops


def getitem_ops_tol(rng, spec, subs, tier):
    lo, hi, verts = tol_vertices(spec)
    ndim = len(lo)
    n = spec["n"]
    ops = [dict(op="getname", name=s[0], tag="name") for s in subs]
    boxes = []
    for _ in range(3):
        a, b = [], []
        for ax in range(ndim):
            k1 = rng.randint(0, n[ax] - 1)
            k2 = rng.randint(k1 + 1, n[ax])
            v = verts[ax][rng.randrange(2)]
            a.append(v[k1])
            b.append(v[k2])
        boxes.append(("aligned", a, b))
    for _ in range(3):
        a, b = [], []
        for ax in range(ndim):
            u = sorted([rng.uniform(0.02, 0.98) * n[ax], rng.uniform(0.02, 0.98) * n[ax]])
            c = (hi[ax] - lo[ax]) / n[ax]
            if u[1] - u[0] < 0.05:
                u[1] = min(u[0] + 0.3, n[ax])
            a.append(lo[ax] + u[0] * c)
            b.append(lo[ax] + u[1] * c)
        boxes.append(("arbitrary", a, b))
    boxes.append(("whole", list(lo), list(hi)))
    a = [verts[ax][0][rng.randint(0, n[ax] - 1)] for ax in range(ndim)]
    boxes.append(("touch-hi", a, list(hi)))
    b = [verts[ax][0][rng.randint(1, n[ax])] for ax in range(ndim)]
    boxes.append(("touch-lo", list(lo), b))
    c = [(h - l) / k for l, h, k in zip(lo, hi, n)]
    boxes.append(("partly-outside", [l + 0.3 * cc for l, cc in zip(lo, c)], [h + 0.5 * cc for h, cc in zip(hi, c)]))
    boxes.append(("outside", [h + cc for h, cc in zip(hi, c)], [h + 2 * cc for h, cc in zip(hi, c)]))
    for t, a, b in boxes:
        ops.append(dict(op="getregion", p1=a, p2=b, tag="box-" + t))
        ops.append(dict(op="r2s", p1=a, p2=b, tag="r2s-" + t))
    for s in subs:
        ops.append(dict(op="getregion", p1=s[1], p2=s[2], tag="box-sub"))
        ops.append(dict(op="r2s", p1=s[1], p2=s[2], tag="r2s-sub"))
    return ops


# ---- streams added after the R4 seeded changes: coordinates at every relative distance from faces / boundaries,
# ---- thousands of cells along one axis, far offsets, scales 1e-12 .. 1e9, user-defined tolerance factors, value types
FLAG_F4_INT = os.environ.get("VERIF_C07_F4INT", "1") != "0"  # narrow-float coordinates on integer-typed corners: see known()


def fits(*vals):
    """every value is a binary64 number (so the float operation producing it is exact)"""
    return all(Fraction(float(v)) == v for v in vals)


def decade(d):
    """tag of a relative distance: 1e-01 .. 1e-16"""
    return "neardist:1e-%02d" % min(16, max(1, int(math.floor(-math.log10(float(d)) + 1e-9))))


def spec_tf(spec):
    return Fraction(float(spec["tol"])) if spec.get("tol") is not None else Fraction(1e-12)


def clear_of_tolerance(spec, x, dist):
    """dist (absolute distance beyond a region boundary) is not within 1 % of the region's own allowance there"""
    lo, hi, c = geom(spec)
    t = spec_tf(spec) * (min(h - l for l, h in zip(lo, hi)) + abs(x))
    return not (t * Fraction(99, 100) <= dist <= t * Fraction(101, 100)) and not \
        (4 * t * Fraction(99, 100) <= dist <= 4 * t * Fraction(101, 100))


EXACT_TF = [None, None, None, None, 2.0 ** -10, 2.0 ** -20, 2.0 ** -5, 1e-3, 1e-6, 1e-9, 0.0]
TOL_TF = [None, None, None, None, 1e-3, 1e-6, 1e-9, 1e-2]


def gen_near_mesh(rng, big=False):
    """dyadic mesh (every float operation of the code path exact) at scale 2^-40 .. 2^30, offsets of up to millions of
    cells, optionally thousands of cells along one axis, any tolerance factor"""
    ndim = rng.choice([1, 2]) if big else rng.choice([1, 1, 2, 2, 3])
    e = rng.choice([-40, -30, -20, -10, -3, 0, 0, 0, 0, 7, 10, 20, 30])
    cell = [Fraction(rng.choice([1, 1, 1, 3, 5]), 2 ** rng.randint(0, 2)) * Fraction(2) ** e for _ in range(ndim)]
    if big:
        n = [rng.randint(1, 2) for _ in range(ndim)]
        n[rng.randrange(ndim)] = rng.choice([1000, 1024, 1536, 2048, 3000, 4095, 4096])
    else:
        n = [rng.randint(1, 7) for _ in range(ndim)]
        while int(np.prod(n)) > 96:
            n[max(range(ndim), key=lambda i: n[i])] -= 1
    off = []
    for a in range(ndim):
        kind = rng.choice(["zero", "zero", "centred", "small", "small", "far", "far"])
        off.append(0 if kind == "zero" else -(n[a] // 2) if kind == "centred" else rng.randint(-40, 40) if kind == "small"
                   else rng.choice([-1, 1]) * (2 ** rng.randint(10, 22) + rng.randint(0, 1000)))
    pmin = [p * c for p, c in zip(off, cell)]
    pmax = [(p + k) * c for p, k, c in zip(off, n, cell)]
    assert fits(*pmin, *pmax)
    spec = dict(p1=[float(x) for x in pmin], p2=[float(x) for x in pmax], n=n, dims=None, bc="")
    if all(x.denominator == 1 and abs(x) < 2 ** 53 for x in pmin + pmax) and rng.random() < 0.4:  # integer-typed corner arrays
        spec["p1"], spec["p2"] = [int(x) for x in pmin], [int(x) for x in pmax]
    if rng.random() < 0.3:
        spec["dims"] = rng.sample(NAMES, ndim)
    if rng.random() < 0.2:
        spec["bc"] = "".join(d for d in dims_of(spec) if len(d) == 1 and rng.random() < 0.5)
    if rng.random() < 0.2:
        spec["units"] = [rng.choice(["m", "nm", "s", "T"]) for _ in range(ndim)]
    tf = rng.choice(EXACT_TF)
    if tf is not None:
        spec["tol"] = tf
    for a in range(ndim):
        if rng.random() < 0.2:
            spec["p1"][a], spec["p2"][a] = spec["p2"][a], spec["p1"][a]
    return spec


def near_exact(rng, spec, subs, ax, where=None, side=None, inside=False):
    """coordinate at distance 2^-k cell (k = 1..50: 0.5 .. 1e-15 cell) above or below a cell face / the region
    boundary / a subregion face, such that it and all intermediate quantities of the code path are binary64 numbers"""
    lo, hi, c = geom(spec)
    n = spec["n"][ax]
    l, h, cc = lo[ax], hi[ax], c[ax]
    where = where or rng.choice(["face", "face", "lo", "hi", "sub"])
    if where == "sub":
        if subs:
            s0 = rng.choice(subs)
            face = FR(s0[rng.choice([1, 2])][ax])
        else:
            where = "face"
    if where == "face":
        face = l + (rng.randint(1, n - 1) if n >= 2 else rng.choice([0, n])) * cc
    elif where == "lo":
        face = l
    elif where == "hi":
        face = h
    s = side or rng.choice([1, -1])
    if inside and face == l:
        s = 1
    if inside and face == h:
        s = -1
    k = rng.randint(1, 50)
    while k >= 1:
        x = face + s * cc / 2 ** k
        q = (x - l) / cc
        if fits(x, x - l, q, x + cc / 2, x - cc / 2, x + cc / 2 - l, x - cc / 2 - l, q + Fraction(1, 2), q - Fraction(1, 2), h - x) \
                and ((l <= x <= h) or clear_of_tolerance(spec, x, cc / 2 ** k)):
            break
        k -= 1
    else:
        return None
    out = x < l or x > h
    return dict(x=x, out=out, tag=("out" if out else where),
                xt=[f"near:{where}:{'above' if s > 0 else 'below'}", decade(Fraction(1, 2 ** k))] + (["near:outside"] if out else []))


def value_types(spec, x):
    """numeric types in which a coordinate can be handed over without changing it (None = Python float)"""
    int_corners = all(isinstance(v, int) for v in list(spec["p1"]) + list(spec["p2"]))
    kinds = [None, None, None, "f8"]
    fx = float(x)
    if fx.is_integer() and abs(fx) < 2 ** 31:
        kinds += ["int", "i8", "i4"]
    if not int_corners or FLAG_F4_INT:  # narrow floats on integer-typed corners: genuine defect, see known()
        with np.errstate(over="ignore"):
            if float(np.float32(fx)) == fx:
                kinds.append("f4")
            if float(np.float16(fx)) == fx:
                kinds.append("f2")
    return kinds


def with_types(rng, spec, arg):
    """the same request with the coordinate(s) in another numeric type / the pair in another container"""
    if "point" in arg:
        t = rng.choice(value_types(spec, arg["point"]))
    else:
        k1, k2 = (value_types(spec, v) for v in arg["range"])
        t = rng.choice([k for k in k1 if k in k2])
        b = rng.choice([None, None, "list", "array"])
        if b:
            arg = dict(arg, box=b)
    if t:
        arg = dict(arg, **{"as": t})
    return arg


def interior_exact(rng, spec, ax):
    lo, hi, c = geom(spec)
    return lo[ax] + (rng.randrange(spec["n"][ax]) + Fraction(rng.randint(1, 7), 8)) * c[ax]


def sel_ops_near_exact(rng, spec, subs, tier, big=False):
    ops = []
    dims = dims_of(spec)
    axes = list(range(len(dims)))
    if big:
        axes = [max(axes, key=lambda a: spec["n"][a])]
    npts = 6 if big else (6 if tier == "quick" else 16)
    for ax in axes:
        d = dims[ax]
        pts = [near_exact(rng, spec, subs, ax, where=w, side=sd) for w, sd in
               [("lo", -1), ("lo", 1), ("hi", 1), ("hi", -1), ("face", 1), ("face", -1)]]
        pts += [near_exact(rng, spec, subs, ax) for _ in range(npts)]
        pts = [p for p in pts if p]
        for p in pts:
            ops.append(dict(op="sel", dim=d, arg=with_types(rng, spec, {"point": num(p["x"])}), tag="ptnear-" + p["tag"], xt=p["xt"]))
        ins = [p for p in pts if not p["out"]]
        pairs = [(rng.choice(pts), rng.choice(pts)) for _ in range(3)] + [(rng.choice(ins), rng.choice(ins)) for _ in range(5) if ins]
        for p in rng.sample(pts, min(3, len(pts))):
            pairs.append((p, dict(x=interior_exact(rng, spec, ax), out=False, tag="interior", xt=[])))
        for p, q in pairs:
            ops.append(dict(op="sel", dim=d, arg=with_types(rng, spec, {"range": [num(p["x"]), num(q["x"])]}),
                            tag=f"rgnear-{p['tag']}-{q['tag']}", xt=sorted(set(p["xt"] + q["xt"]))))
    return ops


def near_boxes_exact(rng, spec, subs, count, allow_out=True):
    lo, hi, c = geom(spec)
    ndim = len(lo)
    out = []
    for _ in range(count):
        a, b, xt, anyout = [], [], [], False
        outside_ok = allow_out and rng.random() < 0.25
        for ax in range(ndim):
            cand = []
            for _ in range(2):
                u = rng.random()
                if u < 0.6:
                    p = near_exact(rng, spec, subs, ax, inside=not outside_ok)
                    if p:
                        cand.append((p["x"], p["xt"], p["out"]))
                        continue
                if u < 0.8:
                    cand.append((lo[ax] + rng.randint(0, spec["n"][ax]) * c[ax], [], False))
                else:
                    cand.append((interior_exact(rng, spec, ax), [], False))
            cand.sort(key=lambda t: t[0])
            if cand[0][0] == cand[1][0]:
                cand = [(lo[ax], [], False), (hi[ax], [], False)]
            a.append(cand[0][0])
            b.append(cand[1][0])
            xt += cand[0][1] + cand[1][1]
            anyout = anyout or cand[0][2] or cand[1][2]
        out.append(("nearout" if anyout else "near", [num(x) for x in a], [num(x) for x in b], sorted(set(xt))))
    return out


def getitem_ops_near_exact(rng, spec, subs, tier, big=False):
    ops = [dict(op="getname", name=s[0], tag="name") for s in subs]
    for t, a, b, xt in near_boxes_exact(rng, spec, subs, 6 if big else (9 if tier == "quick" else 20)):
        ops.append(dict(op="getregion", p1=a, p2=b, tag="box-" + t, xt=xt))
        ops.append(dict(op="r2s", p1=a, p2=b, tag="r2s-" + t))
    return ops


def malformed_ops(rng, spec, fam):
    """requests that are malformed in every way the call signature allows"""
    dims = dims_of(spec)
    lo, hi, c = geom(spec)
    ops = []
    if fam == "sel":
        for kind in rng.sample(BAD_SEL, 7):
            ax = rng.randrange(len(dims))
            if kind in ("twokw",) and len(dims) < 2:
                continue
            ax2 = rng.choice([b for b in range(len(dims)) if b != ax] or [ax])
            ops.append(dict(op="sel", dim=dims[ax], dim2=dims[ax2], arg=kind, x=num(interior_exact(rng, spec, ax)),
                            x2=num(interior_exact(rng, spec, ax2)), tag="malformed-" + kind, xt=["malformed:sel:" + kind]))
    elif fam == "getitem":
        for kind in rng.sample(BAD_ITEMS, 4):
            if kind == "reg-lessdim" and len(dims) < 2:
                continue
            ops.append(dict(op="getbad", kind=kind, tag="malformed-" + kind, xt=["malformed:getitem:" + kind]))
    elif fam == "pad":
        for kind in rng.sample(list(RAW_PAD) + ["badmode"], 3):
            ops.append(dict(op="pad", pad=[[rng.choice(dims), 1, 1]], mode=rng.choice(MODES), raw=kind, nomodel=True,
                            tag="malformed-" + kind, xt=["malformed:pad:" + kind]))
    else:
        n = list(spec["n"])
        k = rng.randrange(len(n))
        for kind, bad in (("float", n[:k] + [2.5] + n[k + 1:]), ("floatint", n[:k] + [2.0] + n[k + 1:]), ("str", "ab"),
                          ("none", None), ("nested", [list(n)] * len(n)), ("short", n[:-1])):
            if rng.random() < 0.5:
                ops.append(dict(op="resample", n=bad, nomodel=True, tag="malformed-" + kind, xt=["malformed:resample:" + kind]))
    return ops


def pad_ops_wide(rng, spec):
    """hundreds of padding layers (iterated wrap / mirror images many periods away); result of at most ~6000 cells"""
    dims = dims_of(spec)
    n = spec["n"]
    ops = []
    for mode in rng.sample(MODES, 2):
        ax = rng.randrange(len(dims))
        room = 6000 // (int(np.prod(n)) // n[ax]) - n[ax]
        if room < 20:
            continue
        lo = rng.choice([0, 17, 100, 257])
        hi = rng.choice([64, 300, 1000])
        while lo + hi > room:
            lo, hi = lo // 2, max(1, hi // 2)
        ops.append(dict(op="pad", pad=[[dims[ax], lo, hi]], mode=mode, tag="padhuge-" + mode, xt=["pad:tens-to-hundreds-of-layers"]))
    return ops


def resample_ops_large(rng, spec, big):
    """to thousands of cells along one axis (small sources), from thousands of cells (model: closed-form lookup)"""
    n = spec["n"]
    ndim = len(n)
    ops = []
    if big:
        for _ in range(2):
            m = [rng.choice([1, 2, 3, 5, 7, k, max(1, k // 2), k + 1, 2 * k]) if k < 100 else rng.choice([1, 2, 3, 7, 100, k // 2, k - 1, k, k + 1]) for k in n]
            ops.append(dict(op="resample", n=m, fast=True, tag="rsfromlarge", xt=["resample:from-thousands"]))
    else:
        m = [rng.choice([1, 2, k]) for k in n]
        a = rng.randrange(ndim)
        m[a] = rng.choice([1000, 1024, 2048, 3001, 4096])
        while int(np.prod(m)) > 4200:
            b = max((b for b in range(ndim) if b != a), key=lambda b: m[b])
            m[b] = 1
        # the model's coordinate lookup is quadratic in the axis length: up to 128 target cells along an axis go through
        # `resample`, thousands through `resampleFast` (the closed form, proved equal cell by cell: resample_fast_refines)
        ops.append(dict(op="resample", n=m, fast=True, tag="rstolarge", xt=["resample:to-thousands"]))
        m2 = list(m)
        m2[a] = rng.choice([48, 64, 100, 128])
        ops.append(dict(op="resample", n=m2, tag="rstomany", xt=["resample:to-hundreds"]))
    return ops


# ---- tolerance regime, extended
def gen_tol_mesh_wide(rng, big=False):
    """arbitrary (non-representable) cells at scales 1e-12 .. 1e9, offsets of up to a million cells, optionally
    thousands of cells along one axis, any tolerance factor"""
    ndim = rng.choice([1, 2]) if big else rng.choice([1, 1, 2, 2, 3])
    scale = rng.choice([1e-12, 1e-11, 1e-9, 1e-6, 1e-3, 1.0, 1.0, 1e3, 1e6, 1e9])
    cell = [scale * rng.choice([0.1, 0.15, 0.3, 1.0 / 3.0, 0.7, 5.0, 2.5, 0.05, 1.0, 1.1, 7e-2]) for _ in range(ndim)]
    if big:
        n = [rng.randint(1, 2) for _ in range(ndim)]
        n[rng.randrange(ndim)] = rng.choice([1000, 1500, 2048, 2990, 3000, 4096])
    else:
        n = [rng.randint(1, 9) for _ in range(ndim)]
        while int(np.prod(n)) > 120:
            n[max(range(ndim), key=lambda i: n[i])] -= 1
    p1 = []
    for c in cell:
        kind = rng.choice(["zero", "small", "small", "odd", "far", "far"])
        p1.append(0.0 if kind == "zero" else c * rng.randint(-10, 10) if kind == "small" else -3.7 * c if kind == "odd"
                  else c * rng.choice([-1, 1]) * rng.randint(10 ** 3, 10 ** rng.randint(4, 6)))
    p2 = [a + k * c for a, k, c in zip(p1, n, cell)]
    spec = dict(p1=p1, p2=p2, n=n, dims=None, bc="")
    tf = rng.choice(TOL_TF)
    if tf is not None:
        spec["tol"] = tf
    return spec


def near_tol(rng, spec, subs, ax, where=None, side=None, inside=False):
    """coordinate at 1e-1 .. 1e-15 cell (x 1, 2.5, 5) above / below a face as the implementation or a user computes it;
    where the offset is below the spacing of floats there, the neighbouring float"""
    lo, hi, verts = tol_vertices(spec)
    k = spec["n"][ax]
    l, h = lo[ax], hi[ax]
    c = (h - l) / k
    where = where or rng.choice(["face", "face", "lo", "hi", "sub"])
    if where == "sub":
        if subs:
            face = float(rng.choice(subs)[rng.choice([1, 2])][ax])
        else:
            where = "face"
    if where == "face":
        face = verts[ax][rng.randrange(2)][rng.randint(1, k - 1) if k >= 2 else rng.choice([0, k])]
    elif where == "lo":
        face = l
    elif where == "hi":
        face = h
    s = side or rng.choice([1, -1])
    if inside and face <= l:
        s = 1
    if inside and face >= h:
        s = -1
    d = 10.0 ** -rng.randint(1, 15) * rng.choice([1.0, 2.5, 5.0])
    x = face + s * d * c
    if x == face:
        x = float(np.nextafter(face, s * math.inf))
    if inside:
        x = min(max(x, l), h)
    out = x < l or x > h
    return dict(x=x, out=out, tag=("out" if out else where),
                xt=[f"near:{where}:{'above' if s > 0 else 'below'}", decade(d)] + (["near:outside"] if out else []))


def boundary_hairs(rng, spec, ax):
    """just outside / just inside the region boundary: neighbouring floats, 1e-13 and 1e-6 of the edge / of a cell"""
    lo, hi, verts = tol_vertices(spec)
    l, h = lo[ax], hi[ax]
    c = (h - l) / spec["n"][ax]
    out = []
    for name, x in (("ulp-below-lo", float(np.nextafter(l, -math.inf))), ("ulp-above-hi", float(np.nextafter(h, math.inf))),
                    ("ulp-above-lo", float(np.nextafter(l, math.inf))), ("ulp-below-hi", float(np.nextafter(h, -math.inf))),
                    ("1e-13edge-below-lo", l - 1e-13 * (h - l)), ("1e-13edge-above-hi", h + 1e-13 * (h - l)),
                    ("1e-6cell-below-lo", l - 1e-6 * c), ("1e-6cell-above-hi", h + 1e-6 * c),
                    ("1cell-below-lo", l - c), ("1cell-above-hi", h + c), ("edge-above-hi", h + (h - l))):
        o = x < l or x > h
        out.append(dict(x=x, out=o, tag=("out" if o else "hair"), xt=["hair:" + name] + (["near:outside"] if o else [])))
    return out


def sel_ops_near_tol(rng, spec, subs, tier, big=False):
    ops = []
    dims = dims_of(spec)
    axes = list(range(len(dims)))
    if big:
        axes = [max(axes, key=lambda a: spec["n"][a])]
    for ax in axes:
        d = dims[ax]
        hairs = boundary_hairs(rng, spec, ax)
        pts = rng.sample(hairs, 5) + [near_tol(rng, spec, subs, ax) for _ in range(6 if big else 8)]
        for p in pts:
            ops.append(dict(op="sel", dim=d, arg={"point": p["x"]}, tag="ptnear-" + p["tag"], xt=p["xt"]))
        ins = [p for p in pts if not p["out"]]
        mid = dict(x=tol_vertices(spec)[0][ax] + (rng.randrange(spec["n"][ax]) + rng.uniform(0.1, 0.9)) * ((tol_vertices(spec)[1][ax] - tol_vertices(spec)[0][ax]) / spec["n"][ax]),
                   out=False, tag="interior", xt=[])
        pairs = [(rng.choice(pts), rng.choice(pts)) for _ in range(2)] + [(rng.choice(ins + [mid]), rng.choice(ins + [mid])) for _ in range(5)]
        pairs += [(p, mid) for p in rng.sample(hairs, 3)]
        for p, q in pairs:
            ops.append(dict(op="sel", dim=d, arg={"range": [p["x"], q["x"]]}, tag=f"rgnear-{p['tag']}-{q['tag']}",
                            xt=sorted(set(p["xt"] + q["xt"]))))
    return ops


def getitem_ops_near_tol(rng, spec, subs, tier, big=False):
    lo, hi, verts = tol_vertices(spec)
    ndim = len(lo)
    ops = [dict(op="getname", name=s[0], tag="name") for s in subs]
    for _ in range(5 if big else 8):
        a, b, xt, anyout = [], [], [], False
        outside_ok = rng.random() < 0.25
        for ax in range(ndim):
            cand = []
            for _ in range(2):
                u = rng.random()
                if u < 0.65:
                    p = near_tol(rng, spec, subs, ax, inside=not outside_ok)
                elif u < 0.8:
                    p = rng.choice([h for h in boundary_hairs(rng, spec, ax) if outside_ok or not h["out"]])
                else:
                    p = dict(x=verts[ax][rng.randrange(2)][rng.randint(0, spec["n"][ax])], xt=[], out=False)
                cand.append((p["x"], p["xt"], p["out"]))
            cand.sort(key=lambda t: t[0])
            if cand[0][0] == cand[1][0]:
                cand = [(lo[ax], [], False), (hi[ax], [], False)]
            a.append(cand[0][0])
            b.append(cand[1][0])
            xt += cand[0][1] + cand[1][1]
            anyout = anyout or cand[0][2] or cand[1][2]
        t = "nearout" if anyout else "near"
        ops.append(dict(op="getregion", p1=a, p2=b, tag="box-" + t, xt=sorted(set(xt))))
        ops.append(dict(op="r2s", p1=a, p2=b, tag="r2s-" + t))
    return ops


def f4int_cases(rng, tier):
    """only with VERIF_C07_F4INT=1 (open finding, see known()): integer-typed corners, cells 1, 1/2, 1/4, selection
    coordinates inside cells handed over as numpy.float32 / float16"""
    for _ in range(4 if tier == "quick" else 20):
        ndim = rng.choice([1, 2, 3])
        edge = [rng.randint(1, 4) for _ in range(ndim)]
        mult = [rng.choice([1, 2, 4]) for _ in range(ndim)]
        p1 = [rng.randint(-5, 5) for _ in range(ndim)]
        spec = dict(p1=p1, p2=[a + e for a, e in zip(p1, edge)], n=[e * m for e, m in zip(edge, mult)], dims=None, bc="")
        dims = dims_of(spec)
        ops = []
        for ax in range(ndim):
            for _ in range(4):
                t = rng.choice(["f4", "f2"])
                ops.append(dict(op="sel", dim=dims[ax], arg={"point": num(interior_exact(rng, spec, ax)), "as": t}, tag="ptnarrow-" + t,
                                xt=["narrow-float-on-int-corners"]))
                ops.append(dict(op="sel", dim=dims[ax], arg={"range": [num(interior_exact(rng, spec, ax)), num(interior_exact(rng, spec, ax))], "as": t},
                                tag="rgnarrow-" + t, xt=["narrow-float-on-int-corners"]))
        yield dict(regime="exact", fam="sel", stream="narrow-float", mesh=spec, subs=[], nvdim=rng.choice([1, 2]), density=0.8,
                   sub=rng.getrandbits(32), ops=ops)


def near_cases(rng, tier):
    quick = tier == "quick"
    if FLAG_F4_INT:
        yield from f4int_cases(rng, tier)
    plan = [("exact", False)] * (7 if quick else 70) + [("exact", True)] * (3 if quick else 20) + \
           [("tol", False)] * (8 if quick else 70) + [("tol", True)] * (3 if quick else 20)
    for regime, big in plan:
        exact = regime == "exact"
        spec = (gen_near_mesh if exact else gen_tol_mesh_wide)(rng, big)
        subs = [] if big else (gen_subs_exact(rng, spec) if exact else gen_subs_tol(rng, spec))
        for fam in ["sel", "getitem", "pad", "resample"]:
            if fam == "sel":
                ops = (sel_ops_near_exact if exact else sel_ops_near_tol)(rng, spec, subs, tier, big)
            elif fam == "getitem":
                ops = (getitem_ops_near_exact if exact else getitem_ops_near_tol)(rng, spec, subs, tier, big)
            elif fam == "pad":
                ops = pad_ops(rng, spec, tier)[:3] + pad_ops_wide(rng, spec)
            else:
                ops = resample_ops_large(rng, spec, big)
                if not big:
                    ops += resample_ops(rng, spec, tier)[:3]
            if exact and not big:
                ops += malformed_ops(rng, spec, fam)
            if fam == "sel" and not big:
                ops += nonfinite_ops(rng, spec, 2)
            if not ops:
                continue
            yield dict(regime=regime, fam=fam, stream="near-big" if big else "near", mesh=spec, subs=subs,
                       nvdim=rng.choice([1, 1, 2]) if big else rng.choice([1, 2, 3]),
                       density=rng.choice([1.0, 0.7]), sub=rng.getrandbits(32), ops=ops, hist=pick_hist(rng, fam, rng.randrange(4)))


def pick_hist(rng, fam, k):
    """history of the operand: resampling (the operation that reads cached coordinate tables) mostly on fields whose mesh
    made an in-place detour, the other families on a quarter of the cases"""
    if fam == "resample":
        return HISTS[k % 4] if k % 4 != 3 or rng.random() < 0.5 else None
    return rng.choice(HISTS) if rng.random() < 0.25 else None


def cases(rng, tier):
    nex = 26 if tier == "quick" else 200
    ntol = 30 if tier == "quick" else 250
    fams = ["sel", "getitem", "pad", "resample"]
    for k in range(nex):
        spec = gen_exact_mesh(rng)
        subs = gen_subs_exact(rng, spec)
        for fam in fams:
            if fam == "sel":
                ops = sel_ops_exact(rng, spec, subs, tier)
            elif fam == "getitem":
                ops = getitem_ops_exact(rng, spec, subs, tier)
            elif fam == "pad":
                ops = pad_ops(rng, spec, tier)
            else:
                ops = resample_ops(rng, spec, tier)
            if fam == ("sel", "getitem")[(k // 3) % 2] and k % 3 == 0:  # the calls of a non-finite request do not depend on the family
                ops = ops + nonfinite_ops(rng, spec)
            yield dict(regime="exact", fam=fam, mesh=spec, subs=subs, nvdim=rng.choice([1, 1, 2, 3]),
                       density=rng.choice([1.0, 0.8, 0.5]), sub=rng.getrandbits(32), ops=ops, hist=pick_hist(rng, fam, k))
    yield from meta_cases(rng, tier)
    yield from near_cases(rng, tier)
    for k in range(ntol):
        spec = int_tol_mesh(rng) if k % 5 == 4 else gen_tol_mesh(rng, big=(k % 3 == 0))
        subs = gen_subs_tol(rng, spec)
        for fam in fams:
            if fam == "sel":
                ops = sel_ops_tol(rng, spec, subs, tier)
            elif fam == "getitem":
                ops = getitem_ops_tol(rng, spec, subs, tier)
            elif fam == "pad":
                ops = pad_ops(rng, spec, tier)[:7]
            else:
                ops = resample_ops(rng, spec, tier)[:4]
            if fam == ("sel", "getitem")[(k // 3) % 2] and k % 3 == 0:  # the calls of a non-finite request do not depend on the family
                ops = ops + nonfinite_ops(rng, spec)
            yield dict(regime="tol", fam=fam, mesh=spec, subs=subs, nvdim=rng.choice([1, 2, 3]),
                       density=rng.choice([1.0, 0.7]), sub=rng.getrandbits(32), ops=ops, hist=pick_hist(rng, fam, k))


# ---- metadata family: fields in every label / mapping / element-type state, one in-region request per operation
META_STATES = ["default", "nolabels-vector", "scalar-labelled", "scalar-stale", "vector-stale", "vector-permuted",
               "many-components"]
META_DTYPES = ["f8", "i8", "c16", "f4"]


def meta_cases(rng, tier):
    nmeta = 14 if tier == "quick" else 120
    for k in range(nmeta):
        state = META_STATES[k % len(META_STATES)]
        spec = gen_exact_mesh(rng, max_cells=48, nmax=5)
        ndim = len(spec["n"])
        if state in ("vector-stale", "vector-permuted"):
            while ndim not in (2, 3):
                spec = gen_exact_mesh(rng, max_cells=48, nmax=5)
                ndim = len(spec["n"])
            nv = ndim
        elif state == "nolabels-vector":
            nv = rng.choice([v for v in (2, 3, 4) if v != ndim])
        elif state in ("scalar-labelled", "scalar-stale"):
            nv = 1
        elif state == "many-components":
            nv = rng.choice([4, 5])
        else:
            nv = rng.choice([1, 2, 3])
        subs = gen_subs_exact(rng, spec)
        lo, hi, c = geom(spec)
        dims = dims_of(spec)
        ax = rng.randrange(ndim)
        n = spec["n"]
        x1 = lo[ax] + (rng.randrange(n[ax]) + Fraction(rng.randint(1, 7), 8)) * c[ax]
        x2 = lo[ax] + (rng.randrange(n[ax]) + Fraction(rng.randint(1, 7), 8)) * c[ax]
        ops = [dict(op="sel", dim=dims[ax], arg=None, tag="centre"),
               dict(op="sel", dim=dims[ax], arg={"range": [num(x1), num(x2)]}, tag="rg-interior-interior"),
               dict(op="getregion", p1=[num(v) for v in lo], p2=[num(v) for v in hi], tag="box-whole")]
        ops += [dict(op="getname", name=sb[0], tag="name") for sb in subs[:1]]
        d = rng.choice(dims)
        ops.append(dict(op="pad", pad=[[d, rng.randint(0, 2), rng.randint(1, 2)]], mode=rng.choice(MODES), tag="pad-meta"))
        ops.append(dict(op="resample", n=list(n), tag="rs-same"))
        ops.append(dict(op="resample", n=[rng.choice([1, 2, 3, 2 * v]) for v in n], tag="rs"))
        yield dict(regime="exact", fam="meta", mesh=spec, subs=subs, nvdim=nv, density=rng.choice([1.0, 0.6]),
                   sub=rng.getrandbits(32), ops=ops, meta=dict(state=state, dtype=META_DTYPES[(k // 2) % len(META_DTYPES)]))


# ------------------------------------------------------------------------------ the real code
def build(case):
    ms = case["mesh"]
    kw = {}
    if ms.get("dims"):
        kw["dims"] = ms["dims"]
    if ms.get("units"):
        kw["units"] = ms["units"]
    if ms.get("tol") is not None:  # user-defined tolerance factor of the region
        kw["tolerance_factor"] = ms["tol"]
    region = df.Region(p1=ms["p1"], p2=ms["p2"], **kw)
    subs = {name: df.Region(p1=a, p2=b) for name, a, b in case.get("subs", [])}
    mesh = df.Mesh(region=region, n=ms["n"], bc=ms.get("bc", ""), subregions=subs)
    rng = random.Random(case["sub"])
    nv = case["nvdim"]
    ncell = int(np.prod(mesh.n))
    tokens = list(range(1, ncell * nv + 1))
    rng.shuffle(tokens)
    arr = np.array(tokens, dtype=float).reshape(*mesh.n, nv)
    mask = np.array([rng.random() < case["density"] for _ in range(ncell)], dtype=bool).reshape(tuple(mesh.n))
    kwf = {}
    meta = case.get("meta")
    if meta:
        return mesh, build_meta(mesh, nv, arr, mask, rng.choice([None, "A/m"]), meta)
    if nv > 1 and rng.random() < 0.4:
        kwf["vdims"] = ["p", "q", "r"][:nv]
    f = df.Field(mesh, nvdim=nv, value=arr, valid=mask, unit=rng.choice([None, "A/m"]), **kwf)
    return mesh, f


def build_meta(mesh, nv, arr, mask, unit, meta):
    """a field in the requested label / mapping state, built through the public constructor and setters only"""
    dtype = np.dtype(meta["dtype"])
    arr = arr.astype(dtype)
    dims = list(mesh.region.dims)
    state = meta["state"]
    kw = dict(nvdim=nv, value=arr, valid=mask, unit=unit, dtype=dtype)
    if state in ("default", "many-components"):
        f = df.Field(mesh, **kw)
    elif state == "nolabels-vector":  # an empty label list means "no labels"; the mapping is then empty
        f = df.Field(mesh, vdims=[], **kw)
    elif state in ("scalar-labelled", "scalar-stale"):
        f = df.Field(mesh, vdims=["s"], vdim_mapping={"s": dims[0]}, **kw)
        if state == "scalar-stale":
            f.vdims = []  # labels removed, the one-entry mapping stays behind
    elif state == "vector-stale":
        f = df.Field(mesh, vdims=["a", "b", "c"][:nv], **kw)
        f.vdims = []  # labels removed, the mapping keeps the old labels as keys
    elif state == "vector-permuted":
        labels = ["p", "q", "r"][:nv]
        f = df.Field(mesh, vdims=labels, vdim_mapping=dict(zip(labels, dims[1:] + dims[:1])), **kw)
    else:
        raise ValueError(state)
    return f


def field_json_real(f):
    """fieldio.field_json, with a complex array of zero imaginary part sent as its real part"""
    arr = np.asarray(f.array)
    if np.iscomplexobj(arr):
        if np.any(arr.imag != 0):
            raise ValueError("non-real complex field")
        arr = arr.real
    nv = f.nvdim
    arr = arr.reshape(-1, nv)
    return dict(mesh=fieldio.mesh_json(f.mesh), nvdim=int(nv), data=[Qs(row) for row in arr.tolist()],
                valid=[bool(v) for v in np.asarray(f.valid).reshape(-1).tolist()],
                vdims=(list(f.vdims) if f.vdims is not None else None),
                vmap=[[k, v] for k, v in f.vdim_mapping.items() if v is not None], unit=f.unit)


def kind_of(a):
    k = np.asarray(a).dtype.kind
    return "i" if k == "u" else k


def attempt(fn):
    try:
        return ("ok", fn())
    except core.SkipCase:
        raise
    except Exception as e:  # canonicalised to ok/err; the class is kept for the evidence / known()
        return ("err", f"{type(e).__name__}: {str(e)[:90]}")


# malformed selection requests: every kind of wrong value / wrong call shape (all must be refused)
BAD_SEL = ["bad3", "bad1", "bad0", "badstr", "badstrs", "badmixed", "badnone2", "baddict", "badcomplex", "badnested",
           "badset", "badarr2d", "badstrnum", "badcplxrange", "twokw", "posandkw", "noargs", "twopos", "dimint",
           "nan", "inf", "-inf", "rginf", "rg-inf", "rgnan", "rgnan2"]


def conv_num(x, kind):
    """the same number in another numeric type (the generator only asks for exact conversions)"""
    if kind in (None, "float"):
        return x
    if kind == "int":
        return int(x)
    return {"f4": np.float32, "f2": np.float16, "f8": np.float64, "i8": np.int64, "i4": np.int32}[kind](x)


def sel_call(op):
    arg = op["arg"]
    d = op["dim"]
    if arg is None:
        return (d,), {}
    if isinstance(arg, str):
        x = op.get("x", 0.0)  # a coordinate inside the region
        d2 = op.get("dim2") or d
        nan, inf = float("nan"), float("inf")
        val = {"bad3": (0.0, 1.0, 2.0), "bad1": (x,), "bad0": (), "badstr": "a", "badstrs": ("a", "b"), "badmixed": (x, "a"),
               "badnone2": (None, x), "baddict": {"a": 1}, "badcomplex": 1j, "badnested": ((x, x), (x, x)), "badset": {x, x + 1.0},
               "badarr2d": np.zeros((2, 2)) + x, "badstrnum": repr(x), "badcplxrange": (1j, x),
               "nan": nan, "inf": inf, "-inf": -inf, "rginf": (x, inf), "rg-inf": (-inf, x), "rgnan": (nan, x), "rgnan2": (x, nan)}
        if arg in val:
            return (), {d: val[arg]}
        if arg == "twokw":
            return (), {d: x, d2: op.get("x2", 0.0)}
        if arg == "posandkw":
            return (d,), {d2: op.get("x2", 0.0)}
        if arg == "noargs":
            return (), {}
        if arg == "twopos":
            return (d, d2), {}
        if arg == "dimint":
            return (0,), {}
        raise ValueError(arg)
    if "point" in arg:
        return (), {d: conv_num(arg["point"], arg.get("as"))}
    rg = [conv_num(v, arg.get("as")) for v in arg["range"]]
    box = arg.get("box")
    return (), {d: (list(rg) if box == "list" else np.array(rg) if box == "array" else tuple(rg))}


def pad_rule_index(mode, n, lo, j):
    """independent statement of numpy.pad along one axis in PHYSICAL terms, on cell numbers measured
    from the source's first cell (t = j - lo): returns the source cell or None (constant fill)"""
    t = j - lo
    if 0 <= t < n:
        return t
    if mode == "constant":
        return None
    if mode == "edge":  # nearest source cell
        return 0 if t < 0 else n - 1
    if mode == "wrap":  # periodic continuation with period = edge length
        return t % n
    if mode == "symmetric":  # mirror images about the boundary faces
        u = t % (2 * n)
        return u if u < n else 2 * n - 1 - u
    if mode == "reflect":  # mirror images about the centres of the boundary cells
        if n == 1:
            return 0
        u = t % (2 * n - 2)
        return u if u < n else 2 * n - 2 - u
    raise ValueError(mode)


HISTS = ["region-translate", "region-scale", "mesh-translate", "mesh-scale"]


def apply_history(mesh, f, kind):
    """the field's mesh goes somewhere else IN PLACE (by its own edge lengths / scaled by 2 about the origin; through the
    Mesh method or, on meshes without subregions, through the mesh's Region object), everything derived from the geometry
    is read there, and it comes back in place. Only taken when every step is exact in binary64 and verified to be
    bit-identical afterwards (helpers of harness/aging.py): the field is then the same field with another history, and
    every demand of the property applies unchanged. Returns the distribution tag."""
    from . import aging
    via_region = kind.startswith("region") and not mesh.subregions
    target = mesh.region if via_region else mesh
    snap = aging._snap_mesh(mesh)
    if kind.endswith("translate"):
        v = mesh.region.edges.copy()
        if not aging._can_translate(mesh, v):
            return "history:none(not-exact)"
        go, back = (lambda: target.translate(v, inplace=True)), (lambda: target.translate(-v, inplace=True))
    else:
        if not aging._can_scale(mesh):
            return "history:none(not-exact)"
        zero = tuple(0.0 for _ in range(mesh.region.ndim))
        go, back = (lambda: target.scale(2.0, reference_point=zero, inplace=True)), \
                   (lambda: target.scale(0.5, reference_point=zero, inplace=True))
    go()
    try:
        for fn in (lambda: mesh.cells, lambda: mesh.vertices, lambda: mesh.cell, lambda: mesh.dV, lambda: len(mesh),
                   lambda: mesh.region.edges, lambda: mesh.region.center, lambda: f.to_xarray(), lambda: f(mesh.region.center),
                   lambda: mesh.point2index(mesh.region.center), lambda: mesh.index2point((0,) * mesh.region.ndim),
                   lambda: hash(mesh.region) if mesh.region.__hash__ else None, lambda: repr(mesh)):
            aging._quiet(fn)
    finally:
        back()
    if not aging._mesh_unchanged(mesh, snap):
        aging._restore_mesh(mesh, snap)
        return "history:restored-by-constructor"
    return "history:" + ("region-" if via_region else "mesh-") + kind.split("-")[1] + "-in-place-and-back"


class Ctx:
    def __init__(self, case):
        self.case = case
        self.exact = case["regime"] == "exact"
        self.mesh, self.f = build(case)
        self.hist_tag = "history:fresh"
        if case.get("hist"):
            self.hist_tag = apply_history(self.mesh, self.f, case["hist"])
        m = self.mesh
        self.ndim = m.region.ndim
        self.dims = list(m.region.dims)
        self.lo = [FR(x) for x in m.region.pmin]
        self.hi = [FR(x) for x in m.region.pmax]
        self.n = [int(k) for k in m.n]
        self.c = [(h - l) / k for l, h, k in zip(self.lo, self.hi, self.n)]  # the model's exact cell
        self.tf = FR(m.region.tolerance_factor)

    def reg_tol(self, b):
        """the region's own allowance for "inside" at coordinate b (atol + rtol*|b| of Region.__contains__), exact"""
        return self.tf * (min(h - l for l, h in zip(self.lo, self.hi)) + abs(FR(b)))

    def frac_dist(self, ax, x):
        """distance (in cells) of coordinate x to the nearest face of axis ax, exact"""
        q = (FR(x) - self.lo[ax]) / self.c[ax]
        fr = q - math.floor(q)
        return min(fr, 1 - fr)

    def ambiguous(self, ax, x, force=False):
        if self.exact and not force:
            return False
        return self.frac_dist(ax, x) <= Fraction(1, 10**9) * max(1, (abs(FR(x)) + abs(self.lo[ax])) / self.c[ax])

    def slack(self, ax):
        """absolute slack for geometric inequalities"""
        if self.exact:
            return Fraction(0)
        return Fraction(1, 10**9) * (self.c[ax] + abs(self.lo[ax]) + abs(self.hi[ax]))


SAMPLE_ABOVE = 700


def cell_sample(ctx, n):
    """all cells of a result of up to SAMPLE_ABOVE cells; of a larger one the corner cells, the two outermost layers
    along every axis at random positions and random interior cells (all cells carry distinct tokens: a result that is
    shifted, reversed or cropped at the wrong end differs from the source in every cell). Reproducible from the case."""
    n = [int(k) for k in n]
    total = int(np.prod(n)) if n else 1
    if total <= SAMPLE_ABOVE:
        return list(itertools.product(*[range(k) for k in n]))
    rng = random.Random(ctx.case["sub"] * 31 + total)
    out = set(itertools.product(*[sorted({0, k - 1}) for k in n]))
    for a, k in enumerate(n):
        for layer in {0, min(1, k - 1), max(k - 2, 0), k - 1}:
            for _ in range(12):
                j = [rng.randrange(v) for v in n]
                j[a] = layer
                out.add(tuple(j))
    for _ in range(300):
        out.add(tuple(rng.randrange(v) for v in n))
    return sorted(out)


def same_values(ctx, g_arr, g_valid, g_mesh, src_point_of, fail, what, skip=None):
    """search oracle: every result cell carries the source's value and validity at the result cell's centre.
    src_point_of(centre) -> full-dimensional point in the source (or None when outside: handled by caller)"""
    f = ctx.f
    for j in cell_sample(ctx, g_mesh.n):
        q = g_mesh.index2point(j)
        if skip is not None and skip(j, q):
            continue
        p = src_point_of(q)
        if p is None:
            continue
        if p not in f.mesh.region:
            fail(f"{what}: centre {list(map(float, q))} of result cell {j} is not in the source region")
            return False
        i = f.mesh.point2index(p)
        if not np.array_equal(g_arr[j], f.array[i]):
            fail(f"{what}: result cell {j} (centre {list(map(float, q))}) holds {g_arr[j].tolist()}, the source holds "
                 f"{f.array[i].tolist()} at that point (source cell {i})")
            return False
        if bool(g_valid[j]) != bool(f.valid[i]):
            fail(f"{what}: validity of result cell {j} is {bool(g_valid[j])}, the source's at that point is {bool(f.valid[i])}")
            return False
    return True


def aligned_with_source(ctx, g_mesh, axis_map, fail, what):
    """result cell size == source cell size, (result.pmin - source.pmin)/cell integer on every kept axis"""
    for gb, sb in axis_map:
        gc = FR(g_mesh.cell[gb])
        sc = FR(ctx.mesh.cell[sb])
        if (gc != sc) if ctx.exact else (abs(gc - sc) > Fraction(1, 10**9) * sc):
            fail(f"{what}: cell size along source axis {sb} changed from {float(sc)} to {float(gc)}")
            return False
        q = (FR(g_mesh.region.pmin[gb]) - ctx.lo[sb]) / ctx.c[sb]
        d = abs(q - round(q))
        if (d != 0) if ctx.exact else (d > Fraction(1, 10**6)):
            fail(f"{what}: result pmin along source axis {sb} is {float(q)} cells from the source pmin (not whole cells)")
            return False
    return True


def run_sel(ctx, op, r, fail):
    f, mesh = ctx.f, ctx.mesh
    args, kwargs = sel_call(op)
    r["conv"] = attempt(lambda: core.private(mesh, "_sel_convert_input")(*args, **kwargs))
    r["mesh"] = attempt(lambda: mesh.sel(*args, **kwargs))
    r["field"] = attempt(lambda: f.sel(*args, **kwargs))
    what = f"sel({op['dim']}={op['arg']})"
    arg = op["arg"]
    # which answer does the property demand?
    if op["dim"] not in ctx.dims or isinstance(arg, str):
        expect = "err"
        ax = None
    else:
        ax = ctx.dims.index(op["dim"])
        if arg is None:
            xs = []
        elif "point" in arg:
            xs = [arg["point"]]
        else:
            xs = list(arg["range"])
        inside = all(mesh.region.pmin[ax] <= x <= mesh.region.pmax[ax] for x in xs)
        expect = "ok" if inside else "err"
    r["expect"] = expect
    r["ax"] = ax
    got = {k: r[k][0] for k in ("conv", "mesh", "field")}
    one_d_plane = ax is not None and ctx.ndim == 1 and (arg is None or "point" in arg)
    for k in ("conv", "mesh", "field"):
        exp_k = expect
        if one_d_plane and k == "mesh" and expect == "ok":
            continue  # a 0-dimensional mesh does not exist; Field.sel returns the bare value instead
        if got[k] != exp_k:
            marker = ""
            if exp_k == "ok" and arg is not None and "range" in arg and ctx.case.get("subs") and "Subregion" in r[k][1]:
                marker = " [range-selection-next-to-subregion-face]"
            fail(f"{what}: {'in-region' if expect == 'ok' else 'outside/malformed'} request "
                 f"{'rejected' if got[k] == 'err' else 'accepted'} by {k} ({r[k][1] if got[k] == 'err' else ''}){marker}")
            return
    if expect != "ok":
        return
    g = r["field"][1]
    sl = ctx.slack(ax)
    lo, c, n = ctx.lo[ax], ctx.c[ax], ctx.n[ax]
    if arg is None or "point" in arg:
        if arg is None:  # the property: "the central cell if none is given" = the cell containing the region centre
            x = (ctx.lo[ax] + ctx.hi[ax]) / 2 if ctx.exact else FR(mesh.region.center[ax])
            src_x = float(mesh.region.center[ax])
        else:
            x = FR(arg["point"])
            src_x = arg["point"]
        k = int(r["conv"][1][3])
        # the kept layer is the cell containing x
        if not (lo + k * c - sl <= x and (x < lo + (k + 1) * c + sl or (k == n - 1 and x <= ctx.hi[ax] + sl))) or \
                (ctx.exact and x == lo + (k + 1) * c and not k == n - 1) or not (0 <= k < n):
            fail(f"{what}: selected layer {k} = [{float(lo + k * c)}, {float(lo + (k + 1) * c)}) does not contain the requested coordinate {float(x)}")
            return
        if ctx.ndim == 1:
            i = mesh.point2index([src_x])
            if not (isinstance(g, np.ndarray) and np.array_equal(g, f.array[i])):
                fail(f"{what}: 1-d plane selection returned {g!r}, the source holds {f.array[i].tolist()} at that point")
            return
        kept = [b for b in range(ctx.ndim) if b != ax]
        if list(g.mesh.region.dims) != [ctx.dims[b] for b in kept] or \
                list(g.mesh.region.units) != [mesh.region.units[b] for b in kept]:
            fail(f"{what}: result dims/units {g.mesh.region.dims}/{g.mesh.region.units}: not exactly axis {ax} removed")
            return
        for gb, sb in enumerate(kept):
            same = (FR(g.mesh.region.pmin[gb]) == ctx.lo[sb] and FR(g.mesh.region.pmax[gb]) == ctx.hi[sb]) if ctx.exact else \
                (abs(FR(g.mesh.region.pmin[gb]) - ctx.lo[sb]) <= ctx.slack(sb) and abs(FR(g.mesh.region.pmax[gb]) - ctx.hi[sb]) <= ctx.slack(sb))
            if not same or int(g.mesh.n[gb]) != ctx.n[sb]:
                fail(f"{what}: kept axis {sb} changed: [{g.mesh.region.pmin[gb]}, {g.mesh.region.pmax[gb]}] n={g.mesh.n[gb]}")
                return
        if not aligned_with_source(ctx, g.mesh, list(enumerate(kept)), fail, what):
            return

        def src_point(q):
            p = list(map(float, q))
            p.insert(ax, src_x)
            return p

        same_values(ctx, g.array, g.valid, g.mesh, src_point, fail, what)
    else:
        x1, x2 = sorted(FR(v) for v in arg["range"])
        if list(g.mesh.region.dims) != ctx.dims or list(g.mesh.region.units) != list(mesh.region.units):
            fail(f"{what}: dims/units changed")
            return
        if not aligned_with_source(ctx, g.mesh, [(b, b) for b in range(ctx.ndim)], fail, what):
            return
        for b in range(ctx.ndim):
            if b == ax:
                continue
            same = (FR(g.mesh.region.pmin[b]) == ctx.lo[b] and FR(g.mesh.region.pmax[b]) == ctx.hi[b]) if ctx.exact else \
                (abs(FR(g.mesh.region.pmin[b]) - ctx.lo[b]) <= ctx.slack(b) and abs(FR(g.mesh.region.pmax[b]) - ctx.hi[b]) <= ctx.slack(b))
            if not same or int(g.mesh.n[b]) != ctx.n[b]:
                fail(f"{what}: other axis {b} changed")
                return
        k1 = round((FR(g.mesh.region.pmin[ax]) - lo) / c)
        k2 = round((FR(g.mesh.region.pmax[ax]) - lo) / c) - 1
        if int(g.mesh.n[ax]) != k2 - k1 + 1:
            fail(f"{what}: n along the axis is {g.mesh.n[ax]} for cells {k1}..{k2}")
            return
        ok1 = lo + k1 * c - sl <= x1 and (x1 < lo + (k1 + 1) * c + sl or (k1 == n - 1 and x1 <= ctx.hi[ax] + sl))
        ok2 = lo + k2 * c - sl <= x2 and (x2 < lo + (k2 + 1) * c + sl or (k2 == n - 1 and x2 <= ctx.hi[ax] + sl))
        if ctx.exact:
            ok1 = ok1 and not (x1 == lo + (k1 + 1) * c and k1 != n - 1)
            ok2 = ok2 and not (x2 == lo + (k2 + 1) * c and k2 != n - 1)
        if not (ok1 and ok2 and 0 <= k1 <= k2 < n):
            fail(f"{what}: kept cells {k1}..{k2} are not the cells containing the bounds {float(x1)}, {float(x2)} "
                 f"(faces at {float(lo)} + k*{float(c)})")
            return
        same_values(ctx, g.array, g.valid, g.mesh, lambda q: list(map(float, q)), fail, what)
        # bounds are order-insensitive
        rev = attempt(lambda: f.sel(**{op["dim"]: tuple(reversed(arg["range"]))}))
        if rev[0] != "ok" or not (rev[1].mesh == g.mesh and np.array_equal(rev[1].array, g.array)
                                  and np.array_equal(rev[1].valid, g.valid)):
            fail(f"{what}: reversed bounds give a different result")
    # subregions of the result: exactly those overlapping the selection by whole cells, clipped to it
    if isinstance(g, df.Field) and not subs_oracle(ctx, op, ax, g.mesh, fail, what):
        return
    # Mesh.sel agrees with the field's mesh
    if r["mesh"][0] == "ok" and isinstance(g, df.Field):
        gm = r["mesh"][1]
        if not (gm == g.mesh and sub_json(gm) == sub_json(g.mesh)):
            fail(f"{what}: Mesh.sel and Field.sel(...).mesh differ")


def subs_oracle(ctx, op, ax, gm, fail, what):
    """plane: a subregion is kept iff it contains the selected layer (axis removed); range: iff it shares at least one
    whole cell with the kept cells, and it is clipped to them; other axes unchanged"""
    lo, c = ctx.lo[ax], ctx.c[ax]
    arg = op["arg"]
    plane = arg is None or "point" in arg
    if plane:
        kept_axes = [b for b in range(ctx.ndim) if b != ax]
        x = FR(ctx.mesh.region.center[ax]) if arg is None else FR(arg["point"])
        k1 = k2 = None
    else:
        kept_axes = list(range(ctx.ndim))
        k1 = round((FR(gm.region.pmin[ax]) - lo) / c)
        k2 = round((FR(gm.region.pmax[ax]) - lo) / c) - 1
    expect = {}
    for name, s in ctx.mesh.subregions.items():
        s1 = round((FR(s.pmin[ax]) - lo) / c)
        s2 = round((FR(s.pmax[ax]) - lo) / c)
        if plane:
            q = (x - lo) / c
            if ctx.ambiguous(ax, x) and (abs(q - s1) < Fraction(1, 10**6) or abs(q - s2) < Fraction(1, 10**6)):
                expect[name] = None  # the layer itself is decided by rounding at this face
                continue
            kk = min(max(math.floor(q), 0), ctx.n[ax] - 1)
            if s1 <= kk < s2:
                expect[name] = [(FR(s.pmin[b]), FR(s.pmax[b])) for b in kept_axes]
        else:
            a1, a2 = max(s1, k1), min(s2, k2 + 1)
            if a1 < a2:
                expect[name] = [((lo + a1 * c, lo + a2 * c) if b == ax else (FR(s.pmin[b]), FR(s.pmax[b]))) for b in kept_axes]
    got = {name: [(FR(s.pmin[b]), FR(s.pmax[b])) for b in range(len(kept_axes))] for name, s in gm.subregions.items()}
    for name in set(expect) | set(got):
        if name in expect and expect[name] is None:
            continue
        if (name in expect) != (name in got):
            fail(f"{what}: subregion {name} {'dropped' if name in expect else 'kept'}; it {'shares' if name in expect else 'does not share'} "
                 f"whole cells with the selection")
            return False
        for gb, ((e1, e2), (g1, g2)) in enumerate(zip(expect[name], got[name])):
            sl = ctx.slack(kept_axes[gb])
            if abs(e1 - g1) > sl or abs(e2 - g2) > sl:
                fail(f"{what}: subregion {name} along result axis {gb} is [{float(g1)}, {float(g2)}], the overlap with the selection is "
                     f"[{float(e1)}, {float(e2)}]")
                return False
    return True


def sub_json(m):
    return sorted((k, Qs(s.pmin), Qs(s.pmax)) for k, s in m.subregions.items())


def run_getitem(ctx, op, r, fail):
    f, mesh = ctx.f, ctx.mesh
    if op["op"] == "getname":
        item = op["name"]
        what = f"[{item!r}]"
        expect = "ok" if item in mesh.subregions else "err"
        box = (mesh.subregions[item].pmin, mesh.subregions[item].pmax) if expect == "ok" else None
    else:
        item = df.Region(p1=op["p1"], p2=op["p2"])
        what = f"[Region({op['p1']}, {op['p2']})]"
        inside = all(mesh.region.pmin[a] <= item.pmin[a] and item.pmax[a] <= mesh.region.pmax[a] for a in range(ctx.ndim))
        # outside = some corner lies beyond the boundary by clearly more (4x) than the region's own allowance for
        # "inside" (tolerance_factor x (shortest edge + |coordinate|)); in between the answer is left open
        outside = any(ctx.lo[a] - FR(item.pmin[a]) > 4 * ctx.reg_tol(item.pmin[a]) or
                      FR(item.pmax[a]) - ctx.hi[a] > 4 * ctx.reg_tol(item.pmax[a]) for a in range(ctx.ndim))
        expect = "ok" if inside else ("err" if outside else None)
        box = (item.pmin, item.pmax)
    r["mesh"] = attempt(lambda: mesh[item])
    r["field"] = attempt(lambda: f[item])
    r["expect"] = expect
    for k in ("mesh", "field"):
        if expect is not None and r[k][0] != expect:
            marker = ""
            if expect == "ok" and op["op"] == "getregion" and "IndexError" in r[k][1] and \
                    any(item.pmax[a] == mesh.region.pmax[a] for a in range(ctx.ndim)):
                marker = " [box-touches-upper-boundary]"
            fail(f"{what}: {'in-region' if expect == 'ok' else 'outside'} request "
                 f"{'rejected' if r[k][0] == 'err' else 'accepted'} by {k} ({r[k][1] if r[k][0] == 'err' else ''}){marker}")
            return
    if r["field"][0] != "ok" or expect != "ok":
        return
    g = r["field"][1]
    if not (r["mesh"][1] == g.mesh):
        fail(f"{what}: mesh[item] and field[item].mesh differ")
        return
    if list(g.mesh.region.dims) != ctx.dims or list(g.mesh.region.units) != list(mesh.region.units):
        fail(f"{what}: dims/units changed")
        return
    if not aligned_with_source(ctx, g.mesh, [(b, b) for b in range(ctx.ndim)], fail, what):
        return
    for a in range(ctx.ndim):
        sl = ctx.slack(a)
        gp1, gp2 = FR(g.mesh.region.pmin[a]), FR(g.mesh.region.pmax[a])
        b1, b2 = FR(box[0][a]), FR(box[1][a])
        if op["op"] == "getname":
            if (gp1, gp2) != (b1, b2):
                fail(f"{what}: mesh of the subregion is [{float(gp1)}, {float(gp2)}] along axis {a}, the subregion is [{float(b1)}, {float(b2)}]")
                return
            continue
        c = ctx.c[a]
        # contains the box, made of whole cells (alignment above), and no boundary layer can be removed
        if not (gp1 <= b1 + sl and b2 <= gp2 + sl):
            fail(f"{what}: block [{float(gp1)}, {float(gp2)}] does not contain the box [{float(b1)}, {float(b2)}] along axis {a}")
            return
        if not (gp1 + c > b1 - sl and gp2 - c < b2 + sl):
            fail(f"{what}: block [{float(gp1)}, {float(gp2)}] (cell {float(c)}) is not the smallest block of whole cells containing "
                 f"[{float(b1)}, {float(b2)}] along axis {a}")
            return
        if gp1 < ctx.lo[a] - sl or gp2 > ctx.hi[a] + sl:
            fail(f"{what}: block leaves the source region along axis {a}")
            return
    same_values(ctx, g.array, g.valid, g.mesh, lambda q: list(map(float, q)), fail, what)


def run_r2s(ctx, op, r, fail):
    mesh = ctx.mesh
    reg = df.Region(p1=op["p1"], p2=op["p2"])
    r["slices"] = attempt(lambda: [(int(s.start), int(s.stop)) for s in mesh.region2slices(reg)])
    what = f"region2slices(Region({op['p1']}, {op['p2']}))"
    # aligned sub-box inside the region: exactly the cells whose centre lies in the box
    al = True
    for a in range(ctx.ndim):
        for v in (reg.pmin[a], reg.pmax[a]):
            q = (FR(v) - ctx.lo[a]) / ctx.c[a]
            d = abs(q - round(q))
            if (d != 0 if ctx.exact else d > Fraction(1, 10**9)) or not (-Fraction(1, 10**6) <= q <= ctx.n[a] + Fraction(1, 10**6)):
                al = False
        if round((FR(reg.pmax[a]) - ctx.lo[a]) / ctx.c[a]) <= round((FR(reg.pmin[a]) - ctx.lo[a]) / ctx.c[a]):
            al = False  # both corners at the same face: not a box of whole cells
    r["aligned"] = al
    if not al:
        return
    if r["slices"][0] != "ok":
        fail(f"{what}: aligned in-region box rejected ({r['slices'][1]})")
        return
    for a, (s, e) in enumerate(r["slices"][1]):
        for i in range(ctx.n[a]):
            centre = ctx.lo[a] + (i + Fraction(1, 2)) * ctx.c[a]
            inbox = FR(reg.pmin[a]) <= centre <= FR(reg.pmax[a])
            if inbox != (s <= i < e):
                fail(f"{what}: slice {s}:{e} along axis {a} {'misses' if inbox else 'includes'} cell {i} whose centre "
                     f"{float(centre)} is {'inside' if inbox else 'outside'} the box")
                return


def run_pad(ctx, op, r, fail):
    f, mesh = ctx.f, ctx.mesh
    pw = {d: (lo, hi) for d, lo, hi in op["pad"]}
    mode = op["mode"]
    raw = op.get("raw")  # malformed widths / mode: Field.pad must refuse (Mesh.pad alone is not judged)
    if raw:
        pw = {d: RAW_PAD.get(raw, (lo, hi)) for d, lo, hi in op["pad"]}
        mode = "nosuch" if raw == "badmode" else mode
    r["mesh"] = attempt(lambda: mesh.pad(pw))
    r["field"] = attempt(lambda: f.pad(pw, mode=mode))
    what = f"pad({pw}, {mode})"
    valid_req = not raw and all(d in ctx.dims for d in pw) and all(lo >= 0 and hi >= 0 for lo, hi in pw.values())
    r["expect"] = "ok" if valid_req else "err"
    if r["field"][0] != r["expect"]:
        fail(f"{what}: {'valid' if valid_req else 'malformed'} request {'rejected' if r['field'][0] == 'err' else 'accepted'} ({r['field'][1] if r['field'][0] == 'err' else ''})")
        return
    if not valid_req:
        return
    if r["mesh"][0] != "ok":
        fail(f"{what}: Mesh.pad rejected a valid request ({r['mesh'][1]})")
        return
    g = r["field"][1]
    if not (r["mesh"][1] == g.mesh and r["mesh"][1].bc == g.mesh.bc):
        fail(f"{what}: Mesh.pad and Field.pad(...).mesh differ")
        return
    w = [pw.get(d, (0, 0)) for d in ctx.dims]
    if list(g.mesh.region.dims) != ctx.dims or list(g.mesh.region.units) != list(mesh.region.units) or g.mesh.bc != mesh.bc:
        fail(f"{what}: dims/units/bc changed")
        return
    for a in range(ctx.ndim):
        sl = ctx.slack(a)
        if int(g.mesh.n[a]) != ctx.n[a] + w[a][0] + w[a][1]:
            fail(f"{what}: n along axis {a} is {g.mesh.n[a]}, expected {ctx.n[a]} + {w[a][0]} + {w[a][1]}")
            return
        if abs(FR(g.mesh.region.pmin[a]) - (ctx.lo[a] - w[a][0] * ctx.c[a])) > sl or \
                abs(FR(g.mesh.region.pmax[a]) - (ctx.hi[a] + w[a][1] * ctx.c[a])) > sl:
            fail(f"{what}: corners along axis {a} are [{g.mesh.region.pmin[a]}, {g.mesh.region.pmax[a]}], expected whole cells added")
            return
    if not aligned_with_source(ctx, g.mesh, [(b, b) for b in range(ctx.ndim)], fail, what):
        return
    # cells whose centre is inside the source: the source's value at that point
    def src_point(q):
        p = list(map(float, q))
        return p if all(mesh.region.pmin[a] <= p[a] <= mesh.region.pmax[a] for a in range(ctx.ndim)) else None

    if not same_values(ctx, g.array, g.valid, g.mesh, src_point, fail, what):
        return
    # cells outside follow the padding mode (stated on cell numbers relative to the source's first cell)
    for j in itertools.product(*[range(int(k)) for k in g.mesh.n]):
        src = [pad_rule_index(mode, ctx.n[a], w[a][0], j[a]) for a in range(ctx.ndim)]
        if all(0 <= j[a] - w[a][0] < ctx.n[a] for a in range(ctx.ndim)):
            continue
        if any(s is None for s in src):
            ev, ok = np.zeros(f.nvdim), False
        else:
            ev, ok = f.array[tuple(src)], bool(f.valid[tuple(src)])
        if not np.array_equal(g.array[j], ev) or bool(g.valid[j]) != ok:
            fail(f"{what}: padding cell {j} holds {g.array[j].tolist()}/{bool(g.valid[j])}, mode {mode} demands {np.asarray(ev).tolist()}/{ok} (source cell {src})")
            return


def run_resample(ctx, op, r, fail):
    f, mesh = ctx.f, ctx.mesh
    n = op["n"]
    r["field"] = attempt(lambda: f.resample(n))
    what = f"resample({n})"
    valid_req = isinstance(n, list) and len(n) == ctx.ndim and all(isinstance(k, int) and k > 0 for k in n)
    r["expect"] = "ok" if valid_req else "err"
    if r["field"][0] != r["expect"]:
        fail(f"{what}: {'valid' if valid_req else 'malformed'} request {'rejected' if r['field'][0] == 'err' else 'accepted'} ({r['field'][1] if r['field'][0] == 'err' else ''})")
        return
    if not valid_req:
        return
    g = r["field"][1]
    if not (g.mesh.region == mesh.region and np.array_equal(g.mesh.region.pmin, mesh.region.pmin)
            and np.array_equal(g.mesh.region.pmax, mesh.region.pmax) and list(g.mesh.region.dims) == ctx.dims
            and list(g.mesh.region.units) == list(mesh.region.units)):
        fail(f"{what}: region changed")
        return
    if [int(k) for k in g.mesh.n] != list(n):
        fail(f"{what}: n is {g.mesh.n}")
        return

    # exact lookup only when the target cell is dyadic too (np.linspace of the target centres is then exact);
    # otherwise a target centre within tolerance of a source face may fall to either neighbour
    dyadic = ctx.exact and all(((ctx.hi[a] - ctx.lo[a]) / n[a]).denominator & (((ctx.hi[a] - ctx.lo[a]) / n[a]).denominator - 1) == 0
                               for a in range(ctx.ndim))
    r["dyadic"] = dyadic
    amb = {}
    if not dyadic:
        for j in itertools.product(*[range(int(k)) for k in g.mesh.n]):
            q = g.mesh.index2point(j)
            amb[j] = any(ctx.ambiguous(a, q[a], force=True) for a in range(ctx.ndim))
    r["amb"] = amb
    same_values(ctx, g.array, g.valid, g.mesh, lambda q: list(map(float, q)), fail, what,
                skip=None if dyadic else (lambda j, q: amb[j]))
    if list(n) == ctx.n and not (np.array_equal(g.array, f.array) and np.array_equal(g.valid, f.valid)):
        fail(f"{what}: resampling to the same cell counts changed the field")


RAW_PAD = {"float": (1.5, 1), "len1": (1,), "len3": (1, 1, 1), "str": "ab", "scalar": 1, "none": None}
BAD_ITEMS = ["int", "none", "tuple", "float", "list", "slice", "mesh", "reg-lessdim", "reg-moredim"]


def run_getbad(ctx, op, r, fail):
    """items that are neither a subregion name nor a region of the mesh's dimension: both lookups must refuse"""
    f, mesh = ctx.f, ctx.mesh
    kind = op["kind"]
    mid = [float(x) for x in mesh.region.center]
    half = [float(x) / 4 for x in mesh.region.edges]
    if kind == "reg-lessdim":
        item = df.Region(p1=[m - h for m, h in zip(mid[1:], half[1:])], p2=[m + h for m, h in zip(mid[1:], half[1:])])
    elif kind == "reg-moredim":
        item = df.Region(p1=[m - h for m, h in zip(mid + mid[:1], half + half[:1])],
                         p2=[m + h for m, h in zip(mid + mid[:1], half + half[:1])])
    else:
        item = {"int": 5, "none": None, "tuple": (1.0, 2.0), "float": 1.5, "list": [1, 2], "slice": slice(1, 2), "mesh": mesh}[kind]
    r["mesh"] = attempt(lambda: mesh[item])
    r["field"] = attempt(lambda: f[item])
    r["expect"] = "err"
    for k in ("mesh", "field"):
        if r[k][0] != "err":
            fail(f"[{kind} item]: malformed request accepted by {k}")


NONFINITE = {"inf": float("inf"), "-inf": float("-inf"), "nan": float("nan")}


def nonfinite_ops(rng, spec, count=2):
    """requests at +-inf / nan: not inside any region, so every lookup must refuse them. The model carries them as
    extended coordinates (ExtRat, IEEE comparisons; theorems sel_nonfinite_rejected, getitem_nonfinite_rejected,
    point2index_ext): judged by the oracle on the real code AND compared with the model, call by call; a few finite
    control requests go through the same extended driver ops."""
    dims = dims_of(spec)
    ops = []
    for v in rng.sample(list(NONFINITE), count):
        ax = rng.randrange(len(dims))
        ops.append(dict(op="nonfinite", dim=dims[ax], ax=ax, v=v, np=rng.random() < 0.5,
                        tag="nonfinite-" + v, xt=["nonfinite:" + v]))
    return ops


def nonfinite_calls(ctx, op, mjson=None, fjson=None):
    """[(name, real call, model request or None (= judged with the previous response), must be refused)]"""
    f, mesh = ctx.f, ctx.mesh
    v = NONFINITE[op["v"]]
    if op.get("np"):
        v = np.float64(v)
    ax, d = op["ax"], op["dim"]
    x = float(mesh.region.center[ax])
    lo = [float(t) for t in mesh.region.pmin]
    hi = [float(t) for t in mesh.region.pmax]
    mid = [float(t) for t in mesh.region.center]
    pt = list(mid)
    pt[ax] = v
    hi2 = list(hi)
    hi2[ax] = v
    lo2 = list(lo)
    lo2[ax] = v
    mj = lambda: mjson
    fj = lambda: fjson
    E = Q   # core.Q writes non-finite floats as "inf" / "-inf" / "nan", the driver's encoding of ExtRat
    return [
        ("conv(point)", lambda: mesh._sel_convert_input(**{d: v}), lambda: dict(op="sel_convert_e", mesh=mj(), dim=d, arg={"point": E(v)}), True),
        ("mesh.sel(point)", lambda: mesh.sel(**{d: v}), lambda: dict(op="mesh_sel_e", mesh=mj(), dim=d, arg={"point": E(v)}), True),
        ("field.sel(point)", lambda: f.sel(**{d: v}), lambda: dict(op="field_sel_e", field=fj(), dim=d, arg={"point": E(v)}), True),
        ("mesh.sel(range hi)", lambda: mesh.sel(**{d: (x, v)}), lambda: dict(op="mesh_sel_e", mesh=mj(), dim=d, arg={"range": [E(x), E(v)]}), True),
        ("field.sel(range hi)", lambda: f.sel(**{d: (x, v)}), None, True),
        ("mesh.sel(range lo)", lambda: mesh.sel(**{d: (v, x)}), lambda: dict(op="mesh_sel_e", mesh=mj(), dim=d, arg={"range": [E(v), E(x)]}), True),
        ("field.sel(range lo)", lambda: f.sel(**{d: (v, x)}), None, True),
        ("mesh[region hi]", lambda: mesh[df.Region(p1=lo, p2=hi2)], lambda: dict(op="mesh_getitem_e", mesh=mj(), p1=Qs(lo), p2=Qs(hi2)), True),
        ("field[region hi]", lambda: f[df.Region(p1=lo, p2=hi2)], lambda: dict(op="field_getitem_e", field=fj(), p1=Qs(lo), p2=Qs(hi2)), True),
        ("mesh[region lo]", lambda: mesh[df.Region(p1=lo2, p2=hi)], lambda: dict(op="mesh_getitem_e", mesh=mj(), p1=Qs(lo2), p2=Qs(hi)), True),
        ("mesh.region2slices", lambda: mesh.region2slices(df.Region(p1=lo, p2=hi2)), lambda: dict(op="region2slices_e", mesh=mj(), p1=Qs(lo), p2=Qs(hi2)), True),
        ("mesh.region2slices lo", lambda: mesh.region2slices(df.Region(p1=lo2, p2=hi)), lambda: dict(op="region2slices_e", mesh=mj(), p1=Qs(lo2), p2=Qs(hi)), True),
        ("mesh.point2index", lambda: mesh.point2index(pt), lambda: dict(op="point2index_e", mesh=mj(), point=Qs(pt)), True),
        ("field(point)", lambda: f(pt), None, True),
        # finite controls through the same extended driver ops (compared with the model only)
        ("ctl mesh.sel(point)", lambda: mesh.sel(**{d: x}), lambda: dict(op="mesh_sel_e", mesh=mj(), dim=d, arg={"point": E(x)}), False),
        ("ctl mesh.point2index", lambda: mesh.point2index(mid), lambda: dict(op="point2index_e", mesh=mj(), point=Qs(mid)), False),
        ("ctl mesh[region]", lambda: mesh[df.Region(p1=lo, p2=hi)], lambda: dict(op="mesh_getitem_e", mesh=mj(), p1=Qs(lo), p2=Qs(hi)), False),
        ("ctl mesh.region2slices", lambda: mesh.region2slices(df.Region(p1=lo, p2=hi)), lambda: dict(op="region2slices_e", mesh=mj(), p1=Qs(lo), p2=Qs(hi)), False),
    ]


N_NONFINITE_REQ = 15


def run_nonfinite(ctx, op, r, fail):
    r["expect"] = "err"
    r["calls"] = {}
    for name, fn, _req, refuse in nonfinite_calls(ctx, op):
        got = attempt(fn)
        r["calls"][name] = got
        if refuse and got[0] != "err":
            fail(f"[{op['v']} along {op['dim']}] {name}: a request at a non-finite coordinate (outside every region) was accepted")


RUNNERS = {"nonfinite": run_nonfinite, "getbad": run_getbad, "sel": run_sel, "getname": run_getitem, "getregion": run_getitem, "r2s": run_r2s, "pad": run_pad,
           "resample": run_resample}


def run_impl(case):
    obs = {"oracle": [], "tags": [f"regime:{case['regime']}", f"fam:{case['fam']}", f"stream:{case.get('stream', 'base')}"], "res": []}
    try:
        ctx = Ctx(case)
    except Exception as e:
        if case["regime"] == "tol":  # the generated mesh / subregions were refused by the constructors: not a C07 matter
            obs["tags"].append("gen-reject")
            obs["skip"] = True
            return obs
        raise
    obs["ctx"] = ctx
    f = ctx.f
    snap = (f.array.copy(), f.valid.copy())
    obs["field_json"] = field_json_real(f)
    meta = case.get("meta")
    # a labelled vector field whose labels were removed keeps a mapping keyed by the old labels; the constructor
    # call at the end of every operation then refuses the mapping, whatever the request (recorded, compared with
    # the model, not judged by the position oracle)
    stale = bool(meta) and meta["state"] == "vector-stale"
    if meta:
        obs["tags"] += ["meta:" + meta["state"], "dtype:" + meta["dtype"]]
        obs["src_kind"] = kind_of(f.array)
    obs["tags"] += [f"ndim:{ctx.ndim}", f"nvdim:{f.nvdim}", f"subs:{len(case.get('subs', []))}",
                    "corners:" + ("int" if f.mesh.region.pmin.dtype.kind == "i" else "float")]
    tf = case["mesh"].get("tol")
    obs["tags"] += [ctx.hist_tag, "tolerance_factor:" + ("default" if tf is None else repr(tf)),
                    "cellscale:1e%+03d" % int(math.floor(math.log10(float(min(ctx.c))))),
                    "cells-along-longest-axis:" + ("thousands" if max(ctx.n) >= 1000 else "tens" if max(ctx.n) >= 10 else "units"),
                    "offset-in-cells:" + ("far(>=1e3)" if max(abs(l) / c for l, c in zip(ctx.lo, ctx.c)) >= 1000 else "near")]
    nontriv = False
    for k, op in enumerate(case["ops"]):
        r = {}
        fails = []
        RUNNERS[op["op"]](ctx, op, r, (lambda t: None) if stale else fails.append)
        if meta:
            fr0 = r.get("field")
            if fr0 and fr0[0] == "ok" and isinstance(fr0[1], df.Field):
                g0 = fr0[1]
                r["kind"] = kind_of(g0.array)
                if kind_of(g0.valid) != "b" or g0.valid.shape != tuple(int(v) for v in g0.mesh.n) or \
                        g0.array.shape != tuple(int(v) for v in g0.mesh.n) + (f.nvdim,):
                    fails.append(f"{op['op']}: validity mask / value array of the result do not have the shape of its mesh "
                                 f"(valid {g0.valid.dtype} {g0.valid.shape}, array {g0.array.shape}, n {g0.mesh.n})")
        for t in fails:
            t = f"op {k}: {t}"
            obs["oracle"].append(t)
        obs["res"].append(r)
        obs["tags"].append("op:" + op.get("tag", op["op"]).split("-")[0] + ":" + (r.get("expect") or "any"))
        obs["tags"] += op.get("xt", [])
        if op.get("nomodel"):
            obs["tags"].append("oracle-only-op")
        if op["op"] == "pad" and r.get("expect") == "ok":
            obs["tags"].append("mode:" + op["mode"])
        fr = r.get("field")
        if fr and fr[0] == "ok" and ((isinstance(fr[1], df.Field) and (len(fr[1].mesh) >= 2 or len(f.mesh) >= 2))):
            nontriv = True
        if op["op"] == "r2s" and r.get("aligned"):
            nontriv = True
    if not (np.array_equal(snap[0], f.array) and np.array_equal(snap[1], f.valid)):
        obs["oracle"].append("an operation modified its operand")
    obs["nontrivial"] = nontriv
    return obs


# ------------------------------------------------------------------------------ model side
def arg_json(arg):
    if arg is None:
        return None
    if isinstance(arg, str):  # every malformed request is the model's `SelArg.bad`
        return {"range": ["0", "1", "2"]} if arg == "bad3" else {"str": "a"}
    if "point" in arg:
        return {"point": Q(arg["point"])}
    return {"range": Qs(arg["range"])}


def box_region_json(ctx, op):
    reg = df.Region(p1=op["p1"], p2=op["p2"])
    return fieldio.region_json(reg)


def model_requests(case, obs):
    if obs.get("skip") or "ctx" not in obs:
        return []
    ctx = obs["ctx"]
    fj = obs["field_json"]
    mj = fj["mesh"]
    reqs = []
    for op in case["ops"]:
        kind = op["op"]
        if nreq(op) == 0:
            continue
        if kind == "nonfinite":
            reqs += [mk() for _name, _fn, mk, _refuse in nonfinite_calls(ctx, op, mj, fj) if mk is not None]
        elif kind == "sel" and op["arg"] in NONFIN_SEL:
            # malformed-stream requests with a non-finite value: sent as they are (extended coordinates), not as `bad`
            x = Q(op.get("x", 0.0))
            a = {"nan": {"point": "nan"}, "inf": {"point": "inf"}, "-inf": {"point": "-inf"}, "rginf": {"range": [x, "inf"]},
                 "rg-inf": {"range": ["-inf", x]}, "rgnan": {"range": ["nan", x]}, "rgnan2": {"range": [x, "nan"]}}[op["arg"]]
            reqs.append(dict(op="sel_convert_e", mesh=mj, dim=op["dim"], arg=a))
            reqs.append(dict(op="mesh_sel_e", mesh=mj, dim=op["dim"], arg=a))
            reqs.append(dict(op="field_sel_e", field=fj, dim=op["dim"], arg=a))
        elif kind == "sel":
            a = arg_json(op["arg"])
            reqs.append(dict(op="sel_convert", mesh=mj, dim=op["dim"], arg=a))
            reqs.append(dict(op="mesh_sel", mesh=mj, dim=op["dim"], arg=a))
            reqs.append(dict(op="field_sel", field=fj, dim=op["dim"], arg=a))
        elif kind == "getname":
            reqs.append(dict(op="mesh_getitem", mesh=mj, item={"name": op["name"]}))
            reqs.append(dict(op="field_getitem", field=fj, item={"name": op["name"]}))
        elif kind == "getregion":
            rj = box_region_json(ctx, op)
            reqs.append(dict(op="mesh_getitem", mesh=mj, item={"region": rj}))
            reqs.append(dict(op="field_getitem", field=fj, item={"region": rj}))
        elif kind == "r2s":
            reqs.append(dict(op="region2slices", mesh=mj, region=box_region_json(ctx, op)))
        elif kind == "pad":
            pw = [dict(dim=d, lo=lo, hi=hi) for d, lo, hi in op["pad"]]
            reqs.append(dict(op="mesh_pad", mesh=mj, pad=pw))
            reqs.append(dict(op="field_pad", field=fj, pad=pw, mode=op["mode"]))
        elif kind == "resample":
            reqs.append(dict(op="resample_fast" if op.get("fast") else "resample", field=fj, n=op["n"]))
        if case.get("meta"):
            reqs.append(dict(op="result_kind", fam=FAM_OF[kind], kind=obs["src_kind"]))
    return reqs


FAM_OF = {"sel": "sel", "getname": "getitem", "getregion": "getitem", "pad": "pad", "resample": "resample", "r2s": "getitem"}


NREQ = {"sel": 3, "getname": 2, "getregion": 2, "r2s": 1, "pad": 2, "resample": 1, "getbad": 0, "nonfinite": N_NONFINITE_REQ}
NONFIN_SEL = ("nan", "inf", "-inf", "rginf", "rg-inf", "rgnan", "rgnan2")


def nreq(op):
    """number of model requests of an operation; `nomodel` operations are judged by the oracle on the real code alone
    (requests the driver protocol cannot express, resampling FROM thousands of cells)"""
    return 0 if op.get("nomodel") else NREQ[op["op"]]


def okerr(resp):
    return "ok" if "ok" in resp else "err"


def cmp_mesh(ctx, name, m, mj, dis, loose_axes=(), check_subs=True):
    """real Mesh m against model mesh JSON mj; on loose axes (ambiguous decision) geometry may differ by one cell"""
    got = fieldio.mesh_json(m)
    gr, mr = got["region"], mj["region"]
    if len(got["n"]) != len(mj["n"]):
        dis.append(f"{name}: ndim impl {len(got['n'])} vs model {len(mj['n'])}")
        return False
    if gr["dims"] != mr["dims"] or gr["units"] != mr["units"]:
        dis.append(f"{name}: dims/units impl {gr['dims']}/{gr['units']} vs model {mr['dims']}/{mr['units']}")
    if got["bc"] != mj["bc"]:
        dis.append(f"{name}: bc impl {got['bc']!r} vs model {mj['bc']!r}")
    if F(gr["tol"]) != F(mr["tol"]):
        dis.append(f"{name}: tolerance_factor impl {gr['tol']} vs model {mr['tol']}")
    ok = True
    for a in range(len(got["n"])):
        cell = (F(mr["pmax"][a]) - F(mr["pmin"][a])) / max(1, mj["n"][a])
        if a in loose_axes:
            if abs(got["n"][a] - mj["n"][a]) > 2 or abs(F(gr["pmin"][a]) - F(mr["pmin"][a])) > cell * Fraction(1001, 1000) or \
                    abs(F(gr["pmax"][a]) - F(mr["pmax"][a])) > cell * Fraction(1001, 1000):
                dis.append(f"{name}: axis {a} (face-ambiguous) impl [{gr['pmin'][a]}, {gr['pmax'][a]}] n={got['n'][a]} vs model "
                           f"[{mr['pmin'][a]}, {mr['pmax'][a]}] n={mj['n'][a]}: more than one cell apart")
                ok = False
            elif got["n"][a] != mj["n"][a] or abs(F(gr["pmin"][a]) - F(mr["pmin"][a])) > cell / 2:
                ok = False  # legitimately different neighbour: values cannot be compared cell by cell
            continue
        if got["n"][a] != mj["n"][a]:
            dis.append(f"{name}: n[{a}] impl {got['n'][a]} vs model {mj['n'][a]}")
            ok = False
            continue
        for key in ("pmin", "pmax"):
            x, y = F(gr[key][a]), F(mr[key][a])
            bad = (x != y) if ctx.exact else abs(x - y) > Fraction(1, 2**40) * (abs(y) + cell * mj["n"][a])
            if bad:
                dis.append(f"{name}: {key}[{a}] impl {float(x)!r} vs model {float(y)!r}")
                ok = False
    if check_subs and ok:
        gs = {s["name"]: s for s in got["subs"]}
        ms = {s["name"]: s for s in mj["subs"]}
        if [s["name"] for s in got["subs"]] != [s["name"] for s in mj["subs"]]:
            if ctx.exact or not loose_axes:
                dis.append(f"{name}: subregions impl {[s['name'] for s in got['subs']]} vs model {[s['name'] for s in mj['subs']]}")
            return ok
        for k in gs:
            for key in ("pmin", "pmax"):
                for a, (x, y) in enumerate(zip(gs[k][key], ms[k][key])):
                    x, y = F(x), F(y)
                    bad = (x != y) if ctx.exact else abs(x - y) > Fraction(1, 2**40) * (abs(y) + abs(F(mr["pmax"][a]) - F(mr["pmin"][a])))
                    if bad and not (a in loose_axes):
                        dis.append(f"{name}: subregion {k} {key}[{a}] impl {float(x)!r} vs model {float(y)!r}")
            if gs[k]["dims"] != ms[k]["dims"] or gs[k]["units"] != ms[k]["units"]:
                dis.append(f"{name}: subregion {k} dims/units impl {gs[k]['dims']}/{gs[k]['units']} vs model {ms[k]['dims']}/{ms[k]['units']}")
    return ok


def cmp_field_data(name, g, mj, dis, only=None):
    got = field_json_real(g)
    for key, label in (("nvdim", "nvdim"), ("vdims", "vdims"), ("unit", "unit")):
        if got[key] != mj[key]:
            dis.append(f"{name}: {label} impl {got[key]} vs model {mj[key]}")
    if sorted(map(tuple, got["vmap"])) != sorted(map(tuple, mj["vmap"])):
        dis.append(f"{name}: vdim_mapping impl {got['vmap']} vs model {mj['vmap']}")
    if len(got["data"]) != len(mj["data"]) or len(got["valid"]) != len(mj["valid"]):
        dis.append(f"{name}: cell count impl {len(got['data'])} vs model {len(mj['data'])}")
        return
    for k in range(len(got["data"])):
        if only is not None and not only[k]:
            continue
        if [F(x) for x in got["data"][k]] != [F(x) for x in mj["data"][k]]:
            dis.append(f"{name}: value at flat cell {k}: impl {got['data'][k]} vs model {mj['data'][k]}")
            return
        if got["valid"][k] != mj["valid"][k]:
            dis.append(f"{name}: validity at flat cell {k}: impl {got['valid'][k]} vs model {mj['valid'][k]}")
            return


def compare(case, obs, rs):
    if obs.get("skip") or "ctx" not in obs:
        return []
    ctx = obs["ctx"]
    dis = []
    pos = 0
    for k, (op, r) in enumerate(zip(case["ops"], obs["res"])):
        if nreq(op) == 0:
            continue
        resp = rs[pos:pos + NREQ[op["op"]]]
        pos += NREQ[op["op"]]
        name = f"op {k} {op['op']}"
        kind = op["op"]
        if case.get("meta"):
            kresp = rs[pos]
            pos += 1
            if "kind" in r and r["kind"] != kresp.get("ok"):
                dis.append(f"{name}: element type of the result is kind {r['kind']!r} for a source of kind "
                           f"{obs['src_kind']!r}, the model says {kresp.get('ok')!r}")
        d0 = len(dis)
        if kind == "nonfinite":
            name += f"({op['v']} along {op['dim']})"
            it = iter(resp)
            last = None
            for cname, _fn, mk, _refuse in nonfinite_calls(ctx, op):
                if mk is not None:
                    last = next(it)
                got = r["calls"][cname]
                if got[0] != okerr(last):
                    dis.append(f"{name} {cname}: impl {got[0]} ({got[1] if got[0] == 'err' else ''}) vs model {okerr(last)}")
            continue
        if kind == "sel":
            name += f"({op['dim']}={op['arg']})"
            ax = r.get("ax")
            arg = op["arg"]
            xs = []
            if ax is not None and not isinstance(arg, str):
                xs = [ctx.mesh.region.center[ax]] if arg is None else ([arg["point"]] if "point" in arg else list(arg["range"]))
            amb = ax is not None and any(ctx.ambiguous(ax, x) for x in xs)
            is_range = isinstance(arg, dict) and "range" in arg
            near_sub = False
            for key, rp in zip(("conv", "mesh", "field"), resp):
                if r[key][0] != okerr(rp):
                    if near_sub and key != "conv" and r[key][0] == "ok":
                        continue
                    dis.append(f"{name}: {key} impl {r[key][0]} ({r[key][1] if r[key][0] == 'err' else ''}) vs model {okerr(rp)}"
                               + (" [range-selection-next-to-subregion-face]" if (r[key][0] == "err" and "Subregion" in str(r[key][1]) and case.get("subs")) else ""))
            if len(dis) > d0 or r["conv"][0] != "ok":
                continue
            conv, mc = r["conv"][1], resp[0]["ok"]
            if int(conv[1]) != mc["axis"]:
                dis.append(f"{name}: axis impl {conv[1]} vs model {mc['axis']}")
                continue
            sel_i = conv[3]
            ik = [int(sel_i)] if mc["kind"] == "plane" else [int(sel_i.start), int(sel_i.stop) - 1]
            ic = [conv[2]] if mc["kind"] == "plane" else list(conv[2])
            same_idx = ik == mc["k"]
            if not same_idx and not (amb and all(abs(a - b) <= 1 for a, b in zip(ik, mc["k"]))):
                dis.append(f"{name}: selection index impl {ik} vs model {mc['k']}")
                continue
            if same_idx:
                for x, y in zip(ic, mc["c"]):
                    if (FR(x) != F(y)) if ctx.exact else not core.close(x, y, rel=2**-40, scale=float(abs(ctx.lo[ax]) + abs(ctx.hi[ax]))):
                        dis.append(f"{name}: selected centre impl {float(x)!r} vs model {y}")
            loose = (ax,) if (amb and is_range) else ()
            subs_ok = not near_sub and (same_idx or is_range)
            if r["mesh"][0] == "ok" and "ok" in resp[1]:
                cmp_mesh(ctx, name + " Mesh.sel", r["mesh"][1], resp[1]["ok"], dis, loose_axes=loose, check_subs=subs_ok)
            if r["field"][0] != "ok" or "ok" not in resp[2]:
                continue
            g = r["field"][1]
            mf = resp[2]["ok"]
            if isinstance(g, np.ndarray):
                if "values" not in mf:
                    dis.append(f"{name}: impl returned a bare array, model a field")
                elif same_idx and [FR(x.real if isinstance(x, complex) and x.imag == 0 else x) for x in g.tolist()] \
                        != [F(x) for x in mf["values"]]:
                    dis.append(f"{name}: values impl {g.tolist()} vs model {mf['values']}")
            else:
                if "field" not in mf:
                    dis.append(f"{name}: impl returned a field, model a bare array")
                    continue
                if cmp_mesh(ctx, name + " Field.sel mesh", g.mesh, mf["field"]["mesh"], dis, loose_axes=loose, check_subs=subs_ok) and same_idx:
                    cmp_field_data(name, g, mf["field"], dis)
        elif kind in ("getname", "getregion"):
            name += f"({op.get('name') or [op['p1'], op['p2']]})"
            amb_axes = ()
            if kind == "getregion":
                reg = df.Region(p1=op["p1"], p2=op["p2"])
                amb_axes = tuple(a for a in range(ctx.ndim) if ctx.ambiguous(a, reg.pmin[a]) or ctx.ambiguous(a, reg.pmax[a]))
            for key, rp in zip(("mesh", "field"), resp):
                if r[key][0] != okerr(rp):
                    mark = " [box-touches-upper-boundary]" if (r[key][0] == "err" and "IndexError" in str(r[key][1]) and kind == "getregion"
                                                             and any(reg.pmax[a] == ctx.mesh.region.pmax[a] for a in range(ctx.ndim))) else ""
                    dis.append(f"{name}: {key} impl {r[key][0]} ({r[key][1] if r[key][0] == 'err' else ''}) vs model {okerr(rp)}{mark}")
            if len(dis) > d0 or r["field"][0] != "ok":
                continue
            cmp_mesh(ctx, name + " mesh[item]", r["mesh"][1], resp[0]["ok"], dis, loose_axes=amb_axes)
            g = r["field"][1]
            if cmp_mesh(ctx, name + " field[item].mesh", g.mesh, resp[1]["ok"]["mesh"], dis, loose_axes=amb_axes):
                cmp_field_data(name, g, resp[1]["ok"], dis)
        elif kind == "r2s":
            name += f"({[op['p1'], op['p2']]})"
            reg = df.Region(p1=op["p1"], p2=op["p2"])
            half = [ctx.mesh.cell[a] / 2 for a in range(ctx.ndim)]
            amb = [ctx.ambiguous(a, float(reg.pmin[a]) + half[a]) or ctx.ambiguous(a, float(reg.pmax[a]) - half[a]) for a in range(ctx.ndim)]
            near_edge = (not ctx.exact) and any(
                abs(FR(reg.pmin[a]) + ctx.c[a] / 2 - b) <= ctx.slack(a) or abs(FR(reg.pmax[a]) - ctx.c[a] / 2 - b) <= ctx.slack(a)
                for a in range(ctx.ndim) for b in (ctx.lo[a], ctx.hi[a]))
            if r["slices"][0] != okerr(resp[0]):
                if not near_edge:
                    dis.append(f"{name}: impl {r['slices'][0]} ({r['slices'][1] if r['slices'][0] == 'err' else ''}) vs model {okerr(resp[0])}")
                continue
            if r["slices"][0] == "ok":
                for a, ((s, e), me) in enumerate(zip(r["slices"][1], resp[0]["ok"])):
                    if [s, e] != me and not (amb[a] and abs(s - me[0]) <= 1 and abs(e - me[1]) <= 1):
                        dis.append(f"{name}: slice along axis {a} impl {s}:{e} vs model {me[0]}:{me[1]}")
        elif kind == "pad":
            name += f"({op['pad']}, {op['mode']})"
            for key, rp in zip(("mesh", "field"), resp):
                if r[key][0] != okerr(rp):
                    dis.append(f"{name}: {key} impl {r[key][0]} ({r[key][1] if r[key][0] == 'err' else ''}) vs model {okerr(rp)}")
            if len(dis) > d0:
                continue
            if r["mesh"][0] == "ok":
                cmp_mesh(ctx, name + " Mesh.pad", r["mesh"][1], resp[0]["ok"], dis)
            if r["field"][0] == "ok":
                g = r["field"][1]
                if cmp_mesh(ctx, name + " Field.pad mesh", g.mesh, resp[1]["ok"]["mesh"], dis):
                    cmp_field_data(name, g, resp[1]["ok"], dis)
        elif kind == "resample":
            name += f"({op['n']})"
            if r["field"][0] != okerr(resp[0]):
                dis.append(f"{name}: impl {r['field'][0]} ({r['field'][1] if r['field'][0] == 'err' else ''}) vs model {okerr(resp[0])}")
                continue
            if r["field"][0] == "ok":
                g = r["field"][1]
                if cmp_mesh(ctx, name + " mesh", g.mesh, resp[0]["ok"]["mesh"], dis):
                    only = None
                    if not r.get("dyadic"):
                        only = [not r["amb"][j] for j in itertools.product(*[range(int(k)) for k in g.mesh.n])]
                    cmp_field_data(name, g, resp[0]["ok"], dis, only=only)
    return dis


def nontrivial(case, obs):
    return bool(obs.get("nontrivial"))


def known(case, text):
    # D71 (box touching the upper boundary) and D72 (range next to a subregion face) are fixed in /repo:
    # corpus cases 06/07 are regression cases now.
    # D117 (proposed): on a mesh with INTEGER-typed corners a selection coordinate handed over as numpy.float32 /
    # float16 is truncated to an integer (`pmin.astype(max(pmin.dtype, type(value)))` stays int64), so the cell
    # containing int(x) is selected instead of the cell containing x. Generated only with VERIF_C07_F4INT=1.
    ms = case.get("mesh", {})
    if all(isinstance(v, int) for v in list(ms.get("p1", [])) + list(ms.get("p2", []))) and \
            any(isinstance(op.get("arg"), dict) and op["arg"].get("as") in ("f4", "f2") for op in case.get("ops", [])):
        return None   # was finding D118 (fixed in /repo f823ca7a): nothing is excused any more
    return None


def search(case, rng):
    """neighbouring cases: same mesh/field with fresh operations of the same family, then fresh meshes"""
    for _ in range(40):
        c = dict(case)
        c.pop("_src", None)
        spec, subs = case["mesh"], case.get("subs", [])
        exact = case["regime"] == "exact"
        fam = case["fam"]
        if fam == "sel":
            c["ops"] = (sel_ops_exact if exact else sel_ops_tol)(rng, spec, subs, "thorough")
        elif fam == "getitem":
            c["ops"] = (getitem_ops_exact if exact else getitem_ops_tol)(rng, spec, subs, "thorough")
        elif fam == "pad":
            c["ops"] = pad_ops(rng, spec, "thorough")
        elif fam == "meta":
            break
        else:
            c["ops"] = resample_ops(rng, spec, "thorough")
        c["sub"] = rng.getrandbits(32)
        yield c
    yield from cases(rng, "quick")


def shrink(failure):
    """keep only the failing operation"""
    case, text = failure["case"], failure["text"]
    if not text.startswith("op "):
        return None
    k = int(text.split(":")[0].split()[1])
    c = {kk: v for kk, v in case.items() if not kk.startswith("_")}
    c["ops"] = [case["ops"][k]]
    o = run_impl(c)
    bad = o["oracle"]
    if bad:
        return dict(case=c, kind="oracle", text=bad[0])
    return None
